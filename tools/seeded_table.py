"""prints the markdown table 'seeded change -> checks that catch it' from seeded/*/meta.json"""
import glob, json, os, re
rows = []
for m in sorted(glob.glob('/verif/seeded/*/meta.json')):
    d = json.load(open(m))
    notes = d.get("needs_to_manifest", "")
    first = ""
    for line in notes.split("\n"):
        line = line.strip(" #*-")
        if len(line) > 25 and not line.lower().startswith(("what", "notes", "seeded", "mutant", "m1", "m2", "m3", "property")):
            first = line
            break
    det = d.get("detected_by", [])
    lines = []
    for c, v in d["what_was_run"]["checks_with_patch"].items():
        for l in v["lines"]:
            if l.startswith("VIOLATION"):
                lines.append(re.sub(r".*replay=/verif/_build/replay/", "", l)[:70])
                break
    rv = os.path.join(os.path.dirname(m), "revalidation.json")
    if os.path.exists(rv):  # the re-run against the final /repo HEAD is authoritative
        r = json.load(open(rv))
        det2 = [c for c, v in r.get("checks", {}).items() if v["rc"] == 1]
        if det2:
            det = det2
            lines = [re.sub(r".*replay=/verif/_build/replay/", "", v["first"][0])[:70] for c, v in r["checks"].items() if v["rc"] == 1 and v["first"]]
    rows.append((d["id"], first[:150].replace("|", "/"), ", ".join(det) or "MISSED", "; ".join(lines)[:90]))
print("| seeded change | what it is | caught by | first reported replay |")
print("|---|---|---|---|")
for r in rows:
    print("| " + " | ".join(r) + " |")
