"""refresh the list of /repo's fix commits in known_findings.json and print a summary of open/fixed entries over
known_findings.json and the fragments known_findings.d/*.json (both are read by lib/vcore.py; nothing is merged)."""
import glob, json, subprocess
main = json.load(open('/verif/known_findings.json'))
main['repo_fix_commits'] = subprocess.run("git -C /repo log --format='%h %s' | grep ' fix: '", shell=True, capture_output=True, text=True).stdout.strip().split("\n")
json.dump(main, open('/verif/known_findings.json', 'w'), indent=1)
n_open = len([e for e in main['findings'] if e.get('status', 'open') == 'open'])
n_fixed = len(main.get('fixed', []))
for fn in sorted(glob.glob('/verif/known_findings.d/*.json')):
    d = json.load(open(fn))
    n_open += len([e for e in d.get('findings', []) if e.get('status', 'open') == 'open'])
    n_fixed += len(d.get('fixed', []))
print(n_open, "open findings;", n_fixed, "fixed entries;", len(main['repo_fix_commits']), "fix commits")
