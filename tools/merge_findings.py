"""merge known_findings.d/*.json into known_findings.json (single committed file) and list /repo's fix commits.
Fragments are kept in place only if --keep is given; otherwise they are deleted after merging."""
import glob, json, os, subprocess, sys
main = json.load(open('/verif/known_findings.json'))
seen = {(e['property'], e['key']) for e in main['findings']}
fixed = list(main.get('fixed', []))
for fn in sorted(glob.glob('/verif/known_findings.d/*.json')):
    d = json.load(open(fn))
    for e in d.get('findings', []):
        if e.get('status') != 'open':
            continue
        k = (e['property'], e['key'])
        if k not in seen:
            seen.add(k)
            main['findings'].append({"property": e['property'], "key": e['key'], "status": "open", "what": e['what']})
    for f in d.get('fixed', []):
        if f not in fixed:
            fixed.append(f)
main['findings'].sort(key=lambda e: (e['property'], e['key']))
main['fixed'] = fixed
log = subprocess.run("git -C /repo log --format='%h %s' | grep ' fix: '", shell=True, capture_output=True, text=True).stdout.strip().split("\n")
main['repo_fix_commits'] = log
json.dump(main, open('/verif/known_findings.json', 'w'), indent=1)
if '--keep' not in sys.argv:
    for fn in glob.glob('/verif/known_findings.d/*.json'):
        os.remove(fn)
print(len(main['findings']), "open findings;", len(fixed), "fixed entries;", len(log), "fix commits")
