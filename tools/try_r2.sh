#!/bin/sh
# usage: tools/try_r2.sh <P> [extra checks]  -- tests /tmp/mut/P/r2/m1,m2 against check P (and extras)
P=$1; shift
for i in 1 2; do
  f=/tmp/mut/$P/r2/m$i/patch.diff
  [ -f $f ] || continue
  echo "== $P r2 m$i"
  /verif/tools/try_mutant.sh /tmp/mut/$P $f $P "$@" | grep -v KNOWN | cut -c1-170 | awk '/^VIOLATION/ && ++n<=2 {print} /^\[/ {print}'
done
