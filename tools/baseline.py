"""run the pinned test suite on /repo and compare with BASELINE.json stable_pass"""
import json, subprocess, sys, xml.etree.ElementTree as ET, time
out = sys.argv[1] if len(sys.argv) > 1 else "/tmp/baseline.junit.xml"
import os
REPO = os.environ.get("QIBO_REPO", "/repo")
t = time.time()
subprocess.run(f"cd {REPO} && PYTHONPATH={REPO}/src /venv/bin/python -m pytest -ra -q -p no:cacheprovider --timeout=900 --continue-on-collection-errors -n 12 --junitxml={out} > {out}.log 2>&1" if "--par" in sys.argv else
               f"cd {REPO} && PYTHONPATH={REPO}/src /venv/bin/python -m pytest -ra -q -p no:cacheprovider --timeout=900 --continue-on-collection-errors --junitxml={out} > {out}.log 2>&1", shell=True)
base = json.load(open("/root/.vp/BASELINE.json"))
stable = set(base["stable_pass"])
passed = set()
for tc in ET.parse(out).getroot().iter("testcase"):
    bad = any(ch.tag in ("failure", "error", "skipped") for ch in tc)
    if not bad:
        passed.add(f"{tc.get('classname')}::{tc.get('name')}")
missing = sorted(stable - passed)
# tests that cannot pass in a scratch worktree (their ids contain the /repo path, or they need
# untracked files of /repo): ignore those listed in the file named by BASELINE_IGNORE
ign = os.environ.get("BASELINE_IGNORE")
if ign and os.path.exists(ign):
    ignore = set(json.load(open(ign)))
    missing = [m for m in missing if m not in ignore]
if os.environ.get("BASELINE_WRITE_MISSING"):
    json.dump(missing, open(os.environ["BASELINE_WRITE_MISSING"], "w"))
print(f"stable_pass={len(stable)} passed_now={len(passed)} missing={len(missing)} wall={time.time()-t:.0f}s")
for m in missing[:40]:
    print("  MISSING", m)
sys.exit(1 if missing else 0)
