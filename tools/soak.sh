#!/bin/sh
# usage: tools/soak.sh <tier> <parallel> <seed> [seed...]  -- runs every registered check for each seed (tagged build dirs,
# evidence goes to evidence/Cxx.<tag>.json which is git-ignored) and prints one verdict line per run; used to look for
# seed-dependent false alarms on the unchanged tree. Not a registered check.
TIER="$1"; PAR="$2"; shift 2
cd "$(dirname "$0")/.."
[ -d coq/theories/Base ] && ./setup.sh >/dev/null 2>&1
for S in "$@"; do
  for P in C01 C02 C03 C04 C05 C06 C07 C08 C09 C10 C11 C12 C13 C14 C15 C16 C17 C18 C19 C20; do echo "$S $P"; done
done | xargs -P "$PAR" -L 1 sh -c 'S=$0; P=$1; T0=$(date +%s); OUT=$(VERIF_SEED=$S VERIF_BUILD_TAG=soak$S timeout 3600 bin/check $P --tier '"$TIER"' 2>&1); RC=$?; echo "seed=$S $P rc=$RC wall=$(( $(date +%s) - T0 ))s $(echo "$OUT" | grep -c "^VIOLATION") violations"; echo "$OUT" | grep "^VIOLATION\|Traceback\|Error" | head -5'
