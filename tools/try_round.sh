#!/bin/sh
# usage: tools/try_round.sh <round e.g. r3> <P> [extra checks]  -- tests /tmp/mut/P/<round>/m1,m2 against check P (and extras)
R=$1; P=$2; shift 2
for i in 1 2; do
  f=/tmp/mut/$P/$R/m$i/patch.diff
  [ -f $f ] || continue
  echo "== $P $R m$i"
  /verif/tools/try_mutant.sh /tmp/mut/$P $f $P "$@" | grep -v KNOWN | cut -c1-170 | awk '/^VIOLATION/ && ++n<=2 {print} /^\[/ {print}'
done
