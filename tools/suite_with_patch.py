"""re-run the pinned suite against seeded patches that were ported to a newer /repo HEAD; records the result in meta.json
usage: suite_with_patch.py <seeded id> ..."""
import json, os, subprocess, sys
from concurrent.futures import ThreadPoolExecutor
def sh(c):
    p = subprocess.run(c, shell=True, stdout=subprocess.PIPE, stderr=subprocess.STDOUT, text=True); return p.returncode, p.stdout
HEAD = sh("git -C /repo rev-parse --short HEAD")[1].strip()
def one(sid):
    d = f"/verif/seeded/{sid}"; wt = f"/tmp/swp/{sid}"
    sh(f"git -C /repo worktree remove --force {wt}"); os.makedirs("/tmp/swp", exist_ok=True)
    sh(f"git -C /repo worktree add -q --detach {wt} HEAD")
    rc, _ = sh(f"git -C {wt} apply {d}/patch.diff")
    out = "patch does not apply"
    if rc == 0:
        rcb, ob = sh(f"QIBO_REPO={wt} BASELINE_IGNORE=/verif/tools/worktree_env_failures.json /venv/bin/python /verif/tools/baseline.py /tmp/swp/{sid}.xml")
        out = ob.strip().split("\n")[0]
    sh(f"git -C /repo worktree remove --force {wt}")
    m = json.load(open(f"{d}/meta.json"))
    m["ported"] = {"to_head": HEAD, "test_suite_with_ported_patch": out}
    json.dump(m, open(f"{d}/meta.json", "w"), indent=1)
    return sid, out
with ThreadPoolExecutor(max_workers=3) as ex:
    for r in ex.map(one, sys.argv[1:]):
        print(*r); sys.stdout.flush()
