"""Re-validate every seeded change against the CURRENT /repo HEAD (no suite run): the patch applies,
the demo passes on the clean tree and fails with the patch, and the recorded check(s) report a violation.
Writes seeded/<id>/revalidation.json.   usage: revalidate_seeded.py [ids...]"""
import json, os, shutil, subprocess, sys, glob
from concurrent.futures import ThreadPoolExecutor

def sh(cmd):
    p = subprocess.run(cmd, shell=True, stdout=subprocess.PIPE, stderr=subprocess.STDOUT, text=True)
    return p.returncode, p.stdout

HEAD = sh("git -C /repo rev-parse --short HEAD")[1].strip()

def one(d):
    sid = os.path.basename(d.rstrip("/"))
    meta = json.load(open(os.path.join(d, "meta.json")))
    wt = f"/tmp/reval/{sid}"
    sh(f"git -C /repo worktree remove --force {wt}")
    shutil.rmtree(wt, ignore_errors=True)
    os.makedirs("/tmp/reval", exist_ok=True)
    sh(f"git -C /repo worktree add -q --detach {wt} HEAD")
    env = f"PYTHONPATH={wt}/src PYTHONHASHSEED=0 QIBO_LOG_LEVEL=5"
    res = {"id": sid, "head": HEAD}
    res["demo_clean_rc"] = sh(f"cd {wt} && {env} timeout 600 /venv/bin/python {d}/demo.py")[0]
    rca, _ = sh(f"git -C {wt} apply {d}/patch.diff")
    res["patch_applies"] = rca == 0
    if rca == 0:
        res["demo_patched_rc"] = sh(f"cd {wt} && {env} timeout 600 /venv/bin/python {d}/demo.py")[0]
        checks = meta.get("detected_by") or [meta["breaks_property"]]
        res["checks"] = {}
        for c in checks:
            rc, out = sh(f"VERIF_BUILD_TAG=rv{sid.replace('-', '')} QIBO_REPO={wt} /verif/bin/check {c} --tier quick")
            res["checks"][c] = {"rc": rc, "first": [l[:160] for l in out.split("\n") if l.startswith("VIOLATION")][:2]}
        res["detected"] = any(v["rc"] == 1 for v in res["checks"].values())
    sh(f"git -C /repo worktree remove --force {wt}")
    shutil.rmtree(wt, ignore_errors=True)
    res["still_valid"] = bool(res.get("patch_applies") and res["demo_clean_rc"] == 0 and res.get("demo_patched_rc", 0) != 0)
    seed = os.environ.get("VERIF_SEED", "0") or "0"
    res["seed"] = int(seed)
    json.dump(res, open(os.path.join(d, "revalidation.json" if seed == "0" else f"revalidation.seed{seed}.json"), "w"), indent=1)
    return res

if __name__ == "__main__":
    ids = sys.argv[1:]
    dirs = sorted(glob.glob("/verif/seeded/*/"))
    if ids:
        dirs = [d for d in dirs if os.path.basename(d.rstrip("/")) in ids]
    with ThreadPoolExecutor(max_workers=int(os.environ.get("REVAL_WORKERS", "8"))) as ex:
        for r in ex.map(one, dirs):
            print(json.dumps({k: r.get(k) for k in ("id", "still_valid", "detected", "demo_clean_rc", "demo_patched_rc", "patch_applies")}))
            sys.stdout.flush()
