#!/bin/sh
# usage: tools/try_r5.sh <P> [extra checks] -- runs check P (and extras) against /tmp/mutr5/P/m10,m11 applied in scratch worktree /tmp/mut5/P
P=$1; shift
for j in 10 11; do
  f=/tmp/mutr5/$P/m$j/patch.diff
  [ -f $f ] || continue
  echo "== $P m$j"
  /verif/tools/try_mutant.sh /tmp/mut5/$P $f $P "$@" | grep -v KNOWN | cut -c1-170 | awk '/^VIOLATION/ && ++n<=2 {print} /^\[/ {print} /does not apply/ {print}'
done
