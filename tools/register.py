"""register / update one check in MANIFEST.json:  register.py CNN "<level text>" "<technique>" "<level note extra>" [engine]"""
import json, sys
pid, text, technique, note = sys.argv[1:5]
engine = sys.argv[5] if len(sys.argv) > 5 else "coq-spec-correspondence"
m = json.load(open('/verif/MANIFEST.json'))
BASE_NOTE = ("Trusted: Coq 8.16.1 kernel + vm_compute (no native_compute); axioms as reported by Print Assumptions in the evidence; "
             "the hand-written executable Gallina model/spec and the Python correspondence harness that ties it to /repo on every run; "
             "floating-point rounding is not modelled. ")
c = {"property_id": pid, "quick_cmd": f"bin/check {pid} --tier quick", "thorough_cmd": f"bin/check {pid} --tier thorough",
     "evidence_file": f"evidence/{pid}.json", "replay_cmd_template": f"bin/check {pid} --replay {{path}}", "engine": engine,
     "level_claimed": {"category": "proof", "text": text, "design_ref": f"DESIGN.md {pid}"},
     "level_note": BASE_NOTE + note, "technique": technique}
m['checks'] = sorted([x for x in m['checks'] if x['property_id'] != pid] + [c], key=lambda x: x['property_id'])
m['not_applicable'] = [e for e in m['not_applicable'] if e['property_id'] != pid]
for e in m['engines']:
    if e['name'] == engine:
        e['serves_properties'] = sorted(set(e['serves_properties']) | {pid})
json.dump(m, open('/verif/MANIFEST.json', 'w'), indent=1)
import jsonschema
jsonschema.validate(m, json.load(open('/root/.vp/MANIFEST.schema.json')))
print("registered", pid)
