"""For one seeded change per property: run the quick check against the patched scratch worktree, then re-execute the first
replay files with `bin/check <P> --replay <file>` against the patched tree (must report the violation again, rc 1) and
against the unchanged tree (must pass, rc 0).   usage: replay_sanity.py [seeded ids...]"""
import glob, json, os, re, subprocess, sys
from concurrent.futures import ThreadPoolExecutor
def sh(c):
    p = subprocess.run(c, shell=True, stdout=subprocess.PIPE, stderr=subprocess.STDOUT, text=True); return p.returncode, p.stdout
def one(sid):
    P = sid.split("-")[0]; d = f"/verif/seeded/{sid}"; wt = f"/tmp/rps/{sid}"; tag = "rp" + sid.replace("-", "")
    sh(f"git -C /repo worktree remove --force {wt}"); os.makedirs("/tmp/rps", exist_ok=True)
    sh(f"git -C /repo worktree add -q --detach {wt} HEAD"); sh(f"git -C {wt} apply {d}/patch.diff")
    rc, out = sh(f"VERIF_BUILD_TAG={tag} QIBO_REPO={wt} /verif/bin/check {P} --tier quick")
    files = [m.group(1) for m in re.finditer(r"^VIOLATION property=\S+ replay=(\S+)(.*)$", out, re.M) if "no-failing-input-found" not in m.group(2)][:2]
    res = {"id": sid, "check_rc": rc, "replays": []}
    for f in files:
        keep = f"/tmp/rps/{sid}_{os.path.basename(f)}"
        sh(f"cp {f} {keep}")
        r1, o1 = sh(f"VERIF_BUILD_TAG={tag} QIBO_REPO={wt} /verif/bin/check {P} --replay {keep}")
        r0, o0 = sh(f"VERIF_BUILD_TAG={tag} /verif/bin/check {P} --replay {keep}")
        res["replays"].append({"file": os.path.basename(f), "patched_rc": r1, "patched_violation": "VIOLATION" in o1, "clean_rc": r0, "clean_violation": "VIOLATION" in o0})
    sh(f"git -C /repo worktree remove --force {wt}")
    return res
ids = sys.argv[1:]
with ThreadPoolExecutor(max_workers=5) as ex:
    for r in ex.map(one, ids):
        print(json.dumps(r)); sys.stdout.flush()
