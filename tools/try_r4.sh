#!/bin/sh
# usage: tools/try_r4.sh <P> [extra checks] -- runs check P (and extras) against /tmp/mutr4/P/m8,m9 applied in scratch worktree /tmp/mut/P
P=$1; shift
for j in 8 9; do
  f=/tmp/mutr4/$P/m$j/patch.diff
  [ -f $f ] || continue
  echo "== $P m$j"
  /verif/tools/try_mutant.sh /tmp/mut/$P $f $P "$@" | grep -v KNOWN | cut -c1-170 | awk '/^VIOLATION/ && ++n<=2 {print} /^\[/ {print} /does not apply/ {print}'
done
