"""Confirm seeded changes produced by a sub-agent and file them under /verif/seeded/.

usage: confirm_mutants.py <PROP> <out_dir_with_m1..mN> [checks to run, default PROP]
For every mN: a fresh scratch worktree of /repo HEAD is created, the demo is run on the clean tree
(must pass), the patch is applied, the demo is run again (must fail), the pinned test suite is run
against the patched worktree (all stable_pass tests must pass), the registered quick check(s) are run
against the patched worktree (QIBO_REPO), and the worktree is removed.
"""
import json
import os
import shutil
import subprocess
import sys
import time

prop = sys.argv[1]
out_dir = sys.argv[2]
checks = sys.argv[3:] or [prop]
ENV = dict(os.environ)


def sh(cmd, **kw):
    p = subprocess.run(cmd, shell=True, stdout=subprocess.PIPE, stderr=subprocess.STDOUT, text=True, **kw)
    return p.returncode, p.stdout


def one(mdir):
    name = os.path.basename(mdir.rstrip("/"))
    wt = f"/tmp/mutc/{prop}_{name}"
    sh(f"git -C /repo worktree remove --force {wt}")
    shutil.rmtree(wt, ignore_errors=True)
    os.makedirs("/tmp/mutc", exist_ok=True)
    rc, o = sh(f"git -C /repo worktree add -q --detach {wt} HEAD")
    res = {"id": f"{prop}-{name}", "property": prop}
    patch = os.path.join(mdir, "patch.diff")
    demo = os.path.join(mdir, "demo.py")
    env = f"PYTHONPATH={wt}/src PYTHONHASHSEED=0 QIBO_LOG_LEVEL=5"
    rc0, o0 = sh(f"cd {wt} && {env} timeout 600 /venv/bin/python {demo}")
    res["demo_clean_rc"] = rc0
    rca, oa = sh(f"git -C {wt} apply {patch}")
    res["patch_applies"] = rca == 0
    if rca == 0:
        rc1, o1 = sh(f"cd {wt} && {env} timeout 600 /venv/bin/python {demo}")
        res["demo_patched_rc"] = rc1
        res["demo_patched_tail"] = o1[-400:]
        t = time.time()
        rcb, ob = sh(f"QIBO_REPO={wt} BASELINE_IGNORE=/verif/tools/worktree_env_failures.json /venv/bin/python /verif/tools/baseline.py /tmp/mutc/{prop}_{name}.xml")
        res["suite"] = ob.strip().split("\n")[0]
        res["suite_ok"] = rcb == 0
        verdicts = {}
        for c in checks:
            rcc, oc = sh(f"VERIF_BUILD_TAG=mut{os.getpid()} QIBO_REPO={wt} /verif/bin/check {c} --tier quick")
            lines = [l for l in oc.split("\n") if l.startswith("VIOLATION") or l.startswith("[")]
            verdicts[c] = {"rc": rcc, "lines": [l[:200] for l in lines][:8]}
        res["checks"] = verdicts
        res["detected"] = any(v["rc"] == 1 for v in verdicts.values())
    sh(f"git -C /repo worktree remove --force {wt}")
    shutil.rmtree(wt, ignore_errors=True)
    res["valid"] = bool(res.get("patch_applies") and res.get("demo_clean_rc") == 0 and res.get("demo_patched_rc", 0) != 0 and res.get("suite_ok"))
    if res["valid"]:
        dst = f"/verif/seeded/{prop}-{name}"
        os.makedirs(dst, exist_ok=True)
        shutil.copy(patch, dst)
        shutil.copy(demo, dst)
        notes = os.path.join(mdir, "notes.md")
        if os.path.exists(notes):
            shutil.copy(notes, dst)
        meta = {"id": res["id"], "breaks_property": prop,
                "needs_to_manifest": open(notes).read()[:1500] if os.path.exists(notes) else "",
                "what_was_run": {"demo_on_clean_tree_rc": rc0, "demo_with_patch_rc": res["demo_patched_rc"],
                                 "test_suite_with_patch": res["suite"],
                                 "checks_with_patch": res["checks"]},
                "detected_by": [c for c, v in res["checks"].items() if v["rc"] == 1]}
        json.dump(meta, open(os.path.join(dst, "meta.json"), "w"), indent=1)
    return res


if __name__ == "__main__":
    mdirs = sorted(os.path.join(out_dir, d) for d in os.listdir(out_dir) if d.startswith("m") and os.path.isdir(os.path.join(out_dir, d)))
    allres = []
    for m in mdirs:
        r = one(m)
        allres.append(r)
        print(json.dumps({k: r.get(k) for k in ("id", "valid", "suite", "detected", "demo_clean_rc", "demo_patched_rc")}))
        sys.stdout.flush()
    json.dump(allres, open(f"/tmp/mutc/{prop}_results.json", "w"), indent=1)
