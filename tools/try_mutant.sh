#!/bin/sh
# usage: tools/try_mutant.sh <worktree> <patch.diff> <prop> [more props]  -- applies the patch in the scratch
# worktree, runs the given checks against it (QIBO_REPO), prints their verdict lines, reverts the patch.
WT="$1"; PATCH="$2"; shift 2
git -C "$WT" checkout -q -- . && git -C "$WT" apply "$PATCH" || { echo "patch does not apply"; exit 2; }
for P in "$@"; do
  VERIF_BUILD_TAG=try QIBO_REPO="$WT" /verif/bin/check "$P" --tier quick 2>&1 | grep -E "^VIOLATION|^KNOWN|^\[" | cut -c1-220
done
git -C "$WT" checkout -q -- .
