#!/bin/sh
# Builds the static Coq development (coq/theories) from files on disk; offline.
set -e
cd "$(dirname "$0")"
# forbidden constructs anywhere in the development
if grep -rnE '\b(Admitted|admit|Axiom|Parameter|Conjecture|Admit Obligations)\b|Unset Guard|bypass_check|-type-in-type|-impredicative-set' coq/theories --include='*.v' | grep -vE '^\S+:[0-9]+:\s*\(\*'; then
  echo "forbidden construct found"; exit 1
fi
PYTHONPATH="$PWD" /venv/bin/python - <<'PY'
from lib import vcore
rc, out = vcore.ensure_static_build(keep_going=True)
if rc:
    print(out[-3000:])
    print("WARNING: some theories failed to build (each check builds what it needs and fails closed)")
vcore.ensure_static_build(["Base/TrigMat", "Base/TrigDeriv", "Base/Zi", "Spec/GateSpec"])
PY
echo "coq static build done"
