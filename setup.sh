#!/bin/sh
# Builds the static Coq development (Base/Spec/Model/Proofs/Props) from files on disk.
set -e
cd "$(dirname "$0")/coq"
coq_makefile -f _CoqProject -o Makefile >/dev/null
timeout 3000 make -j16 >/dev/null 2>_make.err || { cat _make.err; exit 1; }
echo "coq static build ok"
