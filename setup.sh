#!/bin/sh
# Builds the static Coq development (coq/theories) from files on disk; offline.
set -e
cd "$(dirname "$0")"
PYTHONPATH="$PWD" /venv/bin/python - <<'PY'
import sys
from lib import vcore
hits = vcore.scan_forbidden()
if hits:
    for h in hits:
        print("FORBIDDEN", *h)
    sys.exit(1)
rc, out = vcore.ensure_static_build(keep_going=True)
if rc:
    print(out[-3000:])
    print("WARNING: some theories failed to build (each check builds what it needs and fails closed)")
vcore.ensure_static_build(["Base/TrigMat", "Base/TrigDeriv", "Base/Zi", "Spec/GateSpec"])
PY
echo "coq static build done"
