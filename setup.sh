#!/bin/sh
# Builds the static Coq development (coq/theories) from files on disk; offline.
set -e
cd "$(dirname "$0")"
# forbidden constructs anywhere in the development
if grep -rnE '\b(Admitted|admit|Axiom|Parameter|Conjecture|Admit Obligations)\b|Unset Guard|bypass_check|-type-in-type|-impredicative-set' coq/theories --include='*.v' | grep -v '^\S*:[0-9]*:\s*(\*'; then
  echo "forbidden construct found"; exit 1
fi
PYTHONPATH="$PWD" /venv/bin/python -c "from lib import vcore; vcore.ensure_static_build()"
echo "coq static build ok"
