"""C11  The full transpilation pipeline is meaning-preserving end to end.

1. static Coq theorems (C11/Props.v): Passes.__call__ as a fold over passes; Preprocessing keeps the
   circuit's own wires at their positions and appends the remaining nodes; a placer meeting its
   contract (only wire_names change, to a permutation of the device nodes) changes no operator;
   composition theorem pipeline_ok: passes meeting their contracts (router: C09 routing_ok,
   unroller: C10 table) yield a circuit accepted by the specification of is_satisfied and equal to
   the padded input read through the final layout; asserts_sound; is_satisfied_sound /
   is_satisfied_complete (the acceptance check coincides with its specification).
2. per run, on the real code (every pass of the real Passes.__call__ is observed by wrapping the
   pass classes' __call__ at run time): Preprocessing / placer / router / unroller contracts are
   CHECKED on every real pass execution; Preprocessing and is_satisfied are compared with the Coq
   model (vm_compute); is_satisfied(output) must hold; the end-to-end operator is compared with
   P_layout . (padded input): exactly (Gaussian integers) for pipelines without unroller, up to a
   global phase with tolerance 1e-7 for pipelines with an unroller (that part is a TEST, labelled);
   measured registers are compared by name / logical qubits and by exact outcome distributions.
3. every pipeline SHAPE (no router; placer only; router only; with / without Preprocessing; unroller only; empty):
   the returned final layout must be None / the identity placement when no router ran (C11/PropsLayout.v:
   no_router_final_layout_none, no_router_pipeline_ok) and, whenever it is a dict, out = P_layout . in.
4. execution through the GLOBAL transpiler (qibo.set_backend(<provider of a hardware-like backend>) -> default
   transpiler; qibo.set_transpiler(Passes(...))): histories of set_parameters / gate.parameters / add / wire_names /
   measure / set_transpiler on ONE circuit executed repeatedly with circuit(); every result (state mapped back
   through the observed layout, register outcome distributions, sampled frequencies) is compared with a
   from-scratch reference of the current abstract state (TEST with tolerance 1e-7); global state always restored.
5. inputs deep-snapshotted around every Passes call (circuit attributes, init_kwargs, gate objects, device graph),
   outputs of earlier calls of a history re-compared after later calls; circuits with wire-name set/reset
   histories (shared generator with C09).
"""
STATIC = ["C11/Props", "C11/PropsLayout", "C11/ModelCheck", "C09/Props"]
import itertools
import json
import random

import networkx as nx
import numpy as np

from lib import vcore
from harness import c09 as R

TOL = 1e-7

G1 = [("H", 0), ("X", 0), ("Y", 0), ("Z", 0), ("S", 0), ("T", 0), ("SX", 0), ("I", 0), ("RX", 1), ("RY", 1), ("RZ", 1),
      ("U1", 1), ("GPI2", 1), ("U3", 3)]
G2 = [("CNOT", 0), ("CZ", 0), ("SWAP", 0), ("iSWAP", 0), ("FSWAP", 0), ("CRX", 1), ("CRZ", 1), ("CU1", 1), ("RZZ", 1),
      ("RXX", 1), ("fSim", 2), ("CU3", 3)]
G2_CNOT = [("CNOT", 0), ("CZ", 0), ("SWAP", 0)]


def native_sets():
    from qibo.transpiler.unroller import NativeGates as N
    base = N.I | N.Z | N.RZ | N.M
    return {"default": N.default(), "U3_CZ": base | N.U3 | N.CZ, "GPI2_iSWAP": base | N.GPI2 | N.iSWAP,
            "U3_iSWAP": base | N.U3 | N.iSWAP, "U3_CNOT": base | N.U3 | N.CNOT,
            "GPI2_CZ_iSWAP": base | N.GPI2 | N.CZ | N.iSWAP}


# ------------------------------------------------------------------ building from specs
def build_gate(g):
    from qibo import gates
    kind, qs, kw = g
    if "p" in kw:
        return getattr(gates, kind)(*qs, *kw["p"])
    return R.build_gate(g)


def build_circuit(spec):
    """spec["attr"] (optional): history of attribute operations on the circuit object before it is transpiled (see c09.build_circuit)"""
    return R.build_circuit(spec, mk=build_gate)


def device_graph(spec):
    g = nx.Graph()
    g.add_nodes_from(spec["nodes"])
    g.add_edges_from(tuple(e) for e in spec["edges"])
    return g


def build_passes(spec, shared=None):
    """shared = (pass objects, natives) to put the SAME pass instances into another Passes object
    (another device / another on_qubits restriction)"""
    from qibo.transpiler import optimizer, placer, router, unroller
    from qibo.transpiler.pipeline import Passes
    pl = spec["pipeline"]
    if shared is not None:
        passes, nat = shared
        kwargs = dict(connectivity=device_graph(spec))
        if nat is not None:
            kwargs["native_gates"] = nat
        if spec.get("on_qubits") is not None:
            kwargs["on_qubits"] = list(spec["on_qubits"])
        return Passes(passes, **kwargs), nat
    passes = []
    if pl.get("pre", True):
        passes.append(optimizer.Preprocessing())
    if pl.get("placer"):
        name, kw = pl["placer"]
        if name == "ReverseTraversal":
            rn, rkw = kw["router"]
            passes.append(placer.ReverseTraversal(getattr(router, rn)(**rkw), depth=kw.get("depth")))
        else:
            passes.append(getattr(placer, name)(**kw))
    if pl.get("router"):
        name, kw = pl["router"]
        passes.append(getattr(router, name)(**kw))
    nat = native_sets()[pl["natives"]] if pl.get("natives") else None
    if nat is not None:
        passes.append(unroller.Unroller(nat))
    kwargs = dict(connectivity=device_graph(spec))
    if nat is not None:
        kwargs["native_gates"] = nat
    if spec.get("on_qubits") is not None:
        kwargs["on_qubits"] = list(spec["on_qubits"])
    return Passes(passes, **kwargs), nat


# ------------------------------------------------------------------ observing the passes
class PassLog:
    """wraps __call__ of every pass class at run time; logs top-level pass executions"""

    def __init__(self):
        from qibo.transpiler import optimizer, placer, router, unroller
        self.classes = [optimizer.Preprocessing, placer.Random, placer.Subgraph, placer.ReverseTraversal,
                        placer.StarConnectivityPlacer, router.Sabre, router.ShortestPaths,
                        router.StarConnectivityRouter, unroller.Unroller]
        self.saved = {}
        self.log = []
        self.depth = 0

    def _install_oracles(self):
        """record the random layouts drawn by placer.Random and the answers of the GraphMatcher used
        by placer.Subgraph (both are oracles of the placer models)"""
        import networkx as nx_
        from qibo.transpiler import placer as PL
        self.oracle = {"random": [], "subgraph": []}
        self._saved_state_fn = PL._check_backend_and_local_state
        orc = self.oracle

        class Recording:
            def __init__(self, inner):
                self._inner = inner

            def choice(self, *a, **k):
                r = self._inner.choice(*a, **k)
                orc["random"].append([int(x) for x in r])
                return r

            def __getattr__(self, nm):
                return getattr(self._inner, nm)

        def state_fn(seed, backend=None):
            b, st = self._saved_state_fn(seed, backend=backend)
            return b, Recording(st)

        PL._check_backend_and_local_state = state_fn
        GM = nx_.algorithms.isomorphism.GraphMatcher
        self._saved_mono = GM.subgraph_is_monomorphic
        s_mono = self._saved_mono

        def mono(self_):
            r = s_mono(self_)
            orc["subgraph"].append((bool(r), dict(self_.mapping) if r else None))
            return r

        GM.subgraph_is_monomorphic = mono

    def _remove_oracles(self):
        import networkx as nx_
        from qibo.transpiler import placer as PL
        PL._check_backend_and_local_state = self._saved_state_fn
        nx_.algorithms.isomorphism.GraphMatcher.subgraph_is_monomorphic = self._saved_mono

    def __enter__(self):
        self._install_oracles()
        for cls in self.classes:
            orig = cls.__call__
            self.saved[cls] = orig

            def wrapped(self_, circuit, *a, _orig=orig, _cls=cls, **k):
                top = self.depth == 0
                self.depth += 1
                try:
                    if top:
                        self.oracle["random"].clear()
                        self.oracle["subgraph"].clear()
                        before = dict(wires=list(circuit.wire_names), n=circuit.nqubits, ids=[id(g) for g in circuit.queue],
                                      queue=list(circuit.queue), obj=circuit,
                                      conn=None if getattr(self_, "connectivity", None) is None else
                                      (list(self_.connectivity.nodes), [tuple(e) for e in self_.connectivity.edges]))
                    res = _orig(self_, circuit, *a, **k)
                    if top:
                        rc = res[0] if isinstance(res, tuple) else res
                        snap = None if rc is None else dict(wires=list(rc.wire_names), ids=[id(g) for g in rc.queue],
                                                            n=rc.nqubits, queue=list(rc.queue))
                        self.log.append(dict(cls=_cls.__name__, before=before, result=res, snap=snap,
                                             oracle={k: list(v) for k, v in self.oracle.items()},
                                             after_wires=list(circuit.wire_names),
                                             after_ids=[id(g) for g in circuit.queue], after_n=circuit.nqubits))
                    return res
                finally:
                    self.depth -= 1

            cls.__call__ = wrapped
        return self

    def __exit__(self, *a):
        self._remove_oracles()
        for cls, orig in self.saved.items():
            cls.__call__ = orig


# ------------------------------------------------------------------ operators
def padded_operator(queue, n):
    return R.exact_operator(queue, n)


def phase_equal(A, B, exact):
    """A == B (exact) or A == e^{i phi} B within TOL"""
    if exact:
        return bool(np.array_equal(A, B))
    i = np.unravel_index(np.argmax(np.abs(B)), B.shape)
    if abs(B[i]) < 1e-12:
        return bool(np.abs(A).max() < TOL)
    ph = A[i] / B[i]
    if abs(abs(ph) - 1) > TOL:
        return False
    return bool(np.abs(A - ph * B).max() < TOL)


def register_distribution(T, n, qubits, exact=False):
    """outcome distribution of measuring `qubits` (in that order) on the state T|0...0>.
    exact: the amplitudes are Gaussian integers below 2^50; the (unnormalised) weights are then computed with
    Python integers (float sums of squares up to 2^100 would depend on the summation order)"""
    psi = T[..., 0]
    if exact:
        re = np.round(psi.real).astype(np.int64).astype(object)
        im = np.round(psi.imag).astype(np.int64).astype(object)
        p = re * re + im * im
    else:
        p = np.abs(psi) ** 2
    rest = tuple(a for a in range(n) if a not in qubits)
    m = p.sum(axis=rest) if rest else p
    # bring to the register's own qubit order
    perm = [sorted(qubits).index(q) for q in qubits]
    return np.transpose(m, perm)


# ------------------------------------------------------------------ contracts of the individual passes
def check_passes(spec, log, dev_nodes, dev_edges, nat, exact, out):
    """returns [(key, what)] for every contract violated by a real pass execution"""
    from qibo import gates
    from qibo.transpiler.asserts import assert_decomposition
    bad = []
    g = nx.Graph()
    g.add_nodes_from(dev_nodes)
    g.add_edges_from(dev_edges)
    for e in log:
        cls, b = e["cls"], e["before"]
        if cls == "Preprocessing":
            sn = e["snap"]
            ok = (list(sn["wires"][:len(b["wires"])]) == b["wires"] and sorted(map(str, sn["wires"])) == sorted(map(str, dev_nodes))
                  and len(set(map(str, sn["wires"]))) == len(dev_nodes) and sn["ids"] == b["ids"]
                  and sn["n"] == len(dev_nodes))
            if not ok:
                bad.append(("preprocessing", f"padding contract violated: {b['wires']} -> {sn['wires']}"))
        elif cls in ("Random", "Subgraph", "ReverseTraversal", "StarConnectivityPlacer"):
            ok = (e["after_ids"] == b["ids"] and e["after_n"] == b["n"] and len(e["after_wires"]) == len(dev_nodes)
                  and sorted(map(str, e["after_wires"])) == sorted(map(str, dev_nodes)) and e["result"] is None)
            if not ok:
                bad.append((f"placer_contract:{cls}", f"placer contract violated: wires {b['wires']} -> {e['after_wires']}"))
        elif cls in ("Sabre", "ShortestPaths", "StarConnectivityRouter"):
            routed, layout = e["result"]
            wn = b["wires"]
            n = b["n"]
            if e["snap"]["wires"] != wn:
                bad.append((f"router_wires:{cls}", "router changed wire names"))
            if not (isinstance(layout, dict) and set(layout) == set(wn) and sorted(layout.values()) == list(range(n))):
                bad.append((f"router_layout:{cls}", f"final layout not a bijection: {layout}"))
                continue
            l2p = [layout[w] for w in wn]
            for x in routed.queue:
                if not isinstance(x, gates.M) and len(x.qubits) == 2 and not g.has_edge(wn[x.qubits[0]], wn[x.qubits[1]]):
                    key = f"nonadjacent_swap:{cls}" if isinstance(x, gates.SWAP) else f"nonadjacent_gate:{cls}"
                    bad.append((key, f"{x.name}{x.qubits} not on an edge"))
                    break
            try:
                U = R.exact_operator(b["queue"], n)
                V = R.exact_operator(routed.queue, n)
                ex = exact and R.is_integral(U) and R.is_integral(V)
                if not (np.array_equal(V, R.permuted(U, l2p, n)) if ex else np.allclose(V, R.permuted(U, l2p, n), atol=1e-9)):
                    bad.append((f"router_operator:{cls}", "router output is not P.U of its input"))
            except OverflowError:
                pass
        elif cls == "Unroller":
            c2 = e["result"]
            if e["snap"]["wires"] != b["wires"]:
                bad.append(("unroller_wires", "unroller changed wire names"))
            try:
                assert_decomposition(c2, nat)
            except Exception as ex_:
                bad.append(("unroller_natives", f"non-native gate after unrolling: {ex_}"))
            U = R.exact_operator(b["queue"], b["n"])
            V = R.exact_operator(c2.queue, b["n"])
            if not phase_equal(V, U, False):
                bad.append(("unroller_operator", "unrolled circuit differs from its input by more than a global phase (test, tolerance 1e-7)"))
    return bad


def classify(spec):
    gs = spec["gates"]
    c = R.classify({"gates": gs})
    if c:
        return c
    return None


def run_pipeline(spec, timeout=30.0, prebuilt=None):
    """execute the real Passes.__call__; returns info dict.  prebuilt = (Passes, natives) to call
    ONE Passes object on several circuits in a row (multi-call histories)"""
    from qibo import gates
    circuit = build_circuit(spec)
    P, nat = prebuilt if prebuilt is not None else build_passes(spec)
    info = {"circuit": circuit, "passes": P, "nat": nat}
    before = R.queue_canon(circuit)
    wires0 = list(circuit.wire_names)
    snap0 = R.circ_snapshot(circuit)
    graph0 = None if P.connectivity is None else R.graph_snapshot(P.connectivity)
    with PassLog() as pl:
        try:
            out, layout = R.with_timeout(timeout, P, circuit)
            info["out"], info["layout"] = out, layout
        except R.RouterTimeout:
            info["timeout"] = True
        except Exception as e:  # noqa
            info["error"] = f"{type(e).__name__}: {e}"
    info["log"] = pl.log
    # deep snapshot of the inputs: attributes, init_kwargs, gate objects (identity and content), the device graph.
    # A placer renames a FULL-SIZE input circuit in place (documented behaviour of placers): only then may the wire
    # names (and their copy in init_kwargs) differ
    diff = set(R.snapshot_diff(snap0, R.circ_snapshot(circuit)))
    if spec["pipeline"].get("placer") and P.connectivity is not None and spec["k"] == P.connectivity.number_of_nodes():
        diff -= {"wires", "kw"}
    info["input_mutated"] = before != R.queue_canon(circuit) or bool(diff)
    info["input_diff"] = sorted(diff)
    info["graph_mutated"] = graph0 is not None and graph0 != R.graph_snapshot(P.connectivity)
    info["input_wires_changed"] = wires0 != list(circuit.wire_names)
    if "out" in info:
        info["out_snap"] = _out_snapshot(info)
    return info


def _out_snapshot(info):
    lay = info["layout"]
    return (R.circ_snapshot(info["out"]), sorted((repr(k_), v) for k_, v in lay.items()) if isinstance(lay, dict) else repr(lay))


def end_to_end(spec, info):
    """[(key, what, extra)] violations of the property text"""
    from qibo import gates
    bad = []
    pl = spec["pipeline"]
    tag = f"{(pl.get('placer') or ['none'])[0]}+{(pl.get('router') or ['none'])[0]}+{pl.get('natives') or 'none'}"
    if not pl.get("pre", True):
        tag = "nopre+" + tag
    if info.get("timeout"):
        return [("timeout:" + tag, "pipeline did not terminate", {})]
    if "error" in info:
        key = "raises:" + tag
        if "more than 2 qubits" in info["error"] and any(g[0] == "M" and len(g[1]) > 2 for g in spec["gates"]) \
                and "Star" in tag:
            key = "meas3_raises:StarConnectivityPlacer" if info["error"].startswith("PlacementError") else "meas3_raises:Star"
        if "magic basis" in info["error"]:
            key = "unroller_raises:magic_basis"     # numerical KAK path of the unroller (C10)
        return [(key, "pipeline raised " + info["error"], {"error": info["error"]})]
    out, layout, P, nat = info["out"], info["layout"], info["passes"], info["nat"]
    circuit = info["circuit"]
    dev = P.connectivity
    nodes, edges = list(dev.nodes), [tuple(e) for e in dev.edges]
    n = len(nodes)
    exact = nat is None
    if info["input_mutated"]:
        bad.append(("mutates_input:" + tag, f"the pipeline changed the input circuit (fields {info.get('input_diff')})", {}))
    if info.get("graph_mutated"):
        bad.append(("mutates_graph:" + tag, "the pipeline changed the connectivity graph of the Passes object", {}))
    if info.get("later_change"):
        bad.append(("output_changed_by_later_call:" + tag, "the circuit / final layout RETURNED by this call changed during later calls of the same passes", {}))
    for key, what in check_passes(spec, info["log"], nodes, edges, nat, exact, out):
        bad.append((key, what, {}))
    # acceptance check
    has_router = bool(pl.get("router"))
    if has_router and nat is not None:
        sat = P.is_satisfied(out)
        if not sat:
            m2 = any(isinstance(g, gates.M) and len(g.qubits) == 2 and
                     not dev.has_edge(out.wire_names[g.qubits[0]], out.wire_names[g.qubits[1]]) for g in out.queue)
            # meas2 = the ONLY reason for the rejection is a two-qubit measurement off the edges
            others_ok = True
            try:
                from qibo.transpiler.asserts import assert_decomposition, assert_placement
                assert_placement(out, dev)
                assert_decomposition(out, nat)
                others_ok = all(isinstance(g, gates.M) or len(g.qubits) < 2 or
                                (len(g.qubits) == 2 and dev.has_edge(out.wire_names[g.qubits[0]], out.wire_names[g.qubits[1]]))
                                for g in out.queue)
            except Exception:
                others_ok = False
            key = "is_satisfied:meas2" if (m2 and others_ok) else "is_satisfied:" + tag
            if any(k.startswith("nonadjacent_swap:ShortestPaths") for k, _, _ in bad):
                key = "is_satisfied:nonadjacent_swap:ShortestPaths"
            bad.append((key, "Passes.is_satisfied(output) is False for the pipeline's own output", {}))
    info["is_satisfied"] = P.is_satisfied(out)
    # final layout
    wn = list(out.wire_names)
    if has_router:
        if not (isinstance(layout, dict) and set(layout) == set(wn) and sorted(layout.values()) == list(range(n))):
            bad.append(("layout:" + tag, f"final layout {layout} is not a bijection on the output wire names {wn}", {}))
            return bad
        l2p = [layout[w] for w in wn]
    else:
        # no router ran: no SWAP can have been inserted, so no logical qubit moved.  The code documents/returns
        # None; the identity placement {wire_names[i]: i} says the same and is accepted
        l2p = list(range(out.nqubits))
        info["layout_norm"] = None
        if layout is not None:
            ident = {w: i for i, w in enumerate(wn)}
            if not (isinstance(layout, dict) and dict(layout) == ident):
                info["layout_norm"] = "wrong"
                ltag = ("" if pl.get("pre", True) else "nopre+") + (pl.get("placer") or ["none"])[0]
                bad.append(("layout_no_router:" + ltag,
                            f"no router in the pipeline (no SWAP inserted) but the returned final layout {layout} is neither None nor the "
                            f"identity placement on the output wire names {wn}", {"layout": str(layout)}))
                if isinstance(layout, dict) and set(layout) == set(wn) and sorted(layout.values()) == list(range(len(wn))):
                    l2p_claimed = [layout[w] for w in wn]
                    try:
                        U_ = R.exact_operator(circuit.queue, out.nqubits)
                        V_ = R.exact_operator(out.queue, out.nqubits)
                        if not phase_equal(V_, R.permuted(U_, l2p_claimed, out.nqubits), nat is None and R.is_integral(U_) and R.is_integral(V_)):
                            bad.append(("operator_through_layout:" + ltag, "output read through the RETURNED final layout is not the padded input", {"l2p": l2p_claimed}))
                    except OverflowError:
                        pass
        if spec.get("on_edges") and nat is not None and pl.get("pre", True) and not pl.get("placer"):
            if not P.is_satisfied(out):
                bad.append(("is_satisfied_no_router:" + tag, "every two-qubit gate of the input lies on a device edge (through the wire names), the pipeline pads and "
                            "unrolls, but Passes.is_satisfied rejects the output", {}))
    info["l2p"] = l2p
    # padding keeps own wires (end to end, only meaningful without placer)
    if not pl.get("placer") and list(wn[:spec["k"]]) != list(spec["wire_names"]):
        bad.append(("padding:" + tag, f"own wires moved: {spec['wire_names']} -> {wn}", {}))
    if sorted(map(str, wn)) != sorted(map(str, nodes)) and pl.get("pre", True):
        bad.append(("wires:" + tag, f"output wire names {wn} are not the device nodes {nodes}", {}))
    # operator
    nn = out.nqubits
    try:
        U = R.exact_operator(circuit.queue, nn)
        V = R.exact_operator(out.queue, nn)
        ex = exact and R.is_integral(U) and R.is_integral(V)
        info["exact"] = ex
        if not phase_equal(V, R.permuted(U, l2p, nn), ex):
            key = f"{classify(spec) or 'operator'}:{tag}"
            bad.append((key, "output is not P_layout . (padded input)" + (" (exact)" if ex else " up to a global phase (tolerance 1e-7)"), {"l2p": l2p}))
        # measured registers: names, logical qubits, outcome distributions
        want = [(m.register_name, tuple(l2p[q] for q in m.qubits)) for m in circuit.measurements]
        got = [(m.register_name, tuple(m.qubits)) for m in out.measurements]
        if want != got:
            bad.append((f"{classify(spec) or 'measurements'}:{tag}", f"measured registers differ: expected {want}, got {got}", {}))
        else:
            Us = R.exact_operator([g for g in circuit.queue if not isinstance(g, gates.M)], nn)
            Vs = R.exact_operator([g for g in out.queue if not isinstance(g, gates.M)], nn)
            for m_in, m_out in zip(circuit.measurements, out.measurements):
                d1 = register_distribution(Us, nn, tuple(m_in.qubits), exact=ex)
                d2 = register_distribution(Vs, nn, tuple(m_out.qubits), exact=ex)
                same = np.array_equal(d1, d2) if ex else np.allclose(d1, d2, atol=TOL)
                if not same:
                    bad.append((f"{classify(spec) or 'outcomes'}:{tag}", f"register {m_in.register_name}: outcome distribution differs", {}))
                    break
    except OverflowError:
        pass
    return bad


# ------------------------------------------------------------------ case generation
def devices(rng, tier):
    out = [("line3", nx.path_graph(3)), ("line4", nx.path_graph(4)), ("line5", nx.path_graph(5)),
           ("star5", nx.star_graph(4)), ("ring4", nx.cycle_graph(4)), ("ring5", nx.cycle_graph(5)),
           ("grid2x2", nx.convert_node_labels_to_integers(nx.grid_2d_graph(2, 2))),
           ("tee5", nx.Graph([(0, 1), (1, 2), (2, 3), (2, 4)]))]
    if tier == "thorough":
        out += [("grid2x3", nx.convert_node_labels_to_integers(nx.grid_2d_graph(2, 3))), ("line6", nx.path_graph(6))]
    return out


def gen_float_gates(rng, k, ngates, two_pool):
    gs = []
    for _ in range(ngates):
        if k >= 2 and rng.random() < 0.5:
            name, npar = rng.choice(two_pool)
            a, b = rng.sample(range(k), 2)
            gs.append([name, [a, b], {"p": [round(rng.uniform(-3, 3), 3) for _ in range(npar)]} if npar else {}])
        else:
            name, npar = rng.choice(G1)
            gs.append([name, [rng.randrange(k)], {"p": [round(rng.uniform(-3, 3), 3) for _ in range(npar)]} if npar else {}])
    return gs


def gen_trailing_nonadjacent_safe(rng, k):
    """trailing registers of 1 or 3+ qubits (two-qubit registers are a separate, known-defect stream)"""
    qs = rng.sample(range(k), rng.randint(0, k))
    out, i, r = [], 0, 0
    while i < len(qs):
        w = rng.choice([1, 1, 3]) if len(qs) - i >= 3 else 1
        kw = {"register_name": f"r{r}"} if rng.random() < 0.6 else {}
        out.append(["M", qs[i:i + w], kw])
        i += w
        r += 1
    return out


def pipelines_for(devname, n, rng):
    routers = [["Sabre", {"seed": rng.randrange(100)}], ["ShortestPaths", {"seed": rng.randrange(100)}]]
    placers = [None, ["Random", {"seed": rng.randrange(100), "samples": 20}], ["Subgraph", {}],
               ["ReverseTraversal", {"router": ["Sabre", {"seed": rng.randrange(100)}], "depth": rng.choice([None, 3, 7])}],
               ["ReverseTraversal", {"router": ["ShortestPaths", {"seed": 5}], "depth": 4}]]
    if devname == "star5":
        routers.append(["StarConnectivityRouter", {}])
        placers.append(["StarConnectivityPlacer", {}])
    return placers, routers


def make_cases(tier, rng):
    cases = []
    hows = ["id", "perm", "str", "mixed", "sparse"]
    nat_names = [None] + list(native_sets().keys())
    reps = 1 if tier == "quick" else 4
    for _ in range(reps):
        for devname, g0 in devices(rng, tier):
            n = g0.number_of_nodes()
            placers, routers = pipelines_for(devname, n, rng)
            for placer, router, natn in itertools.product(placers, routers, nat_names):
                if tier == "quick" and rng.random() < 0.1:
                    continue
                g = R.label_variants(g0, rng, rng.choice(hows))
                nodes = list(g.nodes())
                on = None
                if rng.random() < 0.2 and n >= 4 and devname != "star5":
                    # restrict the device to a connected subset
                    sub = max(nx.connected_components(g.subgraph(rng.sample(nodes, n - 1))), key=len)
                    if len(sub) >= 3:
                        on = [v for v in nodes if v in sub]
                        rng.shuffle(on)
                avail = on if on is not None else nodes
                if devname == "star5":
                    k = rng.choice([3, 4, 5])
                else:
                    k = rng.randint(2, len(avail))
                wn = rng.sample(avail, k)
                ng = rng.randint(2, 9)
                if natn is None:
                    gs = R.gen_gates(rng, k, ng, pmid=rng.choice([0, 0.1]))
                    gs = R.fix_mid_measurements(gs, rng)
                else:
                    gs = gen_float_gates(rng, k, ng, G2_CNOT if natn == "U3_CNOT" else G2)
                need2 = 2 if (placer and placer[0] == "Subgraph") else (1 if placer and placer[0] == "ReverseTraversal" else 0)
                if need2:
                    # documented preconditions: Subgraph needs two two-qubit gates, ReverseTraversal(depth) one
                    while sum(1 for x in gs if len(x[1]) == 2 and x[0] != "M") < need2:
                        a, b = rng.sample(range(k), 2)
                        gs.insert(rng.randrange(len(gs) + 1), ["CZ", [a, b], {}])
                if rng.random() < 0.7:
                    gs += R.gen_trailing(rng, k)
                spec = dict(nodes=nodes, edges=[list(e) for e in g.edges()], on_qubits=on, k=k, wire_names=wn, gates=gs,
                            pipeline={"pre": True, "placer": placer, "router": router, "natives": natn})
                cases.append((devname, spec))
    return cases


def make_shape_cases(tier, rng):
    """EVERY pipeline shape, in particular those in which no router runs: [], [Pre], [Pre, Unroller], [Pre, placer],
    [Pre, placer, Unroller], [Unroller], [placer], [router], [router, Unroller], [placer, router]; circuits on permuted /
    out-of-order-subset / string / integer wire names.  For router-less shapes half of the circuits have all two-qubit
    gates on device edges (through the wire names), so that the padded (+unrolled) circuit is executable"""
    cases = []
    reps = 1 if tier == "quick" else 4
    shapes = [dict(pre=True, placer=False, router=False, nat=False), dict(pre=True, placer=False, router=False, nat=True),
              dict(pre=True, placer=True, router=False, nat=False), dict(pre=True, placer=True, router=False, nat=True),
              dict(pre=False, placer=False, router=False, nat=True), dict(pre=False, placer=False, router=False, nat=False),
              dict(pre=False, placer=True, router=False, nat=False), dict(pre=False, placer=False, router=True, nat=False),
              dict(pre=False, placer=False, router=True, nat=True), dict(pre=False, placer=True, router=True, nat=False)]
    nat_names = list(native_sets().keys())
    for _ in range(reps):
        for devname, g0 in devices(rng, tier):
            n = g0.number_of_nodes()
            placers, routers = pipelines_for(devname, n, rng)
            placers = [p_ for p_ in placers if p_]
            for si, sh in enumerate(shapes):
                for variant in range(2):
                    how = ["perm", "str", "id", "mixed", "sparse"][(si + variant) % 5]
                    g = R.label_variants(g0, rng, how)
                    nodes = list(g.nodes())
                    full = (not sh["pre"]) and (sh["placer"] or sh["router"])
                    k = n if (full or variant == 0) else rng.randint(2, n - 1)
                    wn = rng.sample(nodes, k)
                    if wn == nodes[:k]:
                        wn = wn[::-1]                       # certainly out of device order
                    placer = rng.choice(placers) if sh["placer"] else None
                    router = rng.choice(routers) if sh["router"] else None
                    natn = rng.choice(nat_names) if sh["nat"] else None
                    on_edges = (not sh["router"]) and rng.random() < 0.6
                    pos = {w: i for i, w in enumerate(wn)}
                    epairs = [(pos[a], pos[b]) for a, b in g.edges() if a in pos and b in pos]
                    ng = rng.randint(2, 8)
                    gs = R.gen_gates(rng, k, ng, pmid=0) if natn is None else gen_float_gates(rng, k, ng, G2_CNOT if natn == "U3_CNOT" else G2)
                    if on_edges:
                        if not epairs:
                            gs = [x for x in gs if len(x[1]) < 2]
                        for x in gs:
                            if len(x[1]) == 2:
                                a, b = rng.choice(epairs)
                                x[1] = [a, b] if rng.random() < 0.5 else [b, a]
                    need2 = 2 if (placer and placer[0] == "Subgraph") else (1 if placer and placer[0] == "ReverseTraversal" else 0)
                    while sum(1 for x in gs if len(x[1]) == 2 and x[0] != "M") < need2:
                        a, b = rng.choice(epairs) if (on_edges and epairs) else rng.sample(range(k), 2)
                        gs.insert(rng.randrange(len(gs) + 1), ["CZ", [a, b], {}])
                    if not gs:
                        gs = [["X", [0], {}]]
                    if rng.random() < 0.6:
                        gs += R.gen_trailing(rng, k)
                    spec = dict(nodes=nodes, edges=[list(e) for e in g.edges()], on_qubits=None, k=k, wire_names=wn, gates=gs,
                                on_edges=bool(on_edges and not sh["placer"]),
                                pipeline={"pre": sh["pre"], "placer": placer, "router": router, "natives": natn})
                    cases.append((devname, spec))
    return cases


def make_attr_cases(tier, rng):
    """family A: the circuit's wire names were set and reset (constructor / setter / None) and the circuit was copied /
    deep-copied / added before it is transpiled; half of the cases end with `circuit.wire_names = None` on an
    integer-labelled device"""
    cases = []
    nc = 40 if tier == "quick" else 200
    devs = devices(rng, tier)
    nat_names = [None, None, "default", "U3_CZ"]
    for i in range(nc):
        devname, g0 = devs[i % len(devs)]
        n = g0.number_of_nodes()
        placers, routers = pipelines_for(devname, n, rng)
        placer = rng.choice([None, None] + placers)
        router = rng.choice(routers + [None])
        natn = rng.choice(nat_names)
        if i % 2 == 0:
            g = g0 if i % 4 == 0 else R._relabel(g0, rng.sample(range(n), n))
            nodes = list(g.nodes())
            k = rng.choice([3, 4, 5]) if devname == "star5" else rng.randint(2, n)
            wn = list(range(k))                       # live names = default names at transpile time
        else:
            g = R.label_variants(g0, rng, rng.choice(["perm", "str", "mixed"]))
            nodes = list(g.nodes())
            k = rng.choice([3, 4, 5]) if devname == "star5" else rng.randint(2, n)
            wn = rng.sample(nodes, k)
        ng = rng.randint(2, 8)
        gs = R.fix_mid_measurements(R.gen_gates(rng, k, ng, pmid=0), rng) if natn is None else gen_float_gates(rng, k, ng, G2)
        need2 = 2 if (placer and placer[0] == "Subgraph") else (1 if placer and placer[0] == "ReverseTraversal" else 0)
        while sum(1 for x in gs if len(x[1]) == 2 and x[0] != "M") < need2:
            a, b = rng.sample(range(k), 2)
            gs.insert(rng.randrange(len(gs) + 1), ["CZ", [a, b], {}])
        nb = len(gs)
        if rng.random() < 0.6:
            gs += R.gen_trailing(rng, k)
        attr = R.attr_history(rng, k, wn, len(gs), must_reset=(i % 2 == 0))
        attr["dm"] = False
        attr["split"] = min(attr["split"], nb)
        spec = dict(nodes=nodes, edges=[list(e) for e in g.edges()], on_qubits=None, k=k, wire_names=wn, gates=gs, attr=attr,
                    pipeline={"pre": True, "placer": placer, "router": router, "natives": natn})
        cases.append((devname, spec))
    return cases


def make_histories(tier, rng):
    """ONE Passes object called on a sequence of 2-4 circuits with different wire-name subsets /
    permutations (state kept by the passes between calls must not leak into the next call).
    Device nodes are named 0..n-1 in device order for half of the histories (a graph relabelled to
    circuit positions then has the SAME node set as the device), permuted ints / strings otherwise."""
    out = []
    nh = 48 if tier == "quick" else 240
    devs = [d for d in devices(rng, tier)]
    nat_names = [None, None, "default", "U3_CZ", "GPI2_iSWAP"]
    for h in range(nh):
        devname, g0 = devs[h % len(devs)]
        n = g0.number_of_nodes()
        how = "id" if h % 2 == 0 else rng.choice(["perm", "str", "mixed"])
        g = R.label_variants(g0, rng, how)
        nodes = list(g.nodes())
        on = None
        if h % 4 == 3 and n >= 4 and devname != "star5":
            # the pipeline works on a connected restriction of the device (on_qubits)
            sub = max(nx.connected_components(g.subgraph(rng.sample(nodes, n - 1))), key=len)
            if len(sub) >= 3:
                on = [v for v in nodes if v in sub]
                rng.shuffle(on)
        avail_nodes = on if on is not None else nodes
        placers, routers = pipelines_for(devname, n, rng)
        placer = rng.choice([None, None] + placers)
        router = rng.choice(routers)
        natn = rng.choice(nat_names)
        circuits = []
        for c in range(rng.randint(2, 4)):
            k = rng.choice([3, 4, 5]) if devname == "star5" else rng.randint(2, len(avail_nodes))
            wn = rng.sample(avail_nodes, k)
            if c == 0 and k >= 2:       # first call: wire names certainly out of device order
                wn = sorted(wn, key=nodes.index, reverse=True)
            ng = rng.randint(2, 8)
            if natn is None:
                gs = R.fix_mid_measurements(R.gen_gates(rng, k, ng, pmid=0), rng)
            else:
                gs = gen_float_gates(rng, k, ng, G2)
            need2 = 2 if (placer and placer[0] == "Subgraph") else (1 if placer and placer[0] == "ReverseTraversal" else 0)
            while sum(1 for x in gs if len(x[1]) == 2 and x[0] != "M") < max(need2, 1):
                a, b = rng.sample(range(k), 2)
                gs.insert(rng.randrange(len(gs) + 1), ["CZ", [a, b], {}])
            if rng.random() < 0.5:
                gs += R.gen_trailing(rng, k)
            circuits.append(dict(k=k, wire_names=wn, gates=gs))
        out.append((devname, dict(nodes=nodes, edges=[list(e) for e in g.edges()], on_qubits=on,
                                  pipeline={"pre": True, "placer": placer, "router": router, "natives": natn},
                                  circuits=circuits)))
    return out


def history_call_spec(hspec, i):
    c = hspec["circuits"][i]
    dv = hspec["devices"][c["dev"]] if hspec.get("devices") else hspec
    return dict(nodes=dv["nodes"], edges=dv["edges"], on_qubits=dv.get("on_qubits"),
                pipeline=hspec["pipeline"], k=c["k"], wire_names=c["wire_names"], gates=c["gates"])


def run_history(hspec, timeout=30.0):
    """[(call spec, info)] for the calls of ONE Passes object on the circuits of the history; with
    hspec["devices"]: one Passes object per device variant, all SHARING the same pass instances
    (router, placer, ...), called in the order of the circuits"""
    pre = build_passes(history_call_spec(hspec, 0))
    by_dev = {}
    res = []
    for i in range(len(hspec["circuits"])):
        sp = history_call_spec(hspec, i)
        if hspec.get("devices"):
            dvi = hspec["circuits"][i]["dev"]
            if dvi not in by_dev:
                by_dev[dvi] = pre if not by_dev else build_passes(sp, shared=(pre[0].passes, pre[1]))
            use = by_dev[dvi]
        else:
            use = pre
        res.append((sp, run_pipeline(sp, timeout=timeout, prebuilt=use)))
    for sp, info in res:
        if "out_snap" in info and _out_snapshot(info) != info["out_snap"]:
            info["later_change"] = True
    return res


def make_device_histories(tier, rng):
    """pass instances (in particular ONE router object) shared by several Passes objects whose
    connectivity differs: another star centre / another graph on the same node names, or another
    on_qubits restriction of one device; calls alternate between the Passes objects"""
    out = []
    nh = 36 if tier == "quick" else 160
    nat_names = [None, None, "default", "U3_CZ"]
    for h in range(nh):
        mode = ("star", "graph", "on_qubits")[h % 3]
        natn = rng.choice(nat_names)
        if mode == "star":
            n = 5
            names = rng.choice([list(range(5)), [f"q{i}" for i in rng.sample(range(9), 5)]])
            ctrs = rng.sample(range(5), 3)
            devs = [dict(nodes=list(names), edges=[[names[c_], names[j]] for j in range(5) if j != c_], on_qubits=None) for c_ in ctrs]
            router = rng.choice([["StarConnectivityRouter", {}], ["StarConnectivityRouter", {}], ["Sabre", {"seed": rng.randrange(100)}]])
            placer = rng.choice([None, ["StarConnectivityPlacer", {}]])
        elif mode == "graph":
            n = rng.randint(4, 5)
            names = rng.choice([list(range(n)), [f"q{i}" for i in rng.sample(range(9), n)]])
            devs = []
            for _ in range(3):
                base = rng.choice([nx.path_graph(n), nx.cycle_graph(n), nx.star_graph(n - 1)])
                perm = rng.sample(range(n), n)
                devs.append(dict(nodes=list(names), edges=[[names[perm[a]], names[perm[b]]] for a, b in base.edges()], on_qubits=None))
            router = rng.choice([["Sabre", {"seed": rng.randrange(100)}], ["ShortestPaths", {"seed": rng.randrange(100)}]])
            placer = rng.choice([None, ["Random", {"seed": rng.randrange(100), "samples": 10}]])
        else:
            n = 5
            g0 = rng.choice([nx.path_graph(5), nx.cycle_graph(5), nx.Graph([(0, 1), (1, 2), (2, 3), (2, 4)])])
            g = R.label_variants(g0, rng, rng.choice(["id", "str", "perm"]))
            nodes = list(g.nodes())
            devs = []
            for _ in range(3):
                on = None
                for _t in range(10):
                    sel = rng.sample(nodes, rng.randint(3, 5))
                    if nx.is_connected(g.subgraph(sel)):
                        on = sel
                        break
                devs.append(dict(nodes=nodes, edges=[list(e) for e in g.edges()], on_qubits=on))
            router = rng.choice([["Sabre", {"seed": rng.randrange(100)}], ["ShortestPaths", {"seed": rng.randrange(100)}]])
            placer = None
        circuits = []
        for c in range(rng.randint(3, 5)):
            dvi = c % len(devs) if c < len(devs) else rng.randrange(len(devs))
            avail = devs[dvi]["on_qubits"] or devs[dvi]["nodes"]
            k = len(avail) if mode == "star" else rng.randint(2, len(avail))
            wn = rng.sample(avail, k)
            ng = rng.randint(2, 8)
            gs = R.fix_mid_measurements(R.gen_gates(rng, k, ng, pmid=0), rng) if natn is None else gen_float_gates(rng, k, ng, G2)
            if not any(len(x[1]) == 2 and x[0] != "M" for x in gs):
                a, b = rng.sample(range(k), 2)
                gs.append(["CZ", [a, b], {}])
            if rng.random() < 0.5:
                gs += R.gen_trailing(rng, k)
            circuits.append(dict(k=k, wire_names=wn, gates=gs, dev=dvi))
        out.append((mode, dict(devices=devs, pipeline={"pre": True, "placer": placer, "router": router, "natives": natn},
                               circuits=circuits)))
    return out


def defect_cases(rng):
    out = []
    line3 = nx.path_graph(3)
    # two-qubit measurement on non-adjacent physical qubits
    spec = dict(nodes=[0, 1, 2], edges=[[0, 1], [1, 2]], on_qubits=None, k=3, wire_names=[0, 1, 2],
                gates=[["CZ", [0, 1], {}], ["M", [0, 2], {"register_name": "r"}]],
                pipeline={"pre": True, "placer": None, "router": ["Sabre", {"seed": 0}], "natives": "default"})
    out.append(("line3", spec))
    # regression: three-qubit measurement after a two-qubit gate needing a SWAP, star router
    spec = dict(nodes=[0, 1, 2, 3, 4], edges=[[0, 1], [0, 2], [0, 3], [0, 4]], on_qubits=None, k=5, wire_names=[0, 1, 2, 3, 4],
                gates=[["CZ", [1, 2], {}], ["M", [0, 1, 2], {"register_name": "r"}]],
                pipeline={"pre": True, "placer": None, "router": ["StarConnectivityRouter", {}], "natives": "default"})
    out.append(("star5", spec))
    # StarConnectivityPlacer with a three-qubit measurement (its own loop refuses every gate on > 2 qubits)
    spec = dict(nodes=[0, 1, 2, 3, 4], edges=[[0, 1], [0, 2], [0, 3], [0, 4]], on_qubits=None, k=5, wire_names=[0, 1, 2, 3, 4],
                gates=[["CZ", [0, 1], {}], ["M", [1, 2, 3], {"register_name": "r"}]],
                pipeline={"pre": True, "placer": ["StarConnectivityPlacer", {}], "router": ["Sabre", {"seed": 0}], "natives": "default"})
    out.append(("star5", spec))
    # regression: ShortestPaths on a long line (qubit moves more than one step)
    for sd in range(4):
        spec = dict(nodes=list(range(6)), edges=[[i, i + 1] for i in range(5)], on_qubits=None, k=6, wire_names=list(range(6)),
                    gates=[["CZ", [0, 5], {}], ["CNOT", [5, 1], {}], ["M", [0], {}]],
                    pipeline={"pre": True, "placer": None, "router": ["ShortestPaths", {"seed": sd}], "natives": "default"})
        out.append(("line6", spec))
    return out


# ------------------------------------------------------------------ Coq encoding of one real run
HEADER = ("From Coq Require Import List Arith Bool.\nImport ListNotations.\n"
          "From QV Require Import C09.Trace C09.ModelRouter C09.ModelBlocks C11.ModelPipeline C11.ModelCheck.\n")


class Tags:
    def __init__(self):
        self.ids = {}

    def of(self, g):
        nm = type(g).__name__
        if nm not in self.ids:
            self.ids[nm] = len(self.ids) + 1
        return self.ids[nm]


def cg(tags, g):
    return R.cgate(R.kind_of(g), tags.of(g), g.qubits)


def ccirc(tags, num, wires, queue):
    return f"(mkC {R.nl([num[_h(w)] for w in wires])} {R.cgates([cg(tags, g) for g in queue])})"


def _h(x):
    return (type(x).__name__, x)


def coq_terms(spec, info):
    """terms for pipeline_check / restrict_check; None when the pipeline did not return"""
    from qibo import gates
    from qibo.transpiler.unroller import NativeGates, translate_gate
    if "out" not in info:
        return None
    P, nat, out = info["passes"], info["nat"], info["out"]
    num = {_h(v): i for i, v in enumerate(spec["nodes"])}
    dev = P.connectivity
    dnodes = list(dev.nodes)
    tags = Tags()
    d = f"(mkD {R.nl([num[_h(v)] for v in dnodes])} [" + "; ".join(f"({num[_h(a)]}, {num[_h(b)]})" for a, b in dev.edges) + "])"
    full = f"(mkD {R.nl(range(len(spec['nodes'])))} [" + "; ".join(f"({num[_h(a)]}, {num[_h(b)]})" for a, b in spec["edges"]) + "])"
    c0 = ccirc(tags, num, spec["wire_names"], info["circuit"].queue)
    ps = []
    extra = []
    k = spec["k"]
    for e in info["log"]:
        cls, b = e["cls"], e["before"]
        if cls == "Preprocessing":
            ps.append(f"(PPre {R.nl([num[_h(w)] for w in e['snap']['wires'][len(b['wires']):]])})")
        elif cls in ("Random", "Subgraph", "ReverseTraversal", "StarConnectivityPlacer"):
            ps.append(f"(PPlace {R.nl([num[_h(w)] for w in e['after_wires']])})")
            from qibo import gates as _g
            pairs = [sorted(x.qubits) for x in b["queue"] if not isinstance(x, _g.M) and len(x.qubits) == 2]
            cpairs = "[" + "; ".join(f"({a_}, {b_})" for a_, b_ in pairs) + "]"
            real_w = R.nl([num[_h(w)] for w in e["after_wires"]])
            if cls == "Random":
                samples = "[" + "; ".join(R.nl(m_) for m_ in e["oracle"]["random"]) + "]"
                extra.append(("random", f"random_placer_check {d} {cpairs} {samples} {real_w}"))
            elif cls == "Subgraph":
                ident = R.nl(range(len(dnodes)))
                ans = "[" + "; ".join(
                    f"(true, {R.nl([mp_[v] for v in dnodes])})" if ok_ else f"(false, {ident})"
                    for ok_, mp_ in e["oracle"]["subgraph"]) + "]"
                extra.append(("subgraph", f"subgraph_placer_check {d} {cpairs} {ans} {real_w}"))
            elif cls == "ReverseTraversal":
                extra.append(("reverse", f"reverse_traversal_check {ccirc(tags, num, b['wires'], b['queue'])} {real_w}"))
            if cls == "StarConnectivityPlacer":
                mids = [v for v in dnodes if dev.degree(v) == len(dnodes) - 1]
                if len(mids) == 1 and mids[0] in b["wires"]:
                    extra.append(("star", f"star_placer_check {b['wires'].index(mids[0])} {ccirc(tags, num, b['wires'], b['queue'])} "
                                          f"{R.nl([num[_h(w)] for w in e['after_wires']])}"))
        elif cls in ("Sabre", "ShortestPaths", "StarConnectivityRouter"):
            routed, layout = e["result"]
            try:
                l2p = [int(layout[w]) for w in b["wires"]]
            except Exception:
                return None
            ps.append(f"(PRoute {ccirc(tags, num, e['snap']['wires'], e['snap']['queue'])} {R.nl(l2p)})")
        elif cls == "Unroller":
            pieces = []
            flat = []
            for g in b["queue"]:
                tr = translate_gate(g, nat)
                tr = tr if isinstance(tr, list) else [tr]
                flat += tr
                pieces.append(f"({cg(tags, g)}, {R.cgates([cg(tags, h) for h in tr])})")
            same = [R.gate_canon(x) for x in flat] == [R.gate_canon(x) for x in e["snap"]["queue"]] if False else \
                [(type(x).__name__, tuple(x.qubits)) for x in flat] == [(type(x).__name__, tuple(x.qubits)) for x in e["snap"]["queue"]]
            info["unroller_is_gatewise"] = same
            ps.append("(PUnroll [" + "; ".join(pieces) + "])")
    cout = ccirc(tags, num, out.wire_names, out.queue)
    # native class ids
    ids = []
    nset = nat if nat is not None else NativeGates.default()
    for nm, t in list(tags.ids.items()):
        try:
            if NativeGates.from_gate(getattr(gates, nm)) & nset:
                ids.append(t)
        except Exception:
            pass
    sat = "true" if info.get("is_satisfied") else "false"
    term = f"pipeline_check {d} {R.nl(ids)} {c0} [{'; '.join(ps)}] {cout} {sat}"
    rterm = None
    if spec.get("on_qubits") is not None:
        rterm = f"restrict_check {full} {R.nl([num[_h(v)] for v in spec['on_qubits']])}"
    return {"term": term, "restrict": rterm, "extra": extra, "dnodes": [num[_h(v)] for v in dnodes],
            "dedges": {frozenset((num[_h(a)], num[_h(b)])) for a, b in dev.edges}}


def parse_coq(v):
    t = v.replace(";", ",").replace("true", "True").replace("false", "False")
    t = t.replace("Some", "").replace("None", "None")
    return eval(t, {"__builtins__": {}}, {})


# ------------------------------------------------------------------ default transpiler of a hardware-like backend
def default_transpiler_cases(run, found, stats, rng, only=None):
    """the transpiler a hardware-like backend installs (cached in _Global): called on a SEQUENCE of
    circuits with different wire-name subsets / permutations; every output is checked.
    only = one recorded history {qubits, connectivity, natives, circuits} to replay"""
    from qibo import Circuit, gates
    from qibo.backends import _Global, NumpyBackend
    from qibo.transpiler.unroller import NativeGates
    from qibo.transpiler.asserts import assert_connectivity, assert_decomposition, assert_placement

    class FakeHardware(NumpyBackend):
        def __init__(self, q, conn, nat):
            super().__init__()
            self._q, self._c, self._n = q, conn, nat

        @property
        def qubits(self):
            return self._q

        @property
        def connectivity(self):
            return self._c

        @property
        def natives(self):
            return self._n

    def gen_circuit(qs, first):
        k = rng.randint(2, len(qs))
        wn = rng.sample(qs, k)
        if first:
            wn = sorted(wn, key=qs.index, reverse=True)     # certainly out of device order
        gs = []
        for _ in range(rng.randint(2, 7)):
            if rng.random() < 0.5:
                gs.append(["X", [rng.randrange(k)]])
            else:
                gs.append([rng.choice(["CNOT", "SWAP"]), rng.sample(range(k), 2)])
        return {"k": k, "wire_names": wn, "gates": gs, "measure": rng.sample(range(k), k) if k != 2 else [0]}

    def build(cs):
        c = Circuit(cs["k"], wire_names=list(cs["wire_names"]))
        for nm, q in cs["gates"]:
            c.add(getattr(gates, nm)(*q))
        c.add(gates.M(*cs["measure"], register_name="out"))
        return c

    if only is not None:
        histories = [only]
    else:
        histories = []
        for qs, conn in ((["a", "b", "c", "d"], [("a", "b"), ("b", "c"), ("c", "d")]),
                         ([0, 1, 2, 3, 4], [(0, 2), (1, 2), (3, 2), (4, 2)]),
                         ([0, 1, 2, 3, 4], [(0, 1), (1, 2), (2, 3), (3, 4)]),
                         ([0, 1, 2, 3], [(0, 1), (1, 2), (2, 3), (3, 0)]),
                         (["q1", "q0", "q2"], [("q0", "q1"), ("q1", "q2")])):
            for natives in (["CZ", "GPI2", "RZ", "Z", "I", "M"], ["iSWAP", "U3", "RZ", "Z", "I", "M"], ["CZ", "U3", "M"]):
                histories.append({"qubits": qs, "connectivity": [list(e) for e in conn], "natives": natives,
                                  "circuits": [gen_circuit(qs, i == 0) for i in range(3)]})
    saved = (_Global._backend, _Global._transpiler)
    try:
        for hist in histories:
            qs, natives = list(hist["qubits"]), list(hist["natives"])
            conn = [tuple(e) for e in hist["connectivity"]]
            _Global._backend = FakeHardware(qs, conn, natives)
            _Global._transpiler = None
            t = _Global.transpiler()
            kinds = [type(p).__name__ for p in t.passes]
            if kinds != ["Preprocessing", "Sabre", "Unroller"] or set(t.connectivity.nodes) != set(qs):
                found.setdefault("default_transpiler:passes", (f"unexpected default pipeline {kinds}", {"default_transpiler_history": hist}))
                continue
            n = len(qs)
            nat_flag = NativeGates[natives]
            for ci, cs in enumerate(hist["circuits"]):
                pre = "default_transpiler:" if ci == 0 else "default_transpiler_reused:"
                rp = {"default_transpiler_history": hist, "call_index": ci}
                run.case(["default_transpiler", qs, natives, cs], True)
                stats["default_transpiler_calls"] = stats.get("default_transpiler_calls", 0) + 1
                c = build(cs)
                k = cs["k"]
                try:
                    out, layout = R.with_timeout(30.0, t, c)
                except R.RouterTimeout:
                    stats["timeouts"] = stats.get("timeouts", 0) + 1     # termination is not claimed
                    continue
                except Exception as e:  # noqa
                    found.setdefault(pre + "raises", (f"default transpiler raised {type(e).__name__}: {e}", rp))
                    continue
                ok_layout = isinstance(layout, dict) and set(layout) == set(out.wire_names) and sorted(layout.values()) == list(range(n))
                if not ok_layout:
                    found.setdefault(pre + "layout", (f"final layout {layout} is not a bijection on {out.wire_names}", rp))
                    continue
                if list(out.wire_names[:k]) != list(cs["wire_names"]) or sorted(map(str, out.wire_names)) != sorted(map(str, qs)):
                    found.setdefault(pre + "padding", (f"wire names {cs['wire_names']} -> {out.wire_names}", rp))
                l2p = [layout[w] for w in out.wire_names]
                U = R.exact_operator(c.queue, n)
                V = R.exact_operator(out.queue, n)
                if not phase_equal(V, R.permuted(U, l2p, n), False):
                    found.setdefault(pre + "operator", ("default transpiler output is not P.(padded input) up to phase", rp))
                try:
                    assert_placement(out, t.connectivity)
                    assert_connectivity(t.connectivity, out)
                    assert_decomposition(out, nat_flag)
                except Exception as e:
                    found.setdefault(pre + "backend_natives", (f"output violates the backend's own natives/connectivity: {e}", rp))
                if not t.is_satisfied(out):
                    found.setdefault(pre + "is_satisfied", ("Passes.is_satisfied rejects the default transpiler's own output", rp))
                # executing through Circuit.execute: same (certain) outcome as the untranspiled circuit
                try:
                    r1 = R.with_timeout(30.0, lambda: c(nshots=20).frequencies(registers=True))
                except R.RouterTimeout:
                    stats["timeouts"] = stats.get("timeouts", 0) + 1
                    continue
                ref = Circuit(k)
                for g in c.queue:
                    ref.add(g.on_qubits({q: q for q in range(k)}) if not isinstance(g, gates.M) else gates.M(*g.qubits, register_name="out"))
                r0 = NumpyBackend().execute_circuit(ref, nshots=20).frequencies(registers=True)
                if dict(r1["out"]) != dict(r0["out"]):
                    found.setdefault(pre + "outcomes", (f"measured register differs: {dict(r1['out'])} vs {dict(r0['out'])}", rp))
    finally:
        _Global._backend, _Global._transpiler = saved


# ------------------------------------------------------------------ execution through the GLOBAL transpiler
HW_MODULE = "verif_hwlike_provider"
G1P = [("RX", 1), ("RY", 1), ("RZ", 1), ("U1", 1), ("GPI2", 1), ("U3", 3)]
G2P = [("CRX", 1), ("CRZ", 1), ("CU1", 1), ("RZZ", 1), ("RXX", 1)]
G1F = ["H", "X", "Y", "S", "T", "SX"]
G2F = ["CNOT", "CZ", "SWAP", "iSWAP"]
SPECIAL_ANGLES = [0.0, 3.141592653589793, 1.5707963267948966, -3.141592653589793, 1e-3]


def _angle(rng):
    return rng.choice(SPECIAL_ANGLES) if rng.random() < 0.4 else round(rng.uniform(-3, 3), 3)


def _rand_gate(rng, k, param=None):
    two = k >= 2 and rng.random() < 0.5
    if param is None:
        param = rng.random() < 0.6
    if param:
        name, npar = rng.choice(G2P if two else G1P)
        return [name, rng.sample(range(k), 2) if two else [rng.randrange(k)], {"p": [_angle(rng) for _ in range(npar)]}]
    return [rng.choice(G2F if two else G1F), rng.sample(range(k), 2) if two else [rng.randrange(k)], {}]


def _registers(rng, k):
    qs = rng.sample(range(k), rng.randint(1, k))
    out, i, r = [], 0, 0
    while i < len(qs):
        w = rng.randint(1, 3)
        out.append([qs[i:i + w], f"r{r}"])
        i += w
        r += 1
    return out


def global_histories(tier, rng):
    """histories of operations on ONE circuit object that is executed through circuit() while a non-trivial GLOBAL
    transpiler is installed (the default transpiler of a hardware-like backend registered through the provider
    mechanism of qibo.set_backend, or qibo.set_transpiler(Passes(...)))"""
    out = []
    nh = 40 if tier == "quick" else 200
    devs = [("line3", nx.path_graph(3)), ("line4", nx.path_graph(4)), ("star5", nx.star_graph(4)), ("ring4", nx.cycle_graph(4)),
            ("tee5", nx.Graph([(0, 1), (1, 2), (2, 3), (2, 4)])), ("line5", nx.path_graph(5))]
    # RZ / Z / I are always assumed native by the unroller (virtual Z); CNOT-only sets have a reduced gate table: both
    # are preconditions of the existing streams as well
    hw_natives = [["CZ", "GPI2", "RZ", "Z", "I", "M"], ["iSWAP", "U3", "RZ", "Z", "I", "M"], ["CZ", "U3", "RZ", "Z", "I", "M"],
                  ["CZ", "iSWAP", "GPI2", "RZ", "Z", "I", "M"]]
    for h in range(nh):
        devname, g0 = devs[h % len(devs)]
        g = R.label_variants(g0, rng, ["id", "str", "perm", "mixed"][(h // len(devs)) % 4])
        nodes = list(g.nodes())
        n = len(nodes)
        mode = "hwlike" if h % 2 == 0 else "set_transpiler"
        placers, routers = pipelines_for(devname, n, rng)

        def rand_pipeline():
            pl = {"pre": True, "placer": rng.choice([None, None] + placers), "router": rng.choice(routers + routers + [None]),
                  "natives": rng.choice([None, "default", "U3_CZ", "GPI2_iSWAP", "U3_iSWAP"])}
            if pl["router"] is None and pl["natives"] is None and pl["placer"] is None:
                pl["natives"] = "default"
            return pl

        hist = {"mode": mode, "device": devname, "nodes": nodes, "edges": [list(e) for e in g.edges()]}
        if mode == "hwlike":
            hist["natives"] = rng.choice(hw_natives)
            cur_pl = {"pre": True, "placer": None, "router": ["Sabre", {}], "natives": "hw"}
        else:
            cur_pl = rand_pipeline()
            hist["pipeline"] = cur_pl
        k = rng.choice([3, 4, 5]) if devname == "star5" else rng.randint(2, n)
        wn = rng.sample(nodes, k)
        if h % 3 == 0 and wn == nodes[:k]:
            wn = wn[::-1]
        gs = [_rand_gate(rng, k) for _ in range(rng.randint(2, 6))]
        gs.insert(rng.randrange(len(gs) + 1), _rand_gate(rng, k, param=True))
        # Subgraph needs two two-qubit gates, ReverseTraversal one (documented preconditions): always provide them
        while sum(1 for x in gs if len(x[1]) == 2) < 2:
            a, b = rng.sample(range(k), 2)
            gs.insert(rng.randrange(len(gs) + 1), [rng.choice(G2F), [a, b], {}])
        hist.update(k=k, wire_names=wn, gates=gs)
        ops = [["exec"]]
        measured = False
        npar = sum(1 for x in gs if "p" in x[2])
        pars = [len(x[2]["p"]) for x in gs if "p" in x[2]]
        for _ in range(rng.randint(2, 5)):
            r = rng.random()
            if r < 0.35:
                ops.append(["set_parameters", [[_angle(rng) for _ in range(m)] for m in pars]])
            elif r < 0.5:
                j = rng.randrange(npar)
                ops.append(["gate_param", j, [_angle(rng) for _ in range(pars[j])]])
            elif r < 0.65 and not measured:
                gnew = _rand_gate(rng, k)
                ops.append(["add", gnew])
                if "p" in gnew[2]:
                    npar += 1
                    pars.append(len(gnew[2]["p"]))
            elif r < 0.8:
                new = rng.sample(nodes, k)
                if set(range(k)) <= set(nodes) and rng.random() < 0.3:
                    new = None
                ops.append(["wire_names", new])
            elif r < 0.9 and not measured:
                ops.append(["measure", _registers(rng, k)])
                measured = True
            elif mode == "set_transpiler":
                ops.append(["set_transpiler", rand_pipeline()])
            else:
                ops.append(["set_parameters", [[_angle(rng) for _ in range(m)] for m in pars]])
            ops.append(["exec"])
        hist["ops"] = ops
        out.append(hist)
    return out


def _install_global(hist):
    """install the global backend / transpiler of a history through the PUBLIC interface"""
    import sys
    import types
    import qibo
    from qibo.backends import NumpyBackend
    if hist["mode"] == "hwlike":
        qs, conn, nat = list(hist["nodes"]), [tuple(e) for e in hist["edges"]], list(hist["natives"])

        class HardwareLike(NumpyBackend):
            def __init__(self):
                super().__init__()
                self.name = "verif-hwlike"

            @property
            def qubits(self):
                return qs

            @property
            def connectivity(self):
                return conn

            @property
            def natives(self):
                return nat

        class MetaBackend:
            @staticmethod
            def load(**kwargs):
                return HardwareLike()

        mod = types.ModuleType(HW_MODULE)
        mod.MetaBackend = MetaBackend
        sys.modules[HW_MODULE] = mod
        qibo.set_backend(HW_MODULE)
    else:
        qibo.set_backend("numpy")
        qibo.set_transpiler(build_passes(dict(nodes=hist["nodes"], edges=hist["edges"], on_qubits=None, pipeline=hist["pipeline"]))[0])


def _ref_circuit(k, gates_, regs):
    from qibo import Circuit, gates
    c = Circuit(k)
    for g in gates_:
        c.add(build_gate(g))
    for qs, nm in regs or []:
        c.add(gates.M(*qs, register_name=nm))
    return c


def run_global_history(hist, timeout=30.0):
    """returns (list of (key, what, op_index), number of executions).  Every observation of circuit() is compared with a
    from-scratch reference built from the CURRENT abstract state (gate list with current parameters, registers)"""
    import sys
    import qibo
    from qibo import Circuit, gates
    from qibo.backends import _Global
    from qibo.transpiler.pipeline import Passes
    bad = []
    nexec = 0
    NSHOTS = 25
    saved = (_Global._backend, _Global._transpiler)
    orig_call = Passes.__call__
    records = []

    def rec_call(self_, c):
        r = orig_call(self_, c)
        records.append((self_, c, r))
        return r

    try:
        Passes.__call__ = rec_call
        _install_global(hist)
        k, n = hist["k"], len(hist["nodes"])
        circuit = Circuit(k, wire_names=list(hist["wire_names"]))
        state_gates = [[g[0], list(g[1]), {kk: list(v) for kk, v in g[2].items()}] for g in hist["gates"]]
        for g in state_gates:
            circuit.add(build_gate(g))
        names = list(hist["wire_names"])
        regs = None
        pl = hist.get("pipeline") or {"pre": True, "placer": None, "router": ["Sabre", {}], "natives": "hw"}
        earlier = []
        for oi, op in enumerate(hist["ops"]):
            kind = op[0]
            pidx = [i for i, g in enumerate(state_gates) if "p" in g[2]]
            if kind == "set_parameters":
                vals = op[1][:len(pidx)]
                circuit.set_parameters([v[0] if len(v) == 1 else tuple(v) for v in vals])
                for i, v in zip(pidx, vals):
                    state_gates[i][2]["p"] = list(v)
            elif kind == "gate_param":
                circuit.parametrized_gates[op[1]].parameters = op[2][0] if len(op[2]) == 1 else tuple(op[2])
                state_gates[pidx[op[1]]][2]["p"] = list(op[2])
            elif kind == "add":
                try:
                    circuit.add(build_gate(op[1]))
                except RuntimeError:      # documented refusal: the transpiler returned this very object and it was executed
                    continue
                state_gates.append([op[1][0], list(op[1][1]), {kk: list(v) for kk, v in op[1][2].items()}])
            elif kind == "wire_names":
                circuit.wire_names = None if op[1] is None else list(op[1])
                names = list(range(k)) if op[1] is None else list(op[1])
            elif kind == "measure":
                try:
                    circuit.add(gates.M(*op[1][0][0], register_name=op[1][0][1]))
                except RuntimeError:
                    continue
                regs = op[1]
                for qs, nm in regs[1:]:
                    circuit.add(gates.M(*qs, register_name=nm))
            elif kind == "set_transpiler":
                pl = op[1]
                qibo.set_transpiler(build_passes(dict(nodes=hist["nodes"], edges=hist["edges"], on_qubits=None, pipeline=pl))[0])
            elif kind == "exec":
                nexec += 1
                pre = "global_exec:" if nexec == 1 else "global_reexec:"
                del records[:]
                try:
                    result = R.with_timeout(timeout, lambda: circuit(nshots=NSHOTS))
                except R.RouterTimeout:
                    continue
                except Exception as e:  # noqa
                    key = "unroller_raises:magic_basis" if "magic basis" in str(e) else pre + "raises"
                    bad.append((key, f"circuit() raised {type(e).__name__}: {e}", oi))
                    break
                psi = np.asarray(result.state())
                nn = int(round(np.log2(psi.size)))
                psi = psi.reshape((2,) * nn)
                ref = _ref_circuit(k, state_gates, regs)
                U = R.exact_operator([g for g in ref.queue if not isinstance(g, gates.M)], nn)
                # the input circuit still is what the abstract state says (inputs are not mutated, updates went through)
                canon = lambda c_: [(type(g).__name__, tuple(g.qubits), tuple(np.round(np.asarray(g.parameters, dtype=float).ravel(), 12)) if g.parameters and not isinstance(g, gates.M) else ())
                                    for g in c_.queue]
                if canon(circuit) != canon(ref):
                    bad.append((pre + "mutates_input", "after circuit() the circuit's queue differs from the operations applied to it", oi))
                if pl.get("placer") and k == n:
                    names = list(circuit.wire_names)          # a placer renames a full-size input in place (documented)
                elif list(circuit.wire_names) != names:
                    bad.append((pre + "mutates_input", f"circuit() changed the circuit's wire names {names} -> {circuit.wire_names}", oi))
                top = [r_ for r_ in records if r_[1] is circuit and r_[0] is _Global._transpiler]
                if top:
                    out, layout = top[-1][2]
                    wn = list(out.wire_names)
                    if not pl.get("placer") and wn[:k] != names:
                        bad.append((pre + "padding", f"transpiled wire names {wn} do not start with the circuit's current wire names {names}", oi))
                    if layout is None:
                        l2p = list(range(out.nqubits))
                    elif isinstance(layout, dict) and set(layout) == set(wn) and sorted(layout.values()) == list(range(out.nqubits)):
                        l2p = [layout[w] for w in wn]
                    else:
                        bad.append((pre + "layout", f"final layout {layout} is not a bijection on {wn}", oi))
                        l2p = None
                    if l2p is not None and out.nqubits == nn:
                        if not phase_equal(psi[..., None], R.permuted(U, l2p, nn)[..., :1], False):
                            bad.append((pre + "state", "final state of circuit() is not P_layout.(padded reference state of the current gates / parameters) "
                                        "up to a global phase (test, tolerance 1e-7)", oi))
                    if hist["mode"] == "hwlike" and not _Global._transpiler.is_satisfied(out):
                        bad.append((pre + "is_satisfied", "the default transpiler's is_satisfied rejects the circuit that was executed", oi))
                else:
                    # the global transpiler was not observed: layout-free check "some qubit permutation maps the reference state to the result"
                    okp = nn <= 5 and any(phase_equal(psi[..., None], R.permuted(U, list(pm), nn)[..., :1], False)
                                          for pm in itertools.permutations(range(nn)))
                    if not okp:
                        bad.append((pre + "state", "final state of circuit() is not a qubit permutation of the reference state of the current gates / parameters", oi))
                if regs and not (hasattr(result, "frequencies") and hasattr(result, "measurements")):
                    bad.append((pre + "registers", f"the circuit measures registers {[nm for _, nm in regs]} but circuit() returned a {type(result).__name__} without measurement outcomes", oi))
                    earlier.append((oi, result, psi.copy(), None))
                    continue
                if regs:
                    freqs = result.frequencies(registers=True)
                    mg = {m.register_name: m for m in result.measurements}
                    for qs, nm in regs:
                        d_ref = register_distribution(U, nn, tuple(qs))
                        if nm not in mg or nm not in freqs:
                            bad.append((pre + "registers", f"register {nm} missing from the result", oi))
                            continue
                        d_out = register_distribution(psi[..., None], nn, tuple(mg[nm].qubits))
                        if d_out.shape != d_ref.shape or not np.allclose(d_out, d_ref, atol=TOL):
                            bad.append((pre + "outcomes", f"register {nm}: outcome distribution of the executed circuit differs from the untranspiled circuit's", oi))
                            continue
                        fr = dict(freqs[nm])
                        flat = d_ref.reshape(-1)
                        sup = {format(i, f"0{len(qs)}b") for i in range(flat.size) if flat[i] > 1e-9}
                        if sum(fr.values()) != NSHOTS or not set(fr) <= sup:
                            bad.append((pre + "frequencies", f"register {nm}: sampled outcomes {fr} outside the support {sorted(sup)} of the untranspiled circuit / wrong number of shots", oi))
                earlier.append((oi, result, psi.copy(), {nm: dict(v) for nm, v in result.frequencies(registers=True).items()} if regs else None))
        for oi, res, psi0, fr0 in earlier:
            same = np.array_equal(np.asarray(res.state()).reshape(psi0.shape), psi0)
            if fr0 is not None and hasattr(res, "frequencies"):
                same = same and {nm: dict(v) for nm, v in res.frequencies(registers=True).items()} == fr0
            if not same:
                bad.append(("global_exec:earlier_result_changed", "a result object returned by an earlier circuit() changed during later operations", oi))
                break
    finally:
        Passes.__call__ = orig_call
        _Global._backend, _Global._transpiler = saved
        sys.modules.pop(HW_MODULE, None)
    return bad, nexec


def global_transpiler_cases(run, found, stats, rng, only=None):
    from qibo.backends import _Global
    hists = [only] if only is not None else global_histories(run.tier, rng)
    for hist in hists:
        before = (_Global._backend, _Global._transpiler)
        try:
            bad, nexec = run_global_history(hist)
        except Exception as e:  # noqa  (an observation the harness cannot even evaluate is reported with its history)
            bad, nexec = [("global_exec:observation_error", f"observing the history failed with {type(e).__name__}: {e}", 0)], 0
        if (_Global._backend, _Global._transpiler) != before:
            found.setdefault("harness:global_state_not_restored", ("global backend / transpiler not restored", {"model_only": True}))
        run.case(["global_history", hist], True)
        stats["global_transpiler_histories"] = stats.get("global_transpiler_histories", 0) + 1
        stats["executions_through_the_global_transpiler"] = stats.get("executions_through_the_global_transpiler", 0) + nexec
        stats[f"global_mode:{hist['mode']}"] = stats.get(f"global_mode:{hist['mode']}", 0) + 1
        for key, what, oi in bad:
            stats["fail:" + key] = stats.get("fail:" + key, 0) + 1
            found.setdefault(key, (what + f" [operation {oi} ({hist['ops'][oi][0]}) of a history on ONE circuit object executed through the global transpiler, mode {hist['mode']}]",
                                   {"global_history": hist, "op_index": oi}))


def restrict_cases(run, found, stats, rng):
    """restrict_connectivity_qubits on selections that must be refused (not device nodes / not
    connected / empty) and on random selections: model and implementation accept the same inputs"""
    from qibo.transpiler.pipeline import restrict_connectivity_qubits
    exprs, expect = [], []
    for devname, g0 in devices(rng, "quick"):
        n = g0.number_of_nodes()
        nodes = list(g0.nodes())
        full = f"(mkD {R.nl(nodes)} [" + "; ".join(f"({a}, {b})" for a, b in g0.edges()) + "])"
        sels = [rng.sample(nodes, rng.randint(1, n)) for _ in range(6)] + [[nodes[0], n + 3], []]
        for sel in sels:
            try:
                r = restrict_connectivity_qubits(g0, list(sel))
                raised = False
            except Exception:
                raised = True
            run.case(["restrict", devname, sel], True)
            stats["restrict_selections"] = stats.get("restrict_selections", 0) + 1
            exprs.append(f"restrict_raises {full} {R.nl(sel)}")
            expect.append((devname, sel, raised))
    vals = run.coq_eval("C11_restrict.v", HEADER, exprs, timeout=300)
    run.oblige("model_restrict_cases", vals is not None, "correspondence")
    if vals is None:
        run.find("coq:C11_restrict", "generated file does not compile", concrete=False)
        return
    for v, (devname, sel, raised) in zip(vals, expect):
        if (v == "true") != raised:
            found.setdefault("model:restrict_raises", (f"restrict_connectivity_qubits({devname}, {sel}): implementation raises={raised}, model raises={v}",
                                                       {"device": devname, "selection": sel, "model_only": True}))


RULE = ("histories of operations (set_parameters / gate.parameters / add / wire_names / measure / set_transpiler) on ONE circuit executed "
        "repeatedly through circuit() under a non-trivial global transpiler (hardware-like backend via the provider mechanism, or "
        "qibo.set_transpiler), every observation compared with a from-scratch reference; every pipeline shape (with / without "
        "Preprocessing, placer, router, unroller) with the returned final layout checked; single calls and multi-call histories (ONE Passes object / the cached default transpiler called on 2-4 circuits in a row); cases = device (line/star/ring/grid/T, relabelled nodes) x optional on_qubits restriction x circuit on a "
        "permuted subset of wire names (k <= device size) x placer {none, Random, Subgraph, ReverseTraversal, Star} x "
        "router {Sabre, ShortestPaths, Star} x native set {none (exact integer data), 6 sets}; non-trivial = the output "
        "differs from the input circuit (padding, renaming, SWAPs or unrolling happened); distinct = distinct spec")


def main(run):
    rng = random.Random(run.seed)
    run.trusted += ["Coq 8.16.1 kernel, vm_compute",
                    "C09 theorems (router premise), C10 (unroller table premise): pipeline_ok takes them as premises",
                    "networkx (connectedness in restrict_connectivity_qubits, GraphMatcher in Subgraph, shortest paths)",
                    "numpy tensordot/transpose for the operator comparison; exact below 2^50 for pipelines without unroller",
                    "NativeGates flag table (which classes are native) is read from the implementation"]
    run.assumptions += ["pipelines with an Unroller are compared up to a global phase with tolerance 1e-7: that part is a TEST, not a proof (irrational angles)",
                        "placers, the router and the unroller enter the composition theorem by contract; the contracts are checked on every real pass execution of this run",
                        "termination of routers/placers is not claimed (timeouts)",
                        "executions through the global transpiler are compared with the reference state / register distributions with tolerance 1e-7 (TEST); "
                        "native sets of that stream contain RZ, Z, I (the unroller treats them as always native) and no CNOT-only set"]
    R.theorem_obligations(run, "C11/Props")
    R.theorem_obligations(run, "C11/PropsLayout")   # router-less pipelines of any shape: final layout None, operator kept
    found, stats = {}, {}
    shape_cases = make_shape_cases(run.tier, rng)
    stats["pipeline_shape_cases(no router / placer only / router only / unroller only / empty)"] = len(shape_cases)
    attr_cases = make_attr_cases(run.tier, rng)
    stats["attribute_history_cases(wire names set / reset / None, copy / deepcopy / add before transpiling)"] = len(attr_cases)
    cases = make_cases(run.tier, rng) + defect_cases(rng) + shape_cases + attr_cases
    pending = []
    runs = [(devname, spec, run_pipeline(spec), None) for devname, spec in cases]
    for devname, hspec in make_histories(run.tier, rng) + make_device_histories(run.tier, rng):
        for i, (sp, info) in enumerate(run_history(hspec)):
            runs.append((devname, sp, info, {"history": hspec, "call_index": i}))
            stats["history_calls"] = stats.get("history_calls", 0) + 1
            if i > 0:
                kk = "calls_with_shared_pass_instances_and_changed_connectivity" if hspec.get("devices") else "calls_on_a_reused_Passes_object"
                stats[kk] = stats.get(kk, 0) + 1
    for devname, spec, info, hist in runs:
        bad = end_to_end(spec, info)
        if hist is not None:
            # a failure after the first call of a history is a state leak between calls of one Passes object
            # (keys stay the same as for single calls, so that open known findings keep matching)
            note = (f" [call {hist['call_index']} of a history whose Passes objects SHARE their pass instances while the connectivity changes]"
                    if hist["history"].get("devices") else f" [call {hist['call_index']} of a multi-call history on ONE Passes object]")
            bad = [(k, w + note, {**e, **hist}) for k, w, e in bad]
        nontrivial = "out" in info and R.queue_canon(info["out"]) != R.queue_canon(info["circuit"])
        run.case(spec, nontrivial)
        pl = spec["pipeline"]
        for kk in ("placer", "router"):
            nm = (pl.get(kk) or ["none"])[0]
            stats[f"{kk}:{nm}"] = stats.get(f"{kk}:{nm}", 0) + 1
        stats[f"natives:{pl.get('natives')}"] = stats.get(f"natives:{pl.get('natives')}", 0) + 1
        if info.get("exact"):
            stats["exact_operator_comparisons"] = stats.get("exact_operator_comparisons", 0) + 1
        elif "out" in info:
            stats["tolerance_operator_comparisons(test)"] = stats.get("tolerance_operator_comparisons(test)", 0) + 1
        if len(run.samples) < 4 and nontrivial and len(spec["gates"]) <= 6:
            run.sample({"device": devname, "spec": spec, "final_layout": str(info.get("layout")),
                        "output_wires": [str(w) for w in info["out"].wire_names],
                        "output": [[g.name, list(g.qubits)] for g in info["out"].queue][:30]})
        for key, what, extra in bad:
            stats["fail:" + key] = stats.get("fail:" + key, 0) + 1
            if key.startswith("timeout:"):
                continue     # termination is not part of the property (safety only); counted in stats
            found.setdefault(key, (what, {"spec": spec, "device": devname, **extra}))
        t = coq_terms(spec, info)
        if t:
            pending.append((devname, spec, info, t, {kk for kk, _, _ in bad}))
    CH = 100
    for b in range(0, len(pending), CH):
        chunk = pending[b:b + CH]
        exprs = []
        for (_, spec, info, t, _k) in chunk:
            exprs.append(t["term"])
            if t["restrict"]:
                exprs.append(t["restrict"])
            exprs += [x_[1] for x_ in t["extra"]]
        vals = run.coq_eval(f"C11_cases_{b // CH}.v", HEADER, exprs, timeout=900)
        run.oblige(f"model_replay_{b // CH}", vals is not None, "correspondence")
        if vals is None:
            run.find(f"coq:C11_cases_{b // CH}", "generated correspondence file does not compile", concrete=False)
            continue
        it = iter(vals)
        for (devname, spec, info, t, badkeys) in chunk:
            ran, same, sat_agree, spec_sat, lay = parse_coq(next(it))
            stats["pipelines_replayed"] = stats.get("pipelines_replayed", 0) + 1
            pl = spec["pipeline"]
            if not ran:
                if t["restrict"]:
                    next(it)
                for _x in t["extra"]:
                    next(it)
                if "nonadjacent_swap:ShortestPaths" in badkeys:
                    # the router contract fails in the model exactly where the spec-level check saw the off-edge SWAP
                    kk = "router_contract_rejected(ShortestPaths swaps)"
                    stats[kk] = stats.get(kk, 0) + 1
                else:
                    key = f"contract:{(pl.get('placer') or ['none'])[0]}+{(pl.get('router') or ['none'])[0]}"
                    found.setdefault(key, ("a pass output violates its contract (model replay of Passes.__call__ returns None)",
                                           {"spec": spec, "device": devname}))
                continue
            if not same:
                found.setdefault("model:pipeline", ("model's final circuit differs from the implementation's", {"spec": spec, "model_only": True}))
            if not sat_agree:
                found.setdefault("model:is_satisfied", ("is_satisfied model and implementation disagree", {"spec": spec, "model_only": True}))
            if pl.get("router") and lay is not None and list(lay) != info.get("l2p"):
                found.setdefault("model:layout", (f"layout {lay} (model) vs {info.get('l2p')}", {"spec": spec, "model_only": True}))
            if not pl.get("router"):
                stats["router_less_layouts_compared_with_model"] = stats.get("router_less_layouts_compared_with_model", 0) + 1
                if lay is not None or info.get("layout_norm") is not None:
                    found.setdefault("model:layout_no_router", (f"router-less pipeline: final layout {lay} (model, proved None) vs {info.get('layout')} (implementation)",
                                                                {"spec": spec}))
            if info.get("unroller_is_gatewise") is False:
                found.setdefault("model:unroller", ("Unroller output is not the gate-wise translate_gate concatenation", {"spec": spec, "model_only": True}))
            if t["restrict"]:
                r = parse_coq(next(it))
                ok = r is not None and list(r[0]) == t["dnodes"] and {frozenset(e) for e in r[1]} == t["dedges"]
                stats["restrictions_compared"] = stats.get("restrictions_compared", 0) + 1
                if not ok:
                    found.setdefault("model:restrict", ("restrict_connectivity_qubits model and implementation disagree", {"spec": spec, "model_only": True}))
            for kind_, _x in t["extra"]:
                okx = parse_coq(next(it))
                stats[f"{kind_}_placer_model_compared"] = stats.get(f"{kind_}_placer_model_compared", 0) + 1
                same_, perms_ = okx if isinstance(okx, tuple) else (okx, True)
                if not same_:
                    found.setdefault(f"model:{kind_}_placer", (f"{kind_} placer: model and implementation disagree on the wire names", {"spec": spec, "model_only": True}))
                if not perms_:
                    found.setdefault(f"placer_oracle:{kind_}", (f"{kind_} placer: a sampled layout / matcher mapping is not a bijection onto 0..n-1", {"spec": spec}))
    default_transpiler_cases(run, found, stats, rng)
    global_transpiler_cases(run, found, stats, rng)
    restrict_cases(run, found, stats, rng)
    for key, (what, rp) in sorted(found.items()):
        run.find(key, what, rp, concrete=not rp.get("model_only", False))
    run.notes["stats"] = stats
    run.not_proved += ["the quality of the placers (Random's cost minimisation, Subgraph's isomorphism search via networkx GraphMatcher, the numpy sampler) is not a subject of the property: the sampled layouts / matcher answers are oracle data fed to the placer models (random_placer, subgraph_placer, reverse_traversal_placer, star_placer), whose outputs are proved to be valid placements for ANY bijective layout and compared with every real placer execution",
                       "the unroller's semantic premise (C10) and the router's (C09) are premises of pipeline_ok",
                       "operator equality for pipelines with an unroller is tested with tolerance 1e-7, not proved"]
    return run.finish(level="proof", rule=RULE)


def replay(run, data):
    rp = data.get("replay", {})
    if rp.get("history"):
        hspec = rp["history"]
        run.oblige("replay_executed", True, "replay")
        anybad = False
        for i, (sp, info) in enumerate(run_history(hspec, timeout=60)):
            run.case(sp)
            for key, what, extra in end_to_end(sp, info):
                print(f"replay reproduces (call {i} of the history):", key, what)
                run.find(key, what, {"history": hspec, "call_index": i, **extra})
                anybad = True
        run.sample({"history": hspec})
        if not anybad:
            print("replay: the recorded history passes now (", data.get("key"), ")")
        return run.finish(rule="replay of one recorded multi-call history")
    if rp.get("global_history"):
        found, stats = {}, {}
        run.oblige("replay_executed", True, "replay")
        global_transpiler_cases(run, found, stats, random.Random(0), only=rp["global_history"])
        for key, (what, r2) in found.items():
            print("replay reproduces:", key, what)
            run.find(key, what, r2)
        if not found:
            print("replay: the recorded global-transpiler history passes now")
        return run.finish(rule="replay of one recorded history of executions through the global transpiler")
    if rp.get("default_transpiler_history"):
        found, stats = {}, {}
        run.oblige("replay_executed", True, "replay")
        default_transpiler_cases(run, found, stats, random.Random(0), only=rp["default_transpiler_history"])
        for key, (what, r2) in found.items():
            print("replay reproduces:", key, what)
            run.find(key, what, r2)
        if not found:
            print("replay: the recorded default-transpiler history passes now")
        return run.finish(rule="replay of one recorded default-transpiler history")
    spec = rp.get("spec")
    if not spec:
        print("replay: nothing to re-run for", data.get("key"))
        return run.finish(rule="replay of one recorded case")
    info = run_pipeline(spec, timeout=60)
    bad = end_to_end(spec, info)
    run.oblige("replay_executed", True, "replay")
    run.case(spec)
    run.sample({"spec": spec})
    for key, what, extra in bad:
        print("replay reproduces:", key, what)
        run.find(key, what, {"spec": spec, **extra})
    if not bad:
        print("replay: the recorded case passes now (", data.get("key"), ")")
    return run.finish(rule="replay of one recorded case")
