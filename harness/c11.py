"""C11  The full transpilation pipeline is meaning-preserving end to end.

1. static Coq theorems (C11/Props.v): Passes.__call__ as a fold over passes; Preprocessing keeps the
   circuit's own wires at their positions and appends the remaining nodes; a placer meeting its
   contract (only wire_names change, to a permutation of the device nodes) changes no operator;
   composition theorem pipeline_ok: passes meeting their contracts (router: C09 routing_ok,
   unroller: C10 table) yield a circuit accepted by the specification of is_satisfied and equal to
   the padded input read through the final layout; asserts_sound; is_satisfied_sound /
   is_satisfied_complete (the acceptance check coincides with its specification).
2. per run, on the real code (every pass of the real Passes.__call__ is observed by wrapping the
   pass classes' __call__ at run time): Preprocessing / placer / router / unroller contracts are
   CHECKED on every real pass execution; Preprocessing and is_satisfied are compared with the Coq
   model (vm_compute); is_satisfied(output) must hold; the end-to-end operator is compared with
   P_layout . (padded input): exactly (Gaussian integers) for pipelines without unroller, up to a
   global phase with tolerance 1e-7 for pipelines with an unroller (that part is a TEST, labelled);
   measured registers are compared by name / logical qubits and by exact outcome distributions.
"""
STATIC = ["C11/Props", "C11/ModelCheck", "C09/Props"]
import itertools
import json
import random

import networkx as nx
import numpy as np

from lib import vcore
from harness import c09 as R

TOL = 1e-7

G1 = [("H", 0), ("X", 0), ("Y", 0), ("Z", 0), ("S", 0), ("T", 0), ("SX", 0), ("I", 0), ("RX", 1), ("RY", 1), ("RZ", 1),
      ("U1", 1), ("GPI2", 1), ("U3", 3)]
G2 = [("CNOT", 0), ("CZ", 0), ("SWAP", 0), ("iSWAP", 0), ("FSWAP", 0), ("CRX", 1), ("CRZ", 1), ("CU1", 1), ("RZZ", 1),
      ("RXX", 1), ("fSim", 2), ("CU3", 3)]
G2_CNOT = [("CNOT", 0), ("CZ", 0), ("SWAP", 0)]


def native_sets():
    from qibo.transpiler.unroller import NativeGates as N
    base = N.I | N.Z | N.RZ | N.M
    return {"default": N.default(), "U3_CZ": base | N.U3 | N.CZ, "GPI2_iSWAP": base | N.GPI2 | N.iSWAP,
            "U3_iSWAP": base | N.U3 | N.iSWAP, "U3_CNOT": base | N.U3 | N.CNOT,
            "GPI2_CZ_iSWAP": base | N.GPI2 | N.CZ | N.iSWAP}


# ------------------------------------------------------------------ building from specs
def build_gate(g):
    from qibo import gates
    kind, qs, kw = g
    if "p" in kw:
        return getattr(gates, kind)(*qs, *kw["p"])
    return R.build_gate(g)


def build_circuit(spec):
    from qibo import Circuit
    c = Circuit(spec["k"], wire_names=list(spec["wire_names"]))
    for g in spec["gates"]:
        c.add(build_gate(g))
    return c


def device_graph(spec):
    g = nx.Graph()
    g.add_nodes_from(spec["nodes"])
    g.add_edges_from(tuple(e) for e in spec["edges"])
    return g


def build_passes(spec, shared=None):
    """shared = (pass objects, natives) to put the SAME pass instances into another Passes object
    (another device / another on_qubits restriction)"""
    from qibo.transpiler import optimizer, placer, router, unroller
    from qibo.transpiler.pipeline import Passes
    pl = spec["pipeline"]
    if shared is not None:
        passes, nat = shared
        kwargs = dict(connectivity=device_graph(spec))
        if nat is not None:
            kwargs["native_gates"] = nat
        if spec.get("on_qubits") is not None:
            kwargs["on_qubits"] = list(spec["on_qubits"])
        return Passes(passes, **kwargs), nat
    passes = []
    if pl.get("pre", True):
        passes.append(optimizer.Preprocessing())
    if pl.get("placer"):
        name, kw = pl["placer"]
        if name == "ReverseTraversal":
            rn, rkw = kw["router"]
            passes.append(placer.ReverseTraversal(getattr(router, rn)(**rkw), depth=kw.get("depth")))
        else:
            passes.append(getattr(placer, name)(**kw))
    if pl.get("router"):
        name, kw = pl["router"]
        passes.append(getattr(router, name)(**kw))
    nat = native_sets()[pl["natives"]] if pl.get("natives") else None
    if nat is not None:
        passes.append(unroller.Unroller(nat))
    kwargs = dict(connectivity=device_graph(spec))
    if nat is not None:
        kwargs["native_gates"] = nat
    if spec.get("on_qubits") is not None:
        kwargs["on_qubits"] = list(spec["on_qubits"])
    return Passes(passes, **kwargs), nat


# ------------------------------------------------------------------ observing the passes
class PassLog:
    """wraps __call__ of every pass class at run time; logs top-level pass executions"""

    def __init__(self):
        from qibo.transpiler import optimizer, placer, router, unroller
        self.classes = [optimizer.Preprocessing, placer.Random, placer.Subgraph, placer.ReverseTraversal,
                        placer.StarConnectivityPlacer, router.Sabre, router.ShortestPaths,
                        router.StarConnectivityRouter, unroller.Unroller]
        self.saved = {}
        self.log = []
        self.depth = 0

    def _install_oracles(self):
        """record the random layouts drawn by placer.Random and the answers of the GraphMatcher used
        by placer.Subgraph (both are oracles of the placer models)"""
        import networkx as nx_
        from qibo.transpiler import placer as PL
        self.oracle = {"random": [], "subgraph": []}
        self._saved_state_fn = PL._check_backend_and_local_state
        orc = self.oracle

        class Recording:
            def __init__(self, inner):
                self._inner = inner

            def choice(self, *a, **k):
                r = self._inner.choice(*a, **k)
                orc["random"].append([int(x) for x in r])
                return r

            def __getattr__(self, nm):
                return getattr(self._inner, nm)

        def state_fn(seed, backend=None):
            b, st = self._saved_state_fn(seed, backend=backend)
            return b, Recording(st)

        PL._check_backend_and_local_state = state_fn
        GM = nx_.algorithms.isomorphism.GraphMatcher
        self._saved_mono = GM.subgraph_is_monomorphic
        s_mono = self._saved_mono

        def mono(self_):
            r = s_mono(self_)
            orc["subgraph"].append((bool(r), dict(self_.mapping) if r else None))
            return r

        GM.subgraph_is_monomorphic = mono

    def _remove_oracles(self):
        import networkx as nx_
        from qibo.transpiler import placer as PL
        PL._check_backend_and_local_state = self._saved_state_fn
        nx_.algorithms.isomorphism.GraphMatcher.subgraph_is_monomorphic = self._saved_mono

    def __enter__(self):
        self._install_oracles()
        for cls in self.classes:
            orig = cls.__call__
            self.saved[cls] = orig

            def wrapped(self_, circuit, *a, _orig=orig, _cls=cls, **k):
                top = self.depth == 0
                self.depth += 1
                try:
                    if top:
                        self.oracle["random"].clear()
                        self.oracle["subgraph"].clear()
                        before = dict(wires=list(circuit.wire_names), n=circuit.nqubits, ids=[id(g) for g in circuit.queue],
                                      queue=list(circuit.queue), obj=circuit,
                                      conn=None if getattr(self_, "connectivity", None) is None else
                                      (list(self_.connectivity.nodes), [tuple(e) for e in self_.connectivity.edges]))
                    res = _orig(self_, circuit, *a, **k)
                    if top:
                        rc = res[0] if isinstance(res, tuple) else res
                        snap = None if rc is None else dict(wires=list(rc.wire_names), ids=[id(g) for g in rc.queue],
                                                            n=rc.nqubits, queue=list(rc.queue))
                        self.log.append(dict(cls=_cls.__name__, before=before, result=res, snap=snap,
                                             oracle={k: list(v) for k, v in self.oracle.items()},
                                             after_wires=list(circuit.wire_names),
                                             after_ids=[id(g) for g in circuit.queue], after_n=circuit.nqubits))
                    return res
                finally:
                    self.depth -= 1

            cls.__call__ = wrapped
        return self

    def __exit__(self, *a):
        self._remove_oracles()
        for cls, orig in self.saved.items():
            cls.__call__ = orig


# ------------------------------------------------------------------ operators
def padded_operator(queue, n):
    return R.exact_operator(queue, n)


def phase_equal(A, B, exact):
    """A == B (exact) or A == e^{i phi} B within TOL"""
    if exact:
        return bool(np.array_equal(A, B))
    i = np.unravel_index(np.argmax(np.abs(B)), B.shape)
    if abs(B[i]) < 1e-12:
        return bool(np.abs(A).max() < TOL)
    ph = A[i] / B[i]
    if abs(abs(ph) - 1) > TOL:
        return False
    return bool(np.abs(A - ph * B).max() < TOL)


def register_distribution(T, n, qubits):
    """outcome distribution of measuring `qubits` (in that order) on the state T|0...0>"""
    psi = T[..., 0]
    p = np.abs(psi) ** 2
    rest = tuple(a for a in range(n) if a not in qubits)
    m = p.sum(axis=rest) if rest else p
    # bring to the register's own qubit order
    perm = [sorted(qubits).index(q) for q in qubits]
    return np.transpose(m, perm)


# ------------------------------------------------------------------ contracts of the individual passes
def check_passes(spec, log, dev_nodes, dev_edges, nat, exact, out):
    """returns [(key, what)] for every contract violated by a real pass execution"""
    from qibo import gates
    from qibo.transpiler.asserts import assert_decomposition
    bad = []
    g = nx.Graph()
    g.add_nodes_from(dev_nodes)
    g.add_edges_from(dev_edges)
    for e in log:
        cls, b = e["cls"], e["before"]
        if cls == "Preprocessing":
            sn = e["snap"]
            ok = (list(sn["wires"][:len(b["wires"])]) == b["wires"] and sorted(map(str, sn["wires"])) == sorted(map(str, dev_nodes))
                  and len(set(map(str, sn["wires"]))) == len(dev_nodes) and sn["ids"] == b["ids"]
                  and sn["n"] == len(dev_nodes))
            if not ok:
                bad.append(("preprocessing", f"padding contract violated: {b['wires']} -> {sn['wires']}"))
        elif cls in ("Random", "Subgraph", "ReverseTraversal", "StarConnectivityPlacer"):
            ok = (e["after_ids"] == b["ids"] and e["after_n"] == b["n"] and len(e["after_wires"]) == len(dev_nodes)
                  and sorted(map(str, e["after_wires"])) == sorted(map(str, dev_nodes)) and e["result"] is None)
            if not ok:
                bad.append((f"placer_contract:{cls}", f"placer contract violated: wires {b['wires']} -> {e['after_wires']}"))
        elif cls in ("Sabre", "ShortestPaths", "StarConnectivityRouter"):
            routed, layout = e["result"]
            wn = b["wires"]
            n = b["n"]
            if e["snap"]["wires"] != wn:
                bad.append((f"router_wires:{cls}", "router changed wire names"))
            if not (isinstance(layout, dict) and set(layout) == set(wn) and sorted(layout.values()) == list(range(n))):
                bad.append((f"router_layout:{cls}", f"final layout not a bijection: {layout}"))
                continue
            l2p = [layout[w] for w in wn]
            for x in routed.queue:
                if not isinstance(x, gates.M) and len(x.qubits) == 2 and not g.has_edge(wn[x.qubits[0]], wn[x.qubits[1]]):
                    key = f"nonadjacent_swap:{cls}" if isinstance(x, gates.SWAP) else f"nonadjacent_gate:{cls}"
                    bad.append((key, f"{x.name}{x.qubits} not on an edge"))
                    break
            try:
                U = R.exact_operator(b["queue"], n)
                V = R.exact_operator(routed.queue, n)
                ex = exact and R.is_integral(U) and R.is_integral(V)
                if not (np.array_equal(V, R.permuted(U, l2p, n)) if ex else np.allclose(V, R.permuted(U, l2p, n), atol=1e-9)):
                    bad.append((f"router_operator:{cls}", "router output is not P.U of its input"))
            except OverflowError:
                pass
        elif cls == "Unroller":
            c2 = e["result"]
            if e["snap"]["wires"] != b["wires"]:
                bad.append(("unroller_wires", "unroller changed wire names"))
            try:
                assert_decomposition(c2, nat)
            except Exception as ex_:
                bad.append(("unroller_natives", f"non-native gate after unrolling: {ex_}"))
            U = R.exact_operator(b["queue"], b["n"])
            V = R.exact_operator(c2.queue, b["n"])
            if not phase_equal(V, U, False):
                bad.append(("unroller_operator", "unrolled circuit differs from its input by more than a global phase (test, tolerance 1e-7)"))
    return bad


def classify(spec):
    gs = spec["gates"]
    c = R.classify({"gates": gs})
    if c:
        return c
    return None


def run_pipeline(spec, timeout=30.0, prebuilt=None):
    """execute the real Passes.__call__; returns info dict.  prebuilt = (Passes, natives) to call
    ONE Passes object on several circuits in a row (multi-call histories)"""
    from qibo import gates
    circuit = build_circuit(spec)
    P, nat = prebuilt if prebuilt is not None else build_passes(spec)
    info = {"circuit": circuit, "passes": P, "nat": nat}
    before = R.queue_canon(circuit)
    wires0 = list(circuit.wire_names)
    with PassLog() as pl:
        try:
            out, layout = R.with_timeout(timeout, P, circuit)
            info["out"], info["layout"] = out, layout
        except R.RouterTimeout:
            info["timeout"] = True
        except Exception as e:  # noqa
            info["error"] = f"{type(e).__name__}: {e}"
    info["log"] = pl.log
    info["input_mutated"] = before != R.queue_canon(circuit)
    info["input_wires_changed"] = wires0 != list(circuit.wire_names)
    return info


def end_to_end(spec, info):
    """[(key, what, extra)] violations of the property text"""
    from qibo import gates
    bad = []
    pl = spec["pipeline"]
    tag = f"{(pl.get('placer') or ['none'])[0]}+{(pl.get('router') or ['none'])[0]}+{pl.get('natives') or 'none'}"
    if info.get("timeout"):
        return [("timeout:" + tag, "pipeline did not terminate", {})]
    if "error" in info:
        key = "raises:" + tag
        if "more than 2 qubits" in info["error"] and any(g[0] == "M" and len(g[1]) > 2 for g in spec["gates"]) \
                and "Star" in tag:
            key = "meas3_raises:StarConnectivityPlacer" if info["error"].startswith("PlacementError") else "meas3_raises:Star"
        if "magic basis" in info["error"]:
            key = "unroller_raises:magic_basis"     # numerical KAK path of the unroller (C10)
        return [(key, "pipeline raised " + info["error"], {"error": info["error"]})]
    out, layout, P, nat = info["out"], info["layout"], info["passes"], info["nat"]
    circuit = info["circuit"]
    dev = P.connectivity
    nodes, edges = list(dev.nodes), [tuple(e) for e in dev.edges]
    n = len(nodes)
    exact = nat is None
    if info["input_mutated"]:
        bad.append(("mutates_input:" + tag, "the pipeline changed the input circuit", {}))
    for key, what in check_passes(spec, info["log"], nodes, edges, nat, exact, out):
        bad.append((key, what, {}))
    # acceptance check
    has_router = bool(pl.get("router"))
    if has_router and nat is not None:
        sat = P.is_satisfied(out)
        if not sat:
            m2 = any(isinstance(g, gates.M) and len(g.qubits) == 2 and
                     not dev.has_edge(out.wire_names[g.qubits[0]], out.wire_names[g.qubits[1]]) for g in out.queue)
            # meas2 = the ONLY reason for the rejection is a two-qubit measurement off the edges
            others_ok = True
            try:
                from qibo.transpiler.asserts import assert_decomposition, assert_placement
                assert_placement(out, dev)
                assert_decomposition(out, nat)
                others_ok = all(isinstance(g, gates.M) or len(g.qubits) < 2 or
                                (len(g.qubits) == 2 and dev.has_edge(out.wire_names[g.qubits[0]], out.wire_names[g.qubits[1]]))
                                for g in out.queue)
            except Exception:
                others_ok = False
            key = "is_satisfied:meas2" if (m2 and others_ok) else "is_satisfied:" + tag
            if any(k.startswith("nonadjacent_swap:ShortestPaths") for k, _, _ in bad):
                key = "is_satisfied:nonadjacent_swap:ShortestPaths"
            bad.append((key, "Passes.is_satisfied(output) is False for the pipeline's own output", {}))
    info["is_satisfied"] = P.is_satisfied(out)
    # final layout
    wn = list(out.wire_names)
    if has_router:
        if not (isinstance(layout, dict) and set(layout) == set(wn) and sorted(layout.values()) == list(range(n))):
            bad.append(("layout:" + tag, f"final layout {layout} is not a bijection on the output wire names {wn}", {}))
            return bad
        l2p = [layout[w] for w in wn]
    else:
        l2p = list(range(out.nqubits))
    info["l2p"] = l2p
    # padding keeps own wires (end to end, only meaningful without placer)
    if not pl.get("placer") and list(wn[:spec["k"]]) != list(spec["wire_names"]):
        bad.append(("padding:" + tag, f"own wires moved: {spec['wire_names']} -> {wn}", {}))
    if sorted(map(str, wn)) != sorted(map(str, nodes)) and pl.get("pre", True):
        bad.append(("wires:" + tag, f"output wire names {wn} are not the device nodes {nodes}", {}))
    # operator
    nn = out.nqubits
    try:
        U = R.exact_operator(circuit.queue, nn)
        V = R.exact_operator(out.queue, nn)
        ex = exact and R.is_integral(U) and R.is_integral(V)
        info["exact"] = ex
        if not phase_equal(V, R.permuted(U, l2p, nn), ex):
            key = f"{classify(spec) or 'operator'}:{tag}"
            bad.append((key, "output is not P_layout . (padded input)" + (" (exact)" if ex else " up to a global phase (tolerance 1e-7)"), {"l2p": l2p}))
        # measured registers: names, logical qubits, outcome distributions
        want = [(m.register_name, tuple(l2p[q] for q in m.qubits)) for m in circuit.measurements]
        got = [(m.register_name, tuple(m.qubits)) for m in out.measurements]
        if want != got:
            bad.append((f"{classify(spec) or 'measurements'}:{tag}", f"measured registers differ: expected {want}, got {got}", {}))
        else:
            Us = R.exact_operator([g for g in circuit.queue if not isinstance(g, gates.M)], nn)
            Vs = R.exact_operator([g for g in out.queue if not isinstance(g, gates.M)], nn)
            for m_in, m_out in zip(circuit.measurements, out.measurements):
                d1 = register_distribution(Us, nn, tuple(m_in.qubits))
                d2 = register_distribution(Vs, nn, tuple(m_out.qubits))
                same = np.array_equal(d1, d2) if ex else np.allclose(d1, d2, atol=TOL)
                if not same:
                    bad.append((f"{classify(spec) or 'outcomes'}:{tag}", f"register {m_in.register_name}: outcome distribution differs", {}))
                    break
    except OverflowError:
        pass
    return bad


# ------------------------------------------------------------------ case generation
def devices(rng, tier):
    out = [("line3", nx.path_graph(3)), ("line4", nx.path_graph(4)), ("line5", nx.path_graph(5)),
           ("star5", nx.star_graph(4)), ("ring4", nx.cycle_graph(4)), ("ring5", nx.cycle_graph(5)),
           ("grid2x2", nx.convert_node_labels_to_integers(nx.grid_2d_graph(2, 2))),
           ("tee5", nx.Graph([(0, 1), (1, 2), (2, 3), (2, 4)]))]
    if tier == "thorough":
        out += [("grid2x3", nx.convert_node_labels_to_integers(nx.grid_2d_graph(2, 3))), ("line6", nx.path_graph(6))]
    return out


def gen_float_gates(rng, k, ngates, two_pool):
    gs = []
    for _ in range(ngates):
        if k >= 2 and rng.random() < 0.5:
            name, npar = rng.choice(two_pool)
            a, b = rng.sample(range(k), 2)
            gs.append([name, [a, b], {"p": [round(rng.uniform(-3, 3), 3) for _ in range(npar)]} if npar else {}])
        else:
            name, npar = rng.choice(G1)
            gs.append([name, [rng.randrange(k)], {"p": [round(rng.uniform(-3, 3), 3) for _ in range(npar)]} if npar else {}])
    return gs


def gen_trailing_nonadjacent_safe(rng, k):
    """trailing registers of 1 or 3+ qubits (two-qubit registers are a separate, known-defect stream)"""
    qs = rng.sample(range(k), rng.randint(0, k))
    out, i, r = [], 0, 0
    while i < len(qs):
        w = rng.choice([1, 1, 3]) if len(qs) - i >= 3 else 1
        kw = {"register_name": f"r{r}"} if rng.random() < 0.6 else {}
        out.append(["M", qs[i:i + w], kw])
        i += w
        r += 1
    return out


def pipelines_for(devname, n, rng):
    routers = [["Sabre", {"seed": rng.randrange(100)}], ["ShortestPaths", {"seed": rng.randrange(100)}]]
    placers = [None, ["Random", {"seed": rng.randrange(100), "samples": 20}], ["Subgraph", {}],
               ["ReverseTraversal", {"router": ["Sabre", {"seed": rng.randrange(100)}], "depth": rng.choice([None, 3, 7])}],
               ["ReverseTraversal", {"router": ["ShortestPaths", {"seed": 5}], "depth": 4}]]
    if devname == "star5":
        routers.append(["StarConnectivityRouter", {}])
        placers.append(["StarConnectivityPlacer", {}])
    return placers, routers


def make_cases(tier, rng):
    cases = []
    hows = ["id", "perm", "str", "mixed", "sparse"]
    nat_names = [None] + list(native_sets().keys())
    reps = 1 if tier == "quick" else 4
    for _ in range(reps):
        for devname, g0 in devices(rng, tier):
            n = g0.number_of_nodes()
            placers, routers = pipelines_for(devname, n, rng)
            for placer, router, natn in itertools.product(placers, routers, nat_names):
                if tier == "quick" and rng.random() < 0.1:
                    continue
                g = R.label_variants(g0, rng, rng.choice(hows))
                nodes = list(g.nodes())
                on = None
                if rng.random() < 0.2 and n >= 4 and devname != "star5":
                    # restrict the device to a connected subset
                    sub = max(nx.connected_components(g.subgraph(rng.sample(nodes, n - 1))), key=len)
                    if len(sub) >= 3:
                        on = [v for v in nodes if v in sub]
                        rng.shuffle(on)
                avail = on if on is not None else nodes
                if devname == "star5":
                    k = rng.choice([3, 4, 5])
                else:
                    k = rng.randint(2, len(avail))
                wn = rng.sample(avail, k)
                ng = rng.randint(2, 9)
                if natn is None:
                    gs = R.gen_gates(rng, k, ng, pmid=rng.choice([0, 0.1]))
                    gs = R.fix_mid_measurements(gs, rng)
                else:
                    gs = gen_float_gates(rng, k, ng, G2_CNOT if natn == "U3_CNOT" else G2)
                need2 = 2 if (placer and placer[0] == "Subgraph") else (1 if placer and placer[0] == "ReverseTraversal" else 0)
                if need2:
                    # documented preconditions: Subgraph needs two two-qubit gates, ReverseTraversal(depth) one
                    while sum(1 for x in gs if len(x[1]) == 2 and x[0] != "M") < need2:
                        a, b = rng.sample(range(k), 2)
                        gs.insert(rng.randrange(len(gs) + 1), ["CZ", [a, b], {}])
                if rng.random() < 0.7:
                    gs += R.gen_trailing(rng, k)
                spec = dict(nodes=nodes, edges=[list(e) for e in g.edges()], on_qubits=on, k=k, wire_names=wn, gates=gs,
                            pipeline={"pre": True, "placer": placer, "router": router, "natives": natn})
                cases.append((devname, spec))
    return cases


def make_histories(tier, rng):
    """ONE Passes object called on a sequence of 2-4 circuits with different wire-name subsets /
    permutations (state kept by the passes between calls must not leak into the next call).
    Device nodes are named 0..n-1 in device order for half of the histories (a graph relabelled to
    circuit positions then has the SAME node set as the device), permuted ints / strings otherwise."""
    out = []
    nh = 48 if tier == "quick" else 240
    devs = [d for d in devices(rng, tier)]
    nat_names = [None, None, "default", "U3_CZ", "GPI2_iSWAP"]
    for h in range(nh):
        devname, g0 = devs[h % len(devs)]
        n = g0.number_of_nodes()
        how = "id" if h % 2 == 0 else rng.choice(["perm", "str", "mixed"])
        g = R.label_variants(g0, rng, how)
        nodes = list(g.nodes())
        on = None
        if h % 4 == 3 and n >= 4 and devname != "star5":
            # the pipeline works on a connected restriction of the device (on_qubits)
            sub = max(nx.connected_components(g.subgraph(rng.sample(nodes, n - 1))), key=len)
            if len(sub) >= 3:
                on = [v for v in nodes if v in sub]
                rng.shuffle(on)
        avail_nodes = on if on is not None else nodes
        placers, routers = pipelines_for(devname, n, rng)
        placer = rng.choice([None, None] + placers)
        router = rng.choice(routers)
        natn = rng.choice(nat_names)
        circuits = []
        for c in range(rng.randint(2, 4)):
            k = rng.choice([3, 4, 5]) if devname == "star5" else rng.randint(2, len(avail_nodes))
            wn = rng.sample(avail_nodes, k)
            if c == 0 and k >= 2:       # first call: wire names certainly out of device order
                wn = sorted(wn, key=nodes.index, reverse=True)
            ng = rng.randint(2, 8)
            if natn is None:
                gs = R.fix_mid_measurements(R.gen_gates(rng, k, ng, pmid=0), rng)
            else:
                gs = gen_float_gates(rng, k, ng, G2)
            need2 = 2 if (placer and placer[0] == "Subgraph") else (1 if placer and placer[0] == "ReverseTraversal" else 0)
            while sum(1 for x in gs if len(x[1]) == 2 and x[0] != "M") < max(need2, 1):
                a, b = rng.sample(range(k), 2)
                gs.insert(rng.randrange(len(gs) + 1), ["CZ", [a, b], {}])
            if rng.random() < 0.5:
                gs += R.gen_trailing(rng, k)
            circuits.append(dict(k=k, wire_names=wn, gates=gs))
        out.append((devname, dict(nodes=nodes, edges=[list(e) for e in g.edges()], on_qubits=on,
                                  pipeline={"pre": True, "placer": placer, "router": router, "natives": natn},
                                  circuits=circuits)))
    return out


def history_call_spec(hspec, i):
    c = hspec["circuits"][i]
    dv = hspec["devices"][c["dev"]] if hspec.get("devices") else hspec
    return dict(nodes=dv["nodes"], edges=dv["edges"], on_qubits=dv.get("on_qubits"),
                pipeline=hspec["pipeline"], k=c["k"], wire_names=c["wire_names"], gates=c["gates"])


def run_history(hspec, timeout=30.0):
    """[(call spec, info)] for the calls of ONE Passes object on the circuits of the history; with
    hspec["devices"]: one Passes object per device variant, all SHARING the same pass instances
    (router, placer, ...), called in the order of the circuits"""
    pre = build_passes(history_call_spec(hspec, 0))
    by_dev = {}
    res = []
    for i in range(len(hspec["circuits"])):
        sp = history_call_spec(hspec, i)
        if hspec.get("devices"):
            dvi = hspec["circuits"][i]["dev"]
            if dvi not in by_dev:
                by_dev[dvi] = pre if not by_dev else build_passes(sp, shared=(pre[0].passes, pre[1]))
            use = by_dev[dvi]
        else:
            use = pre
        res.append((sp, run_pipeline(sp, timeout=timeout, prebuilt=use)))
    return res


def make_device_histories(tier, rng):
    """pass instances (in particular ONE router object) shared by several Passes objects whose
    connectivity differs: another star centre / another graph on the same node names, or another
    on_qubits restriction of one device; calls alternate between the Passes objects"""
    out = []
    nh = 36 if tier == "quick" else 160
    nat_names = [None, None, "default", "U3_CZ"]
    for h in range(nh):
        mode = ("star", "graph", "on_qubits")[h % 3]
        natn = rng.choice(nat_names)
        if mode == "star":
            n = 5
            names = rng.choice([list(range(5)), [f"q{i}" for i in rng.sample(range(9), 5)]])
            ctrs = rng.sample(range(5), 3)
            devs = [dict(nodes=list(names), edges=[[names[c_], names[j]] for j in range(5) if j != c_], on_qubits=None) for c_ in ctrs]
            router = rng.choice([["StarConnectivityRouter", {}], ["StarConnectivityRouter", {}], ["Sabre", {"seed": rng.randrange(100)}]])
            placer = rng.choice([None, ["StarConnectivityPlacer", {}]])
        elif mode == "graph":
            n = rng.randint(4, 5)
            names = rng.choice([list(range(n)), [f"q{i}" for i in rng.sample(range(9), n)]])
            devs = []
            for _ in range(3):
                base = rng.choice([nx.path_graph(n), nx.cycle_graph(n), nx.star_graph(n - 1)])
                perm = rng.sample(range(n), n)
                devs.append(dict(nodes=list(names), edges=[[names[perm[a]], names[perm[b]]] for a, b in base.edges()], on_qubits=None))
            router = rng.choice([["Sabre", {"seed": rng.randrange(100)}], ["ShortestPaths", {"seed": rng.randrange(100)}]])
            placer = rng.choice([None, ["Random", {"seed": rng.randrange(100), "samples": 10}]])
        else:
            n = 5
            g0 = rng.choice([nx.path_graph(5), nx.cycle_graph(5), nx.Graph([(0, 1), (1, 2), (2, 3), (2, 4)])])
            g = R.label_variants(g0, rng, rng.choice(["id", "str", "perm"]))
            nodes = list(g.nodes())
            devs = []
            for _ in range(3):
                on = None
                for _t in range(10):
                    sel = rng.sample(nodes, rng.randint(3, 5))
                    if nx.is_connected(g.subgraph(sel)):
                        on = sel
                        break
                devs.append(dict(nodes=nodes, edges=[list(e) for e in g.edges()], on_qubits=on))
            router = rng.choice([["Sabre", {"seed": rng.randrange(100)}], ["ShortestPaths", {"seed": rng.randrange(100)}]])
            placer = None
        circuits = []
        for c in range(rng.randint(3, 5)):
            dvi = c % len(devs) if c < len(devs) else rng.randrange(len(devs))
            avail = devs[dvi]["on_qubits"] or devs[dvi]["nodes"]
            k = len(avail) if mode == "star" else rng.randint(2, len(avail))
            wn = rng.sample(avail, k)
            ng = rng.randint(2, 8)
            gs = R.fix_mid_measurements(R.gen_gates(rng, k, ng, pmid=0), rng) if natn is None else gen_float_gates(rng, k, ng, G2)
            if not any(len(x[1]) == 2 and x[0] != "M" for x in gs):
                a, b = rng.sample(range(k), 2)
                gs.append(["CZ", [a, b], {}])
            if rng.random() < 0.5:
                gs += R.gen_trailing(rng, k)
            circuits.append(dict(k=k, wire_names=wn, gates=gs, dev=dvi))
        out.append((mode, dict(devices=devs, pipeline={"pre": True, "placer": placer, "router": router, "natives": natn},
                               circuits=circuits)))
    return out


def defect_cases(rng):
    out = []
    line3 = nx.path_graph(3)
    # two-qubit measurement on non-adjacent physical qubits
    spec = dict(nodes=[0, 1, 2], edges=[[0, 1], [1, 2]], on_qubits=None, k=3, wire_names=[0, 1, 2],
                gates=[["CZ", [0, 1], {}], ["M", [0, 2], {"register_name": "r"}]],
                pipeline={"pre": True, "placer": None, "router": ["Sabre", {"seed": 0}], "natives": "default"})
    out.append(("line3", spec))
    # regression: three-qubit measurement after a two-qubit gate needing a SWAP, star router
    spec = dict(nodes=[0, 1, 2, 3, 4], edges=[[0, 1], [0, 2], [0, 3], [0, 4]], on_qubits=None, k=5, wire_names=[0, 1, 2, 3, 4],
                gates=[["CZ", [1, 2], {}], ["M", [0, 1, 2], {"register_name": "r"}]],
                pipeline={"pre": True, "placer": None, "router": ["StarConnectivityRouter", {}], "natives": "default"})
    out.append(("star5", spec))
    # StarConnectivityPlacer with a three-qubit measurement (its own loop refuses every gate on > 2 qubits)
    spec = dict(nodes=[0, 1, 2, 3, 4], edges=[[0, 1], [0, 2], [0, 3], [0, 4]], on_qubits=None, k=5, wire_names=[0, 1, 2, 3, 4],
                gates=[["CZ", [0, 1], {}], ["M", [1, 2, 3], {"register_name": "r"}]],
                pipeline={"pre": True, "placer": ["StarConnectivityPlacer", {}], "router": ["Sabre", {"seed": 0}], "natives": "default"})
    out.append(("star5", spec))
    # regression: ShortestPaths on a long line (qubit moves more than one step)
    for sd in range(4):
        spec = dict(nodes=list(range(6)), edges=[[i, i + 1] for i in range(5)], on_qubits=None, k=6, wire_names=list(range(6)),
                    gates=[["CZ", [0, 5], {}], ["CNOT", [5, 1], {}], ["M", [0], {}]],
                    pipeline={"pre": True, "placer": None, "router": ["ShortestPaths", {"seed": sd}], "natives": "default"})
        out.append(("line6", spec))
    return out


# ------------------------------------------------------------------ Coq encoding of one real run
HEADER = ("From Coq Require Import List Arith Bool.\nImport ListNotations.\n"
          "From QV Require Import C09.Trace C09.ModelRouter C09.ModelBlocks C11.ModelPipeline C11.ModelCheck.\n")


class Tags:
    def __init__(self):
        self.ids = {}

    def of(self, g):
        nm = type(g).__name__
        if nm not in self.ids:
            self.ids[nm] = len(self.ids) + 1
        return self.ids[nm]


def cg(tags, g):
    return R.cgate(R.kind_of(g), tags.of(g), g.qubits)


def ccirc(tags, num, wires, queue):
    return f"(mkC {R.nl([num[_h(w)] for w in wires])} {R.cgates([cg(tags, g) for g in queue])})"


def _h(x):
    return (type(x).__name__, x)


def coq_terms(spec, info):
    """terms for pipeline_check / restrict_check; None when the pipeline did not return"""
    from qibo import gates
    from qibo.transpiler.unroller import NativeGates, translate_gate
    if "out" not in info:
        return None
    P, nat, out = info["passes"], info["nat"], info["out"]
    num = {_h(v): i for i, v in enumerate(spec["nodes"])}
    dev = P.connectivity
    dnodes = list(dev.nodes)
    tags = Tags()
    d = f"(mkD {R.nl([num[_h(v)] for v in dnodes])} [" + "; ".join(f"({num[_h(a)]}, {num[_h(b)]})" for a, b in dev.edges) + "])"
    full = f"(mkD {R.nl(range(len(spec['nodes'])))} [" + "; ".join(f"({num[_h(a)]}, {num[_h(b)]})" for a, b in spec["edges"]) + "])"
    c0 = ccirc(tags, num, spec["wire_names"], info["circuit"].queue)
    ps = []
    extra = []
    k = spec["k"]
    for e in info["log"]:
        cls, b = e["cls"], e["before"]
        if cls == "Preprocessing":
            ps.append(f"(PPre {R.nl([num[_h(w)] for w in e['snap']['wires'][len(b['wires']):]])})")
        elif cls in ("Random", "Subgraph", "ReverseTraversal", "StarConnectivityPlacer"):
            ps.append(f"(PPlace {R.nl([num[_h(w)] for w in e['after_wires']])})")
            from qibo import gates as _g
            pairs = [sorted(x.qubits) for x in b["queue"] if not isinstance(x, _g.M) and len(x.qubits) == 2]
            cpairs = "[" + "; ".join(f"({a_}, {b_})" for a_, b_ in pairs) + "]"
            real_w = R.nl([num[_h(w)] for w in e["after_wires"]])
            if cls == "Random":
                samples = "[" + "; ".join(R.nl(m_) for m_ in e["oracle"]["random"]) + "]"
                extra.append(("random", f"random_placer_check {d} {cpairs} {samples} {real_w}"))
            elif cls == "Subgraph":
                ident = R.nl(range(len(dnodes)))
                ans = "[" + "; ".join(
                    f"(true, {R.nl([mp_[v] for v in dnodes])})" if ok_ else f"(false, {ident})"
                    for ok_, mp_ in e["oracle"]["subgraph"]) + "]"
                extra.append(("subgraph", f"subgraph_placer_check {d} {cpairs} {ans} {real_w}"))
            elif cls == "ReverseTraversal":
                extra.append(("reverse", f"reverse_traversal_check {ccirc(tags, num, b['wires'], b['queue'])} {real_w}"))
            if cls == "StarConnectivityPlacer":
                mids = [v for v in dnodes if dev.degree(v) == len(dnodes) - 1]
                if len(mids) == 1 and mids[0] in b["wires"]:
                    extra.append(("star", f"star_placer_check {b['wires'].index(mids[0])} {ccirc(tags, num, b['wires'], b['queue'])} "
                                          f"{R.nl([num[_h(w)] for w in e['after_wires']])}"))
        elif cls in ("Sabre", "ShortestPaths", "StarConnectivityRouter"):
            routed, layout = e["result"]
            try:
                l2p = [int(layout[w]) for w in b["wires"]]
            except Exception:
                return None
            ps.append(f"(PRoute {ccirc(tags, num, e['snap']['wires'], e['snap']['queue'])} {R.nl(l2p)})")
        elif cls == "Unroller":
            pieces = []
            flat = []
            for g in b["queue"]:
                tr = translate_gate(g, nat)
                tr = tr if isinstance(tr, list) else [tr]
                flat += tr
                pieces.append(f"({cg(tags, g)}, {R.cgates([cg(tags, h) for h in tr])})")
            same = [R.gate_canon(x) for x in flat] == [R.gate_canon(x) for x in e["snap"]["queue"]] if False else \
                [(type(x).__name__, tuple(x.qubits)) for x in flat] == [(type(x).__name__, tuple(x.qubits)) for x in e["snap"]["queue"]]
            info["unroller_is_gatewise"] = same
            ps.append("(PUnroll [" + "; ".join(pieces) + "])")
    cout = ccirc(tags, num, out.wire_names, out.queue)
    # native class ids
    ids = []
    nset = nat if nat is not None else NativeGates.default()
    for nm, t in list(tags.ids.items()):
        try:
            if NativeGates.from_gate(getattr(gates, nm)) & nset:
                ids.append(t)
        except Exception:
            pass
    sat = "true" if info.get("is_satisfied") else "false"
    term = f"pipeline_check {d} {R.nl(ids)} {c0} [{'; '.join(ps)}] {cout} {sat}"
    rterm = None
    if spec.get("on_qubits") is not None:
        rterm = f"restrict_check {full} {R.nl([num[_h(v)] for v in spec['on_qubits']])}"
    return {"term": term, "restrict": rterm, "extra": extra, "dnodes": [num[_h(v)] for v in dnodes],
            "dedges": {frozenset((num[_h(a)], num[_h(b)])) for a, b in dev.edges}}


def parse_coq(v):
    t = v.replace(";", ",").replace("true", "True").replace("false", "False")
    t = t.replace("Some", "").replace("None", "None")
    return eval(t, {"__builtins__": {}}, {})


# ------------------------------------------------------------------ default transpiler of a hardware-like backend
def default_transpiler_cases(run, found, stats, rng, only=None):
    """the transpiler a hardware-like backend installs (cached in _Global): called on a SEQUENCE of
    circuits with different wire-name subsets / permutations; every output is checked.
    only = one recorded history {qubits, connectivity, natives, circuits} to replay"""
    from qibo import Circuit, gates
    from qibo.backends import _Global, NumpyBackend
    from qibo.transpiler.unroller import NativeGates
    from qibo.transpiler.asserts import assert_connectivity, assert_decomposition, assert_placement

    class FakeHardware(NumpyBackend):
        def __init__(self, q, conn, nat):
            super().__init__()
            self._q, self._c, self._n = q, conn, nat

        @property
        def qubits(self):
            return self._q

        @property
        def connectivity(self):
            return self._c

        @property
        def natives(self):
            return self._n

    def gen_circuit(qs, first):
        k = rng.randint(2, len(qs))
        wn = rng.sample(qs, k)
        if first:
            wn = sorted(wn, key=qs.index, reverse=True)     # certainly out of device order
        gs = []
        for _ in range(rng.randint(2, 7)):
            if rng.random() < 0.5:
                gs.append(["X", [rng.randrange(k)]])
            else:
                gs.append([rng.choice(["CNOT", "SWAP"]), rng.sample(range(k), 2)])
        return {"k": k, "wire_names": wn, "gates": gs, "measure": rng.sample(range(k), k) if k != 2 else [0]}

    def build(cs):
        c = Circuit(cs["k"], wire_names=list(cs["wire_names"]))
        for nm, q in cs["gates"]:
            c.add(getattr(gates, nm)(*q))
        c.add(gates.M(*cs["measure"], register_name="out"))
        return c

    if only is not None:
        histories = [only]
    else:
        histories = []
        for qs, conn in ((["a", "b", "c", "d"], [("a", "b"), ("b", "c"), ("c", "d")]),
                         ([0, 1, 2, 3, 4], [(0, 2), (1, 2), (3, 2), (4, 2)]),
                         ([0, 1, 2, 3, 4], [(0, 1), (1, 2), (2, 3), (3, 4)]),
                         ([0, 1, 2, 3], [(0, 1), (1, 2), (2, 3), (3, 0)]),
                         (["q1", "q0", "q2"], [("q0", "q1"), ("q1", "q2")])):
            for natives in (["CZ", "GPI2", "RZ", "Z", "I", "M"], ["iSWAP", "U3", "RZ", "Z", "I", "M"], ["CZ", "U3", "M"]):
                histories.append({"qubits": qs, "connectivity": [list(e) for e in conn], "natives": natives,
                                  "circuits": [gen_circuit(qs, i == 0) for i in range(3)]})
    saved = (_Global._backend, _Global._transpiler)
    try:
        for hist in histories:
            qs, natives = list(hist["qubits"]), list(hist["natives"])
            conn = [tuple(e) for e in hist["connectivity"]]
            _Global._backend = FakeHardware(qs, conn, natives)
            _Global._transpiler = None
            t = _Global.transpiler()
            kinds = [type(p).__name__ for p in t.passes]
            if kinds != ["Preprocessing", "Sabre", "Unroller"] or set(t.connectivity.nodes) != set(qs):
                found.setdefault("default_transpiler:passes", (f"unexpected default pipeline {kinds}", {"default_transpiler_history": hist}))
                continue
            n = len(qs)
            nat_flag = NativeGates[natives]
            for ci, cs in enumerate(hist["circuits"]):
                pre = "default_transpiler:" if ci == 0 else "default_transpiler_reused:"
                rp = {"default_transpiler_history": hist, "call_index": ci}
                run.case(["default_transpiler", qs, natives, cs], True)
                stats["default_transpiler_calls"] = stats.get("default_transpiler_calls", 0) + 1
                c = build(cs)
                k = cs["k"]
                try:
                    out, layout = R.with_timeout(30.0, t, c)
                except R.RouterTimeout:
                    stats["timeouts"] = stats.get("timeouts", 0) + 1     # termination is not claimed
                    continue
                except Exception as e:  # noqa
                    found.setdefault(pre + "raises", (f"default transpiler raised {type(e).__name__}: {e}", rp))
                    continue
                ok_layout = isinstance(layout, dict) and set(layout) == set(out.wire_names) and sorted(layout.values()) == list(range(n))
                if not ok_layout:
                    found.setdefault(pre + "layout", (f"final layout {layout} is not a bijection on {out.wire_names}", rp))
                    continue
                if list(out.wire_names[:k]) != list(cs["wire_names"]) or sorted(map(str, out.wire_names)) != sorted(map(str, qs)):
                    found.setdefault(pre + "padding", (f"wire names {cs['wire_names']} -> {out.wire_names}", rp))
                l2p = [layout[w] for w in out.wire_names]
                U = R.exact_operator(c.queue, n)
                V = R.exact_operator(out.queue, n)
                if not phase_equal(V, R.permuted(U, l2p, n), False):
                    found.setdefault(pre + "operator", ("default transpiler output is not P.(padded input) up to phase", rp))
                try:
                    assert_placement(out, t.connectivity)
                    assert_connectivity(t.connectivity, out)
                    assert_decomposition(out, nat_flag)
                except Exception as e:
                    found.setdefault(pre + "backend_natives", (f"output violates the backend's own natives/connectivity: {e}", rp))
                if not t.is_satisfied(out):
                    found.setdefault(pre + "is_satisfied", ("Passes.is_satisfied rejects the default transpiler's own output", rp))
                # executing through Circuit.execute: same (certain) outcome as the untranspiled circuit
                try:
                    r1 = R.with_timeout(30.0, lambda: c(nshots=20).frequencies(registers=True))
                except R.RouterTimeout:
                    stats["timeouts"] = stats.get("timeouts", 0) + 1
                    continue
                ref = Circuit(k)
                for g in c.queue:
                    ref.add(g.on_qubits({q: q for q in range(k)}) if not isinstance(g, gates.M) else gates.M(*g.qubits, register_name="out"))
                r0 = NumpyBackend().execute_circuit(ref, nshots=20).frequencies(registers=True)
                if dict(r1["out"]) != dict(r0["out"]):
                    found.setdefault(pre + "outcomes", (f"measured register differs: {dict(r1['out'])} vs {dict(r0['out'])}", rp))
    finally:
        _Global._backend, _Global._transpiler = saved


def restrict_cases(run, found, stats, rng):
    """restrict_connectivity_qubits on selections that must be refused (not device nodes / not
    connected / empty) and on random selections: model and implementation accept the same inputs"""
    from qibo.transpiler.pipeline import restrict_connectivity_qubits
    exprs, expect = [], []
    for devname, g0 in devices(rng, "quick"):
        n = g0.number_of_nodes()
        nodes = list(g0.nodes())
        full = f"(mkD {R.nl(nodes)} [" + "; ".join(f"({a}, {b})" for a, b in g0.edges()) + "])"
        sels = [rng.sample(nodes, rng.randint(1, n)) for _ in range(6)] + [[nodes[0], n + 3], []]
        for sel in sels:
            try:
                r = restrict_connectivity_qubits(g0, list(sel))
                raised = False
            except Exception:
                raised = True
            run.case(["restrict", devname, sel], True)
            stats["restrict_selections"] = stats.get("restrict_selections", 0) + 1
            exprs.append(f"restrict_raises {full} {R.nl(sel)}")
            expect.append((devname, sel, raised))
    vals = run.coq_eval("C11_restrict.v", HEADER, exprs, timeout=300)
    run.oblige("model_restrict_cases", vals is not None, "correspondence")
    if vals is None:
        run.find("coq:C11_restrict", "generated file does not compile", concrete=False)
        return
    for v, (devname, sel, raised) in zip(vals, expect):
        if (v == "true") != raised:
            found.setdefault("model:restrict_raises", (f"restrict_connectivity_qubits({devname}, {sel}): implementation raises={raised}, model raises={v}",
                                                       {"device": devname, "selection": sel, "model_only": True}))


RULE = ("single calls and multi-call histories (ONE Passes object / the cached default transpiler called on 2-4 circuits in a row); cases = device (line/star/ring/grid/T, relabelled nodes) x optional on_qubits restriction x circuit on a "
        "permuted subset of wire names (k <= device size) x placer {none, Random, Subgraph, ReverseTraversal, Star} x "
        "router {Sabre, ShortestPaths, Star} x native set {none (exact integer data), 6 sets}; non-trivial = the output "
        "differs from the input circuit (padding, renaming, SWAPs or unrolling happened); distinct = distinct spec")


def main(run):
    rng = random.Random(run.seed)
    run.trusted += ["Coq 8.16.1 kernel, vm_compute",
                    "C09 theorems (router premise), C10 (unroller table premise): pipeline_ok takes them as premises",
                    "networkx (connectedness in restrict_connectivity_qubits, GraphMatcher in Subgraph, shortest paths)",
                    "numpy tensordot/transpose for the operator comparison; exact below 2^50 for pipelines without unroller",
                    "NativeGates flag table (which classes are native) is read from the implementation"]
    run.assumptions += ["pipelines with an Unroller are compared up to a global phase with tolerance 1e-7: that part is a TEST, not a proof (irrational angles)",
                        "placers, the router and the unroller enter the composition theorem by contract; the contracts are checked on every real pass execution of this run",
                        "termination of routers/placers is not claimed (timeouts)"]
    R.theorem_obligations(run, "C11/Props")
    found, stats = {}, {}
    cases = make_cases(run.tier, rng) + defect_cases(rng)
    pending = []
    runs = [(devname, spec, run_pipeline(spec), None) for devname, spec in cases]
    for devname, hspec in make_histories(run.tier, rng) + make_device_histories(run.tier, rng):
        for i, (sp, info) in enumerate(run_history(hspec)):
            runs.append((devname, sp, info, {"history": hspec, "call_index": i}))
            stats["history_calls"] = stats.get("history_calls", 0) + 1
            if i > 0:
                kk = "calls_with_shared_pass_instances_and_changed_connectivity" if hspec.get("devices") else "calls_on_a_reused_Passes_object"
                stats[kk] = stats.get(kk, 0) + 1
    for devname, spec, info, hist in runs:
        bad = end_to_end(spec, info)
        if hist is not None:
            # a failure after the first call of a history is a state leak between calls of one Passes object
            # (keys stay the same as for single calls, so that open known findings keep matching)
            note = (f" [call {hist['call_index']} of a history whose Passes objects SHARE their pass instances while the connectivity changes]"
                    if hist["history"].get("devices") else f" [call {hist['call_index']} of a multi-call history on ONE Passes object]")
            bad = [(k, w + note, {**e, **hist}) for k, w, e in bad]
        nontrivial = "out" in info and R.queue_canon(info["out"]) != R.queue_canon(info["circuit"])
        run.case(spec, nontrivial)
        pl = spec["pipeline"]
        for kk in ("placer", "router"):
            nm = (pl.get(kk) or ["none"])[0]
            stats[f"{kk}:{nm}"] = stats.get(f"{kk}:{nm}", 0) + 1
        stats[f"natives:{pl.get('natives')}"] = stats.get(f"natives:{pl.get('natives')}", 0) + 1
        if info.get("exact"):
            stats["exact_operator_comparisons"] = stats.get("exact_operator_comparisons", 0) + 1
        elif "out" in info:
            stats["tolerance_operator_comparisons(test)"] = stats.get("tolerance_operator_comparisons(test)", 0) + 1
        if len(run.samples) < 4 and nontrivial and len(spec["gates"]) <= 6:
            run.sample({"device": devname, "spec": spec, "final_layout": str(info.get("layout")),
                        "output_wires": [str(w) for w in info["out"].wire_names],
                        "output": [[g.name, list(g.qubits)] for g in info["out"].queue][:30]})
        for key, what, extra in bad:
            stats["fail:" + key] = stats.get("fail:" + key, 0) + 1
            if key.startswith("timeout:"):
                continue     # termination is not part of the property (safety only); counted in stats
            found.setdefault(key, (what, {"spec": spec, "device": devname, **extra}))
        t = coq_terms(spec, info)
        if t:
            pending.append((devname, spec, info, t, {kk for kk, _, _ in bad}))
    CH = 100
    for b in range(0, len(pending), CH):
        chunk = pending[b:b + CH]
        exprs = []
        for (_, spec, info, t, _k) in chunk:
            exprs.append(t["term"])
            if t["restrict"]:
                exprs.append(t["restrict"])
            exprs += [x_[1] for x_ in t["extra"]]
        vals = run.coq_eval(f"C11_cases_{b // CH}.v", HEADER, exprs, timeout=900)
        run.oblige(f"model_replay_{b // CH}", vals is not None, "correspondence")
        if vals is None:
            run.find(f"coq:C11_cases_{b // CH}", "generated correspondence file does not compile", concrete=False)
            continue
        it = iter(vals)
        for (devname, spec, info, t, badkeys) in chunk:
            ran, same, sat_agree, spec_sat, lay = parse_coq(next(it))
            stats["pipelines_replayed"] = stats.get("pipelines_replayed", 0) + 1
            pl = spec["pipeline"]
            if not ran:
                if t["restrict"]:
                    next(it)
                for _x in t["extra"]:
                    next(it)
                if "nonadjacent_swap:ShortestPaths" in badkeys:
                    # the router contract fails in the model exactly where the spec-level check saw the off-edge SWAP
                    kk = "router_contract_rejected(ShortestPaths swaps)"
                    stats[kk] = stats.get(kk, 0) + 1
                else:
                    key = f"contract:{(pl.get('placer') or ['none'])[0]}+{(pl.get('router') or ['none'])[0]}"
                    found.setdefault(key, ("a pass output violates its contract (model replay of Passes.__call__ returns None)",
                                           {"spec": spec, "device": devname}))
                continue
            if not same:
                found.setdefault("model:pipeline", ("model's final circuit differs from the implementation's", {"spec": spec, "model_only": True}))
            if not sat_agree:
                found.setdefault("model:is_satisfied", ("is_satisfied model and implementation disagree", {"spec": spec, "model_only": True}))
            if pl.get("router") and lay is not None and list(lay) != info.get("l2p"):
                found.setdefault("model:layout", (f"layout {lay} (model) vs {info.get('l2p')}", {"spec": spec, "model_only": True}))
            if info.get("unroller_is_gatewise") is False:
                found.setdefault("model:unroller", ("Unroller output is not the gate-wise translate_gate concatenation", {"spec": spec, "model_only": True}))
            if t["restrict"]:
                r = parse_coq(next(it))
                ok = r is not None and list(r[0]) == t["dnodes"] and {frozenset(e) for e in r[1]} == t["dedges"]
                stats["restrictions_compared"] = stats.get("restrictions_compared", 0) + 1
                if not ok:
                    found.setdefault("model:restrict", ("restrict_connectivity_qubits model and implementation disagree", {"spec": spec, "model_only": True}))
            for kind_, _x in t["extra"]:
                okx = parse_coq(next(it))
                stats[f"{kind_}_placer_model_compared"] = stats.get(f"{kind_}_placer_model_compared", 0) + 1
                same_, perms_ = okx if isinstance(okx, tuple) else (okx, True)
                if not same_:
                    found.setdefault(f"model:{kind_}_placer", (f"{kind_} placer: model and implementation disagree on the wire names", {"spec": spec, "model_only": True}))
                if not perms_:
                    found.setdefault(f"placer_oracle:{kind_}", (f"{kind_} placer: a sampled layout / matcher mapping is not a bijection onto 0..n-1", {"spec": spec}))
    default_transpiler_cases(run, found, stats, rng)
    restrict_cases(run, found, stats, rng)
    for key, (what, rp) in sorted(found.items()):
        run.find(key, what, rp, concrete=not rp.get("model_only", False))
    run.notes["stats"] = stats
    run.not_proved += ["the quality of the placers (Random's cost minimisation, Subgraph's isomorphism search via networkx GraphMatcher, the numpy sampler) is not a subject of the property: the sampled layouts / matcher answers are oracle data fed to the placer models (random_placer, subgraph_placer, reverse_traversal_placer, star_placer), whose outputs are proved to be valid placements for ANY bijective layout and compared with every real placer execution",
                       "the unroller's semantic premise (C10) and the router's (C09) are premises of pipeline_ok",
                       "operator equality for pipelines with an unroller is tested with tolerance 1e-7, not proved"]
    return run.finish(level="proof", rule=RULE)


def replay(run, data):
    rp = data.get("replay", {})
    if rp.get("history"):
        hspec = rp["history"]
        run.oblige("replay_executed", True, "replay")
        anybad = False
        for i, (sp, info) in enumerate(run_history(hspec, timeout=60)):
            run.case(sp)
            for key, what, extra in end_to_end(sp, info):
                print(f"replay reproduces (call {i} of the history):", key, what)
                run.find(key, what, {"history": hspec, "call_index": i, **extra})
                anybad = True
        run.sample({"history": hspec})
        if not anybad:
            print("replay: the recorded history passes now (", data.get("key"), ")")
        return run.finish(rule="replay of one recorded multi-call history")
    if rp.get("default_transpiler_history"):
        found, stats = {}, {}
        run.oblige("replay_executed", True, "replay")
        default_transpiler_cases(run, found, stats, random.Random(0), only=rp["default_transpiler_history"])
        for key, (what, r2) in found.items():
            print("replay reproduces:", key, what)
            run.find(key, what, r2)
        if not found:
            print("replay: the recorded default-transpiler history passes now")
        return run.finish(rule="replay of one recorded default-transpiler history")
    spec = rp.get("spec")
    if not spec:
        print("replay: nothing to re-run for", data.get("key"))
        return run.finish(rule="replay of one recorded case")
    info = run_pipeline(spec, timeout=60)
    bad = end_to_end(spec, info)
    run.oblige("replay_executed", True, "replay")
    run.case(spec)
    run.sample({"spec": spec})
    for key, what, extra in bad:
        print("replay reproduces:", key, what)
        run.find(key, what, {"spec": spec, **extra})
    if not bad:
        print("replay: the recorded case passes now (", data.get("key"), ")")
    return run.finish(rule="replay of one recorded case")
