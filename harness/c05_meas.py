"""C05, relabelling / copying / concatenating circuits with MEASUREMENT gates (family F of STRENGTHEN_GUIDE.md:
dictionary order / partial dictionaries, crossed with every option of gates.M -- families D, E, B).

A measurement gates.M(*targets, p0=, p1=, basis=, collapse=, register_name=) is built with every representation of
the readout-error maps (None, float, list, tuple, full dictionary in target order, full dictionary in another key
order, partial dictionary), per-qubit bases (class, string, list), non-ascending targets (3-cycles included), and is
sent through a sequence of 1-3 operations that re-create or move gates:
      M.on_qubits(map) | Circuit.on_qubits(*perm) inside a larger circuit | Circuit.light_cone | Circuit.copy(deep)
      | Circuit.copy() | Circuit.invert() (trailing measurements) | prefix + circuit.
The resulting measurement gate must carry each qubit's OWN data to the image of that qubit:
  * target_qubits (order), bitflip_map (both maps, exact floats), basis_gates, basis rotations (class and qubit),
    collapse, explicit register name, shared result object for M.on_qubits -- compared exactly with the relabelled
    description AND with the Coq model C05/MeasModel.run evaluated on the same integer data (probabilities are k/8);
  * the queue of the derived circuit holds every basis rotation exactly once;
  * with deterministic data (probabilities 0 / 1, eigenstates of the measured bases) the sampled frequencies of the
    derived circuit equal those of a freshly built circuit on the image qubits and the analytic outcome;
  * the user's dictionaries / lists and the source gate are not modified.
"""
import copy

import numpy as np

MODEL_HEADER = ("From Coq Require Import List Bool Arith ZArith.\nFrom QV Require Import C05.MeasModel.\n"
                "Import ListNotations.\n")
BASES = ["Z", "X", "Y"]
DYADIC = [0.0, 0.125, 0.25, 0.5, 1.0, 0.375]


# ------------------------------------------------------------------ case generation (JSON-able)
def make_spec(rng, ts, kind, det):
    """user-level representation of one readout map; -> {"kind", "value"} with value JSON-able
    (dict as list of [q, p] pairs in the ORDER the user writes them)"""
    draw = (lambda: rng.choice([0.0, 1.0])) if det else (lambda: rng.choice(DYADIC))
    if kind == "none":
        return {"kind": "none", "value": None}
    if kind == "float":
        return {"kind": "float", "value": draw()}
    if kind in ("list", "tuple"):
        return {"kind": kind, "value": [draw() for _ in ts]}
    if kind == "dict_full":
        return {"kind": kind, "value": [[q, draw()] for q in ts]}
    if kind == "dict_sorted":           # keys ascending while the targets are not (or vice versa)
        return {"kind": kind, "value": [[q, draw()] for q in sorted(ts)]}
    if kind == "dict_shuffled":
        qs = list(ts)
        rng.shuffle(qs)
        if qs == list(ts) and len(qs) > 1:
            qs = qs[1:] + qs[:1]
        return {"kind": kind, "value": [[q, draw()] for q in qs]}
    if kind == "dict_partial":
        k = rng.randint(1, max(1, len(ts) - 1))
        qs = rng.sample(list(ts), k)
        # a noisy qubit that is NOT the first target, non-zero probability
        return {"kind": kind, "value": [[q, (1.0 if det else rng.choice(DYADIC[1:]))] for q in qs]}
    if kind == "dict_int":              # integer values in a dictionary are accepted (only a bare scalar must be a float)
        return {"kind": kind, "value": [[q, rng.choice([0, 1])] for q in reversed(ts)]}
    raise ValueError(kind)


KINDS = ["none", "float", "list", "tuple", "dict_full", "dict_sorted", "dict_shuffled", "dict_partial", "dict_int"]
OPS = ["gate_onq", "circ_onq", "light_cone", "copy_deep", "copy", "invert", "add"]

FIXED = [  # deterministic corpus first: (targets, nq, p0 kind, p1 kind, ops)
    ([0, 1, 2], 3, "dict_partial", "none", ["gate_onq"]),
    ([0, 1, 2], 3, "dict_shuffled", "none", ["gate_onq"]),
    ([2, 0, 1], 3, "dict_partial", "dict_shuffled", ["circ_onq"]),
    ([0, 1], 2, "dict_partial", "none", ["circ_onq"]),
    ([1, 2, 0], 4, "dict_sorted", "list", ["light_cone"]),
    ([2, 0], 3, "dict_partial", "float", ["copy_deep", "gate_onq"]),
    ([0, 2, 1], 3, "dict_int", "dict_partial", ["invert", "circ_onq"]),
    ([1, 0], 3, "none", "dict_partial", ["add", "gate_onq", "gate_onq"]),
    ([0, 1, 2], 4, "tuple", "dict_shuffled", ["circ_onq", "copy_deep"]),
    ([2, 1, 0], 3, "dict_full", "none", ["gate_onq", "circ_onq"]),
    ([1, 2], 3, "float", "dict_partial", ["copy", "circ_onq", "invert"]),
    ([0, 2], 4, "dict_shuffled", "dict_sorted", ["light_cone", "gate_onq"]),
]


def make_case(rng, i):
    det = (i % 2 == 0) if i >= 2 * len(FIXED) else (i < len(FIXED))
    if i < 2 * len(FIXED):
        ts, nq, k0, k1, ops = FIXED[i % len(FIXED)]
        ts, ops = list(ts), list(ops)
    else:
        nq = rng.choice([2, 3, 3, 4, 4, 5])
        k = rng.randint(1, min(3, nq))
        ts = rng.sample(range(nq), k)
        if k == 3 and rng.random() < 0.5:       # a 3-cycle of an ascending triple: not an involution
            a = sorted(ts)
            ts = [a[2], a[0], a[1]] if rng.random() < 0.5 else [a[1], a[2], a[0]]
        k0, k1 = rng.choice(KINDS), rng.choice(["none", "none"] + KINDS)
        ops = [rng.choice(OPS) for _ in range(rng.choice([1, 1, 2, 2, 3]))]
    basis_kind = rng.choice(["default", "default", "class", "string", "list", "list_str"])
    collapse = False
    if rng.random() < 0.12 and i >= 2 * len(FIXED):
        collapse, k0, k1 = True, "none", "none"
    if basis_kind == "default":
        basis = ["Z"] * len(ts)
    elif basis_kind in ("class", "string"):
        basis = [rng.choice(BASES)] * len(ts)
    else:
        basis = [rng.choice(BASES) for _ in ts]
    case = {"nq": nq, "targets": ts, "p0": make_spec(rng, ts, k0, det), "p1": make_spec(rng, ts, k1, det),
            "basis": basis, "basis_kind": basis_kind, "collapse": collapse,
            "register_name": rng.choice([None, "a", "reg_b"]), "det": det,
            "bits": [rng.randint(0, 1) for _ in range(nq)], "ops": []}
    # parameters of every operation (maps chosen here so that the case replays)
    n = nq
    live = set(ts)          # qubits the measured data currently sits on
    for op in ops:
        if op == "gate_onq":
            n2 = min(6, n + rng.choice([0, 1, 2]))
            img = rng.sample(range(n2), n)
            keys = list(range(n))
            rng.shuffle(keys)               # the map is written in another key order
            case["ops"].append({"op": op, "map": [[q, img[q]] for q in keys], "n": n2})
            n = n2
        elif op == "circ_onq":
            n2 = min(6, n + rng.choice([0, 1, 1]))
            case["ops"].append({"op": op, "perm": rng.sample(range(n2), n), "n": n2})
            n = n2
        elif op == "light_cone":
            case["ops"].append({"op": op})      # cone of the measured qubits (all other gates act on one qubit)
            n = len(ts)
        else:
            case["ops"].append({"op": op})
    return case


def label(case):
    return "+".join(o["op"] for o in case["ops"])


# ------------------------------------------------------------------ building the real objects
def user_value(sp):
    k, v = sp["kind"], sp["value"]
    if k == "none":
        return None
    if k == "float":
        return float(v)
    if k == "list":
        return [float(x) for x in v]
    if k == "tuple":
        return tuple(float(x) for x in v)
    if k == "dict_int":
        return {int(q): int(p) for q, p in v}
    return {int(q): float(p) for q, p in v}


def per_target(sp, ts):
    """the probabilities the user means, per target in order (definition, independent of the real code)"""
    k, v = sp["kind"], sp["value"]
    if k == "none":
        return None
    if k == "float":
        return [float(v)] * len(ts)
    if k in ("list", "tuple"):
        return [float(x) for x in v]
    d = {int(q): float(p) for q, p in v}
    return [d.get(q, 0.0) for q in ts]


def meaning(case):
    ts = case["targets"]
    a, b = per_target(case["p0"], ts), per_target(case["p1"], ts)
    if a is None and b is None:
        a = b = [0.0] * len(ts)
    elif a is None:
        a = b
    elif b is None:
        b = a
    return a, b


def basis_arg(case, rename=None):
    from qibo import gates
    names, kind = case["basis"], case["basis_kind"]
    if kind == "default":
        return {}
    if kind == "class":
        return {"basis": getattr(gates, names[0])}
    if kind == "string":
        return {"basis": names[0]}
    if kind == "list":
        return {"basis": [getattr(gates, b) for b in names]}
    return {"basis": list(names)}


def build_m(case, ts=None, p=None):
    from qibo import gates
    kw = dict(basis_arg(case))
    if case["register_name"] is not None:
        kw["register_name"] = case["register_name"]
    if case["collapse"]:
        kw["collapse"] = True
    u0, u1 = (user_value(case["p0"]), user_value(case["p1"])) if p is None else p
    if u0 is not None:
        kw["p0"] = u0
    if u1 is not None:
        kw["p1"] = u1
    return gates.M(*(case["targets"] if ts is None else ts), **kw), (u0, u1)


def prep_gates(case, qmap):
    """state preparation making every measured outcome deterministic: bit b of qubit q in its measured basis"""
    from qibo import gates
    out = []
    bas = dict(zip(case["targets"], case["basis"]))
    for q in range(case["nq"]):
        if q not in qmap:
            continue
        if case["bits"][q]:
            out.append(gates.X(qmap[q]))
        b = bas.get(q, "Z")
        if b in ("X", "Y"):
            out.append(gates.H(qmap[q]))
        if b == "Y":
            out.append(gates.S(qmap[q]))
    return out


def describe(m):
    return {"targets": list(m.target_qubits),
            "map0": {int(q): float(p) for q, p in m.bitflip_map[0].items()},
            "map1": {int(q): float(p) for q, p in m.bitflip_map[1].items()},
            "basis": [b.__name__ for b in m.basis_gates],
            "rotations": sorted((type(g).__name__, tuple(g.qubits)) for g in m.basis),
            "collapse": bool(m.collapse), "register_name": m.register_name}


def rotation_sites(queue, m):
    """(class name, qubits) of the queue gates standing between the last non-rotation gate and the measurement, that look
    like basis rotations of m's targets (H for X; the Y rotation is a Unitary): counted per qubit"""
    cnt = {}
    idx = max(i for i, g in enumerate(queue) if g is m)
    for g in queue[:idx]:
        cnt[tuple(g.qubits)] = cnt.get(tuple(g.qubits), 0) + 1
    return cnt


# ------------------------------------------------------------------ running one case
def run_case(case):
    """-> (problems [(kind, what)], coq text or None, shown real value or None)"""
    from qibo import Circuit, gates
    P = []
    nq, ts = case["nq"], list(case["targets"])
    try:
        m, users = build_m(case)
    except Exception as ex:  # noqa: BLE001
        return [("construct", f"gates.M{tuple(ts)} with p0={user_value(case['p0'])!r} p1={user_value(case['p1'])!r} raises {type(ex).__name__}: {ex}")], None, None
    users_before = copy.deepcopy(users)
    c = Circuit(nq)
    ident = {q: q for q in range(nq)}
    for g in prep_gates(case, ident):
        c.add(g)
    nprep = len(c.queue)
    c.add(m)
    src_desc = describe(m)
    f = dict(ident)              # composite map: original qubit -> current qubit
    n = nq
    cur_c, cur_m = c, m
    model_ops = []
    shared_result = True
    try:
        for o in case["ops"]:
            op = o["op"]
            if op == "gate_onq":
                qm = {int(a): int(b) for a, b in o["map"]}
                new_m = cur_m.on_qubits(qm)
                if new_m.result is not cur_m.result:
                    P.append(("result", "M.on_qubits does not keep the measurement result object (documented)"))
                f = {q: qm[v] for q, v in f.items()}
                # gate-level relabelling: the circuit around the relabelled gate is rebuilt from scratch
                big = Circuit(o["n"])
                for g in prep_gates(case, f):
                    big.add(g)
                big.add(new_m)
                n = o["n"]
                model_ops.append("MOnQ " + nat_list([qm[q] for q in range(len(qm))]))
                cur_c, cur_m = big, new_m
            elif op == "circ_onq":
                perm = list(o["perm"])
                big = Circuit(o["n"])
                big.add(cur_c.on_qubits(*perm))
                ms = [g for g in big.queue if isinstance(g, gates.M)]
                f = {q: perm[v] for q, v in f.items()}
                n = o["n"]
                model_ops.append("MOnQ " + nat_list(perm))
                cur_c, cur_m = big, ms[-1]
            elif op == "light_cone":
                lc, qm = cur_c.light_cone(*cur_m.target_qubits)
                ms = [g for g in lc.queue if isinstance(g, gates.M)]
                full = [qm.get(q, q) for q in range(n)]
                # qubits outside the cone disappear: the map is only defined on the cone
                f = {q: qm[v] for q, v in f.items() if v in qm}
                model_ops.append("MOnQ " + nat_list(full))
                n = lc.nqubits
                cur_c, cur_m = lc, ms[-1]
            elif op == "copy_deep":
                d = cur_c.copy(deep=True)
                ms = [g for g in d.queue if isinstance(g, gates.M)]
                if ms[-1] is cur_m:
                    P.append(("sharing", "copy(deep=True) shares the measurement gate object with its source"))
                model_ops.append("MKeep")
                cur_c, cur_m = d, ms[-1]
            elif op == "copy":
                d = cur_c.copy()
                model_ops.append("MKeep")
                cur_c, cur_m = d, [g for g in d.queue if isinstance(g, gates.M)][-1]
            elif op == "invert":
                # the inverse keeps trailing measurements; to keep the measured state an eigenstate, invert twice the
                # unitary part:  (c.invert()).invert()  is again "prep ; M"
                d = cur_c.invert().invert()
                model_ops.append("MKeep")
                cur_c, cur_m = d, [g for g in d.queue if isinstance(g, gates.M)][-1]
            elif op == "add":
                pre = cur_c.__class__(**cur_c.init_kwargs)      # same wire names (light_cone sets them)
                pre.add(gates.I(0))
                d = pre + cur_c
                model_ops.append("MKeep")
                cur_c, cur_m = d, [g for g in d.queue if isinstance(g, gates.M)][-1]
            else:
                raise ValueError(op)
    except Exception as ex:  # noqa: BLE001
        P.append(("raises", f"{label(case)} on a circuit ending with {m!r}-like gates.M{tuple(ts)} (p0={users[0]!r}, p1={users[1]!r}) raises {type(ex).__name__}: {ex}"))
        return P, None, None
    # ---- structural comparison with the relabelled description (definition level)
    a, b = meaning(case)
    got = describe(cur_m)
    lost = [q for q in ts if q not in f]
    if lost:
        P.append(("targets", f"measured qubits {lost} dropped from the light cone of their own measurement"))
        return P, None, None
    want_ts = [f[q] for q in ts]
    if got["targets"] != want_ts:
        P.append(("targets", f"target_qubits {got['targets']} expected {want_ts} (order of the measured qubits must be kept)"))
    want0 = {f[q]: p for q, p in zip(ts, a)}
    want1 = {f[q]: p for q, p in zip(ts, b)}
    if got["map0"] != want0 or got["map1"] != want1:
        P.append(("bitflip_map", f"bitflip_map {got['map0']}, {got['map1']} expected {want0}, {want1}: M{tuple(ts)} "
                                 f"p0={users_before[0]!r} p1={users_before[1]!r} after {label(case)} with qubit map {f}"))
    if got["basis"] != case["basis"]:
        P.append(("basis_gates", f"basis_gates {got['basis']} expected {case['basis']}"))
    fresh_m, _ = build_m(case, ts=want_ts, p=(None if users_before[0] is None else remap_user(users_before[0], f),
                                              None if users_before[1] is None else remap_user(users_before[1], f)))
    want_rot = sorted((type(g).__name__, tuple(g.qubits)) for g in fresh_m.basis)
    # light_cone, copy(deep=True) and Circuit.on_qubits re-create the measurement with an EMPTY .basis list: the rotations
    # are gates of the queue and are kept / copied / relabelled with it (repairs 2a564786f and the copy/on_qubits/invert fix);
    # what is checked for them is the queue itself ("every basis rotation exactly once", below) and the sampled frequencies
    light = any(o["op"] in ("light_cone", "copy_deep", "circ_onq") for o in case["ops"])
    if got["rotations"] != want_rot and not light:
        P.append(("basis_rotations", f"basis rotations of the measurement {got['rotations']} expected {want_rot}"))
    if got["collapse"] != case["collapse"]:
        P.append(("collapse", f"collapse={got['collapse']} expected {case['collapse']}"))
    if case["register_name"] is not None and got["register_name"] != case["register_name"]:
        P.append(("register_name", f"register_name {got['register_name']!r} expected {case['register_name']!r}"))
    # ---- inputs not modified
    if not same_user(users, users_before):
        P.append(("mutated", f"the user's p0/p1 containers changed: {users!r} was {users_before!r}"))
    if describe(m) != src_desc and not any(o["op"] in ("copy", "invert", "add") for o in case["ops"]):
        P.append(("mutated", f"the source measurement gate changed: {describe(m)} was {src_desc}"))
    # ---- queue: every basis rotation exactly once (the gates between state preparation and M)
    fresh = Circuit(n)
    for g in prep_gates(case, f):
        fresh.add(g)
    rot_twice = False
    if True:
        fresh.add(fresh_m)
        real_n = sum(1 for g in cur_c.queue if not isinstance(g, (gates.M, gates.I)))
        want_n = sum(1 for g in fresh.queue if not isinstance(g, gates.M))
        if real_n != want_n:
            rot_twice = True
            nz = sorted({bn for bn in case["basis"] if bn != "Z"})
            P.append(("basis_rotations_twice:" + outer_defective(case),
                      f"the circuit derived by {label(case)} holds {real_n} gates before the measurement, a freshly built one {want_n}: "
                      f"the basis rotations ({'/'.join(nz)}) of the measurement are in the queue more than once"))
    # ---- deterministic sampling
    if case["det"] and not case["collapse"] and not rot_twice and not any(p[0] in ("targets", "raises") for p in P):
        bas = dict(zip(ts, case["basis"]))
        bits = []
        for q, p0, p1 in zip(ts, a, b):
            bit = case["bits"][q]
            flip = p0 if bit == 0 else p1
            bits.append(bit ^ int(flip))
        want = {"".join(str(x) for x in bits): 3}
        try:
            fr = dict(cur_c(nshots=3).frequencies())
            ff = dict(fresh(nshots=3).frequencies())
            if ff != want:
                P.append(("oracle", f"freshly built reference circuit samples {ff}, analytic {want}"))
            elif fr != want:
                P.append(("frequencies", f"deterministic readout: the derived circuit samples {fr}, a freshly built circuit on the image qubits {ff}: "
                                         f"M{tuple(ts)} p0={users_before[0]!r} p1={users_before[1]!r} basis={case['basis']} after {label(case)}"))
        except Exception as ex:  # noqa: BLE001
            P.append(("raises", f"executing the circuit derived by {label(case)} raises {type(ex).__name__}: {ex}"))
    # ---- model text
    txt = (f"show (run [{'; '.join(model_ops)}] (mkmeas {nat_list(ts)} {coq_spec(case['p0'])} {coq_spec(case['p1'])} "
           f"{nat_list([BASES.index(x) for x in case['basis']])} {'true' if case['collapse'] else 'false'}))")
    shown = (got["targets"], [eighths(got["map0"].get(q)) for q in got["targets"]], [eighths(got["map1"].get(q)) for q in got["targets"]],
             [BASES.index(x) if x in BASES else 9 for x in got["basis"]], got["collapse"])
    return P, txt, shown


def outer_defective(case):
    ops = [o["op"] for o in case["ops"]]
    for k in ("copy_deep", "circ_onq", "invert"):
        if k in ops:
            return k
    return ops[0]


def remap_user(u, f):
    if isinstance(u, dict):
        return {f[q]: p for q, p in u.items()}
    return copy.deepcopy(u)


def same_user(a, b):
    return repr(a) == repr(b)


def eighths(p):
    if p is None:
        return None
    v = float(p) * 8
    return int(v) if v == int(v) else None


def nat_list(xs):
    return "[" + "; ".join(str(int(x)) for x in xs) + "]" if len(xs) else "(@nil nat)"


def coq_spec(sp):
    k, v = sp["kind"], sp["value"]
    z = lambda p: f"{int(float(p) * 8)}%Z"
    if k == "none":
        return "PNone"
    if k == "float":
        return f"(PScalar {z(v)})"
    if k in ("list", "tuple"):
        return "(PList [" + "; ".join(z(p) for p in v) + "])"
    return "(PDict [" + "; ".join(f"({int(q)}, {z(p)})" for q, p in v) + "])"


def parse_show(s):
    import re
    t = s.replace("%nat", "").replace("%Z", "").replace(";", ",").replace("true", "True").replace("false", "False")
    t = re.sub(r"\bnil\b", "[]", t)
    v = eval(t, {"__builtins__": {}}, {})  # noqa: S307  (Coq output: tuples, lists, ints, booleans)
    return (list(v[0]), list(v[1]), list(v[2]), list(v[3]), bool(v[4]))


# ------------------------------------------------------------------ the stream
def stream(run, rng, ncases):
    from lib import vcore
    for t in vcore.props_theorems("C05/PropsMeas.v"):
        run.oblige(t, True, "static-theorem")
    okpa, pa = vcore.static_assumptions("C05/PropsMeas")
    run.notes["print_assumptions_meas"] = pa
    exprs, pend, seen = [], [], set()
    nfound = 0

    def report(case, kind, what):
        nonlocal nfound
        key = f"meas:{label(case)}:{kind}"
        twice = kind.startswith("basis_rotations_twice")
        if twice:       # one site per defective operation
            key = f"meas:{outer_defective(case)}:{kind}"
        if key in seen or (nfound >= 10 and not twice):
            return
        seen.add(key)
        nfound += 0 if twice else 1
        run.refuted.append("measurement_" + key)
        run.find(key, what, {"meas": case})
    hard = 0
    for i in range(ncases):
        case = make_case(rng, i)
        P, txt, shown = run_case(case)
        run.case(["meas", label(case), case["targets"], case["p0"]["kind"], case["p1"]["kind"], case["basis"], case["collapse"], case["nq"], i])
        if i % 20 == 0:
            run.sample({"measurement": f"M{tuple(case['targets'])}", "p0": case["p0"], "p1": case["p1"], "basis": case["basis"], "operations": label(case)})
        for kind, what in P:
            report(case, kind, what)
            if not kind.startswith("basis_rotations_twice"):
                hard += 1
        if txt is not None:
            exprs.append(txt)
            pend.append((case, shown))
    vals = run.coq_eval("C05_meas.v", MODEL_HEADER, exprs, timeout=300)
    if vals is None:
        run.oblige("correspondence_relabelled_measurements", False, "correspondence")
        run.find("coq:C05_meas", "model evaluation of the measurement cases does not compile", concrete=False)
        return
    for (case, shown), v in zip(pend, vals):
        model = parse_show(v)
        if model != tuple(shown):
            hard += 1
            report(case, "model", f"relabelled measurement (targets, p0*8, p1*8, basis, collapse) = {shown}, model C05/MeasModel.run gives {model}")
    run.oblige("correspondence_relabelled_measurements", hard == 0, "correspondence")
    run.notes["measurement_cases"] = ncases


def replay_case(run, case):
    P, txt, shown = run_case(case)
    if txt is not None:
        vals = run.coq_eval("C05_meas_replay.v", MODEL_HEADER, [txt])
        if vals and parse_show(vals[0]) != tuple(shown):
            P.append(("model", f"real {shown} model {parse_show(vals[0])}"))
    return P
