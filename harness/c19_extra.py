"""C19 helper streams (imported lazily by harness/c19.py).

1. zero_prob_trajectories: exact enumeration of the state-vector trajectories of circuits whose unitary mixtures
   contain EXACT zero probabilities at every position, probabilities summing to exactly one (no identity branch), single /
   repeated operators -- PauliNoiseChannel, UnitaryChannel, DepolarizingChannel (k = 1, 2, 3), and the channels
   inserted by Circuit.with_pauli_noise / NoiseModel (PauliError, UnitaryError, DepolarizingError).  The sampler is
   replaced by an oracle that forces every draw (depth-first over the probability vectors the implementation actually
   hands to it); the gate the backend applies after each draw is spied.  Checked per sampler call: the map
   "operator -> total probability" realised by (probability vector, applied gate) equals the declared mixture
   (Traj.branches / Props.trajectory_branch_index, modulo removal of zero-probability entries =
   Props.zero_probability_operators_irrelevant); per case: weights sum to 1 and the trajectory average equals the real
   density-matrix execution AND the Kraus-sum reference (1e-12, 'test').  Deterministic mixtures (one probability
   exactly 1) are also executed with the REAL sampler through circuit(nshots=...) and compared exactly.
2. noise_history: histories  add* ; apply(c1) ; add ; apply(c2) ; ...  on ONE NoiseModel / IBMQNoiseModel object;
   every apply is compared with a freshly built model holding the accumulated rules (itself tied to the Coq model and to
   the property text by c19.eval_cases / judge) -- Props.noise_history_equals_fresh -- and circuit / rule objects are
   snapshotted around every call.
"""
import hashlib
import json

import numpy as np

from harness import c19 as base

# ------------------------------------------------------------------ operators by name
_S2 = 0.5 ** 0.5
OPS1 = {"I": np.eye(2, dtype=complex), "X": np.array([[0, 1], [1, 0]], dtype=complex),
        "Y": np.array([[0, -1j], [1j, 0]], dtype=complex), "Z": np.diag([1, -1]).astype(complex),
        "H": np.array([[_S2, _S2], [_S2, -_S2]], dtype=complex), "S": np.diag([1, 1j]).astype(complex)}


def op_matrix(name):
    m = np.array([[1]], dtype=complex)
    for ch in name:
        m = np.kron(m, OPS1[ch])
    return m


def _h(obj):
    return hashlib.sha1(json.dumps(obj, sort_keys=True, default=str).encode()).hexdigest()[:10]


# ------------------------------------------------------------------ building a trajectory case
def z_error(err):
    from qibo import noise
    if err[0] == "pauli":
        return noise.PauliError([(p, float(x)) for p, x in err[1]])
    if err[0] == "unitary":
        return noise.UnitaryError([float(p) for p, _ in err[1]], [op_matrix(nm) for _, nm in err[1]])
    if err[0] == "depol":
        return noise.DepolarizingError(float(err[1]))
    raise ValueError(err)


def zbuild(case, dm):
    """-> (circuit, declared) ; declared[i] = the declared mixture [(qubits, matrix, probability)] of the i-th
    UnitaryChannel of the queue, or None when the declaration is not a plain operator list (depolarizing)"""
    from qibo import Circuit, gates
    n = case["n"]
    c = Circuit(n, density_matrix=dm)
    direct = {}
    for st in case["steps"]:
        k = st[0]
        if k == "g":
            c.add(getattr(gates, st[1])(*st[2], *(st[3] if len(st) > 3 else [])))
        elif k == "M":
            c.add(gates.M(*st[1]))
        elif k == "pchan":
            ch = gates.PauliNoiseChannel(tuple(st[1]), [(p, float(x)) for p, x in st[2]])
            direct[id(ch)] = [(tuple(st[1]), op_matrix(p), float(x)) for p, x in st[2]]
            c.add(ch)
        elif k == "uchan":
            ch = gates.UnitaryChannel(tuple(st[1]), [(float(p), op_matrix(nm)) for p, nm in st[2]])
            direct[id(ch)] = [(tuple(st[1]), op_matrix(nm), float(p)) for p, nm in st[2]]
            c.add(ch)
        elif k == "dchan":
            c.add(gates.DepolarizingChannel(tuple(st[1]), float(st[2])))
        else:
            raise ValueError(st)
    att = case.get("attach")
    rows_of = None
    if att is not None and att[0] == "pauli_map":
        kind, m = att[1]
        rows = (lambda q: m) if kind == "list" else (lambda q: dict((int(k), r) for k, r in m).get(q))
        nm = [(p, float(x)) for p, x in m] if kind == "list" else {int(k): [(p, float(x)) for p, x in r] for k, r in m}
        c = c.with_pauli_noise(nm)
        rows_of = lambda ch: [((ch.target_qubits[0],), op_matrix(p), float(x)) for p, x in rows(ch.target_qubits[0])]
    elif att is not None and att[0] == "model":
        from qibo.noise import NoiseModel
        model = NoiseModel()
        errs = []
        for r in att[1]:
            e = z_error(r["err"])
            errs.append((e, r))
            q = r.get("qubits")
            model.add(e, None if r["key"] is None else getattr(gates, r["key"]), None if q is None else tuple(q))
        c = model.apply(c)
        if len(att[1]) == 1 and att[1][0]["err"][0] in ("pauli", "unitary"):
            err = att[1][0]["err"]

            def rows_of(ch, err=err):
                qs = tuple(ch.gates[0].qubits) if ch.gates else tuple(ch.target_qubits)
                if err[0] == "pauli":      # zip(qubits, string): a short string acts on the first qubits only
                    return [(qs[:len(p)], op_matrix(p), float(x)) for p, x in err[1]]
                return [(qs, op_matrix(nm_), float(p)) for p, nm_ in err[1]]
    declared = []
    for g in c.queue:
        if isinstance(g, gates.UnitaryChannel):
            if id(g) in direct:
                declared.append(direct[id(g)])
            elif rows_of is not None and type(g).__name__ in ("PauliNoiseChannel", "UnitaryChannel"):
                try:
                    declared.append(rows_of(g))
                except Exception:
                    declared.append(None)
            else:
                declared.append(None)
    return c, declared


class _Need(Exception):
    def __init__(self, probs):
        self.probs = probs


def _gkey(g, b, n):
    """the operator as a full 2^n x 2^n matrix (harness-owned embedding; -0.0 normalised)"""
    return _mkey(list(g.qubits), np.asarray(g.matrix(b), dtype=complex), n)


def _mkey(qs, m, n):
    qs = [int(q) for q in qs]
    return (base.embed_op(np.asarray(m, dtype=complex), qs, n).round(12) + 0.0).tobytes()


def _mixture(entries):
    """{operator key (None = identity branch): total probability}, zero-probability entries dropped"""
    out = {}
    for key, p in entries:
        if p != 0:
            out[key] = out.get(key, 0.0) + p
    return out


def _same_mixture(a, b):
    return set(a) == set(b) and all(abs(a[k] - b[k]) <= 1e-15 for k in a)


def z_enumerate(case):
    """depth-first over all draw sequences.  Returns dict(rho, total, why=[...], nodes, leaves)"""
    from qibo import gates
    from qibo.backends.numpy import NumpyBackend
    n = case["n"]
    why = []
    leaves = []
    stats = {"nodes": 0}

    def run_prefix(prefix):
        b = NumpyBackend()
        stream = list(prefix)
        probs, cur = [], {"on": False, "applied": None}

        def fake(probabilities, nshots):
            p = [float(x) for x in probabilities]
            if not stream:
                raise _Need(p)
            i = stream.pop(0)
            probs.append(p[i])
            return [i]
        b.sample_shots = fake
        orig = b.apply_gate

        def spy(gate, state, nqubits):
            if cur["on"]:
                cur["applied"].append(gate)
            return orig(gate, state, nqubits)
        b.apply_gate = spy
        c, declared = zbuild(case, False)
        state = b.zero_state(n)
        visits = []
        for g in c.queue:
            if isinstance(g, gates.M):
                continue
            if isinstance(g, gates.UnitaryChannel):
                cur["on"], cur["applied"] = True, []
                k0 = len(probs)
                try:
                    state = g.apply(b, state, n)
                finally:
                    cur["on"] = False
                visits.append((g, [_gkey(a, b, n) for a in cur["applied"]], k0 if len(probs) > k0 else None))
            else:
                state = g.apply(b, state, n)
        return np.asarray(state), probs, visits, declared, b

    def rec(prefix):
        stats["nodes"] += 1
        try:
            state, probs, visits, declared, b = run_prefix(prefix)
        except _Need as need:
            p = need.probs
            depth = len(prefix)
            entries, first = [], None
            for i in range(len(p)):
                sub = rec(prefix + [i])
                if sub is None:
                    return None
                first = first or sub
                vis = next((v for v in sub["visits"] if v[2] == depth), None)
                if vis is None:
                    why.append(f"draws {prefix + [i]}: sampler call #{depth} does not belong to a UnitaryChannel of the queue")
                    return first
                entries.append((tuple(vis[1]) if vis[1] else None, p[i]))
            # ---- tie of this sampler call: (probability vector, applied gate) vs the channel's declared mixture
            ch = next(v for v in first["visits"] if v[2] == depth)[0]
            b = first["backend"]
            want = [((_gkey(g, b, n),), float(cf)) for g, cf in zip(ch.gates, ch.coefficients)]
            want.append((None, 1 - float(np.sum(ch.coefficients))))
            if any(x < -1e-15 for x in p) or abs(sum(p) - 1) > 1e-12:
                why.append(f"draws {prefix}: probability vector {p} handed to the sampler is not a distribution")
            if not _same_mixture(_mixture(entries), _mixture(want)):
                why.append(f"draws {prefix}: channel #{depth} ({type(ch).__name__} on {list(ch.target_qubits)}, coefficients "
                           f"{[float(x) for x in ch.coefficients]}): the operators applied per draw (probabilities {p}) are not the declared "
                           "ones with the declared probabilities")
            return first
        leaf = {"state": state, "p": float(np.prod(probs)) if probs else 1.0, "visits": visits, "declared": declared,
                "backend": b, "prefix": prefix}
        leaves.append(leaf)
        return leaf

    rec([])
    rho = np.zeros((2 ** n, 2 ** n), dtype=complex)
    total = 0.0
    for lf in leaves:
        rho += lf["p"] * np.outer(lf["state"], lf["state"].conj())
        total += lf["p"]
    # ---- declared operator list vs the channel object (constructor level)
    if leaves:
        lf = leaves[0]
        b = lf["backend"]
        for j, ((ch, _, _), decl) in enumerate(zip(lf["visits"], lf["declared"])):
            if decl is None:
                continue
            have = [(_gkey(g, b, n), float(cf)) for g, cf in zip(ch.gates, ch.coefficients)]
            want = [(_mkey(qs, m, n), p) for qs, m, p in decl]
            if have != want:
                why.append(f"channel #{j} ({type(ch).__name__}): gates / coefficients of the channel object are not the declared "
                           "operator list in the declared order")
    return {"rho": rho, "total": total, "why": why, "nodes": stats["nodes"], "leaves": len(leaves)}


def z_check(case):
    """-> list of reasons (empty = fine) and counters"""
    from qibo.backends.numpy import NumpyBackend
    try:
        res = z_enumerate(case)
    except Exception as e:
        return [f"state-vector trajectory execution raises {type(e).__name__}: {str(e)[:120]}"], {"leaves": 0}
    why = list(res["why"])
    if abs(res["total"] - 1) > 1e-12:
        why.append(f"the weights of all draw sequences sum to {res['total']!r}")
    try:
        cd, _ = zbuild(case, True)
        got = np.asarray(NumpyBackend().execute_circuit(cd).state())
        ref = base.reference_dm(list(cd.queue), case["n"])
        d1 = float(np.abs(res["rho"] - got).max())
        d2 = float(np.abs(res["rho"] - ref).max())
        d3 = float(np.abs(got - ref).max())
        if d1 > 1e-12:
            why.append(f"trajectory average differs from the density-matrix execution (max abs diff {d1:.3g})")
        if d2 > 1e-12:
            why.append(f"trajectory average differs from the Kraus-sum definition (max abs diff {d2:.3g})")
        if d3 > 1e-12:
            why.append(f"density-matrix execution differs from the Kraus-sum definition (max abs diff {d3:.3g})")
    except Exception as e:
        why.append(f"density-matrix execution raises {type(e).__name__}: {str(e)[:120]}")
    return why, {"leaves": res["leaves"]}


# ------------------------------------------------------------------ deterministic mixtures with the REAL sampler
def deterministic_case_ok(case, nshots=6):
    """every mixture of `case` has one probability exactly 1 (or all 0): repeated state-vector execution through
    circuit(nshots=...) with the real sampler must reproduce, shot by shot, the circuit with every channel replaced
    by its certain operator (X-type circuits: the outcome is a fixed bit string)"""
    from qibo import Circuit, gates
    c, _ = zbuild(case, False)
    ref = Circuit(case["n"])
    for g in c.queue:
        if isinstance(g, gates.UnitaryChannel):
            for u, cf in zip(g.gates, g.coefficients):
                if cf == 1:
                    ref.add(gates.Unitary(np.asarray(u.matrix(base.backend())), *u.qubits))
        elif isinstance(g, gates.M):
            ref.add(gates.M(*g.target_qubits))
        else:
            ref.add(g.__class__(*g.init_args, **g.init_kwargs))
    np.random.seed(1234)
    got = np.asarray(c(nshots=nshots).samples()).tolist()
    # the expected shots from the final STATE of the reference (a computational basis state): no sampler involved
    b = base.backend()
    st = b.zero_state(case["n"])
    meas = []
    for g in ref.queue:
        if isinstance(g, gates.M):
            meas += list(g.target_qubits)
        else:
            st = g.apply(b, st, case["n"])
    st = np.asarray(st)
    idx = int(np.argmax(np.abs(st)))
    assert abs(abs(st[idx]) - 1) < 1e-12, "reference state is not a basis state"
    bits = [(idx >> (case["n"] - 1 - q)) & 1 for q in range(case["n"])]
    want = [[bits[q] for q in meas]] * nshots
    return got == want, got, want


# ------------------------------------------------------------------ corpus
PATTERNS3 = [[0, 0, 0.375], [0, 0.25, 0], [0.125, 0, 0], [0, 0.25, 0.5], [0.125, 0, 0.5], [0.125, 0.25, 0], [0, 0, 0],
             [0.25, 0.5, 0.25], [0, 0, 1], [0, 1, 0], [1, 0, 0], [0, 0.5, 0.5], [0.5, 0, 0.5], [0.5, 0.5, 0]]
ROWSETS = ([[list(x) for x in zip("XYZ", p)] for p in PATTERNS3]
           + [[[a, p[i]] for i, a in enumerate(perm)] for perm, p in (("ZXY", [0, 0.5, 0.25]), ("YZX", [0, 0, 1]), ("ZYX", [0.25, 0, 0.75]))]
           + [[["Z", 1.0]], [["Y", 0.0]], [["X", 0.5]], [],
              [["X", 0.25], ["X", 0.0], ["X", 0.5]], [["Z", 0.0], ["X", 0.5], ["Z", 0.25]], [["Y", 0.0], ["Y", 0.0], ["Z", 0.5], ["Y", 0.5]]])
PREFIX = [["g", "RY", [0], [0.5]], ["g", "RX", [1], [1.5]], ["g", "CNOT", [0, 1]], ["g", "S", [1]]]
SUFFIX = [["g", "H", [0]], ["g", "CZ", [1, 0]]]


def fixed_cases():
    cases = []
    for i, rows in enumerate(ROWSETS):
        q = i % 2
        if rows:
            cases.append({"n": 2, "steps": PREFIX + [["pchan", [q], rows]] + SUFFIX})
            cases.append({"n": 2, "steps": PREFIX + [["uchan", [q], [[p, a] for a, p in rows]]] + SUFFIX})
        if i % 4 == 0:
            cases.append({"n": 2, "steps": [["g", "RY", [0], [0.5]], ["g", "CNOT", [0, 1]]], "attach": ["pauli_map", ["list", rows]]})
        other = [[], [["Y", 0.0], ["X", 0.0]], [["Z", 0.0]]][i % 3]       # the other qubit: no / zero-strength noise
        cases.append({"n": 2, "steps": [["g", "RY", [q], [0.5]], ["g", "CNOT", [q, 1 - q]], ["g", "H", [1 - q]]],
                      "attach": ["pauli_map", ["dict", [[1 - q, other], [q, rows]]]]})
        if rows:
            if i % 3:
                cases.append({"n": 2, "steps": PREFIX + SUFFIX, "attach": ["model", [{"key": "CNOT", "err": ["pauli", rows], "qubits": [q]}]]})
            else:
                cases.append({"n": 2, "steps": PREFIX[:3], "attach": ["model", [{"key": None, "err": ["pauli", rows], "qubits": [q]}]]})
            cases.append({"n": 2, "steps": PREFIX[:3] + SUFFIX[:1],
                          "attach": ["model", [{"key": "RX" if i % 3 == 0 else "CNOT", "err": ["unitary", [[p, a] for a, p in rows]], "qubits": [1]}]]})
    # two-qubit Pauli strings and two-qubit unitaries with zeros at every position
    two = [[["XZ", 0.0], ["ZI", 0.5], ["YY", 0.0], ["IX", 0.25]], [["ZZ", 0.0], ["XX", 0.0], ["YZ", 1.0]], [["XY", 1.0], ["ZZ", 0.0]]]
    for rows in two:
        cases.append({"n": 3, "steps": [["g", "RY", [0], [0.5]], ["g", "H", [2]], ["g", "CNOT", [0, 1]], ["pchan", [2, 0], rows], ["g", "S", [2]], ["g", "H", [0]]]})
        cases.append({"n": 3, "steps": [["g", "RX", [1], [0.5]], ["g", "H", [2]], ["uchan", [1, 2], [[p, a] for a, p in rows]], ["g", "CZ", [2, 0]]]})
        cases.append({"n": 2, "steps": [["g", "H", [0]], ["g", "CNOT", [1, 0]], ["g", "S", [0]]],
                      "attach": ["model", [{"key": "CNOT", "err": ["unitary", [[p, a] for a, p in rows]], "qubits": None}]]})
    # depolarizing k = 1, 2, 3, strengths 0 / 0.25 / 1 (direct and through DepolarizingError)
    for lam in (0, 0.25, 1):
        cases.append({"n": 2, "steps": PREFIX + [["dchan", [1], lam]] + SUFFIX})
        cases.append({"n": 3, "steps": [["g", "RY", [0], [0.5]], ["g", "H", [2]], ["g", "S", [2]], ["dchan", [2, 0], lam], ["g", "CNOT", [2, 1]]]})
        cases.append({"n": 2, "steps": [["g", "H", [0]], ["g", "S", [0]], ["g", "CNOT", [1, 0]]],
                      "attach": ["model", [{"key": "CNOT", "err": ["depol", lam], "qubits": None}]]})
        cases.append({"n": 2, "steps": [["g", "H", [0]], ["g", "S", [0]], ["g", "CNOT", [1, 0]]],
                      "attach": ["model", [{"key": None, "err": ["depol", lam], "qubits": [0]}]]})
    cases.append({"n": 3, "steps": [["g", "H", [0]], ["g", "S", [0]], ["g", "RX", [1], [0.5]], ["g", "TOFFOLI", [1, 2, 0]]],
                  "attach": ["model", [{"key": "TOFFOLI", "err": ["depol", 0.25], "qubits": None}]]})
    cases.append({"n": 3, "steps": [["g", "H", [0]], ["g", "CNOT", [0, 1]], ["g", "RX", [2], [0.5]], ["dchan", [2, 0, 1], 0.25], ["g", "S", [1]]]})
    return cases


def fixed_deterministic_cases():
    cases = []
    for rows in ([["X", 0], ["Y", 0], ["Z", 1.0]], [["X", 0], ["Y", 1.0], ["Z", 0]], [["X", 1.0], ["Y", 0], ["Z", 0]],
                 [["Z", 0.0], ["X", 1.0]], [["Z", 1.0], ["X", 0.0]], [["Y", 0.0], ["Z", 0.0], ["X", 0.0]], [["X", 1.0]],
                 [["Z", 0], ["Z", 0], ["Y", 1.0]]):
        cases.append({"n": 2, "steps": [["g", "X", [1]], ["pchan", [0], rows], ["g", "CNOT", [0, 1]], ["pchan", [1], rows], ["M", [0, 1]]]})
        cases.append({"n": 2, "steps": [["g", "X", [0]], ["g", "CNOT", [0, 1]], ["M", [1]], ["M", [0]]], "attach": ["pauli_map", ["list", rows]]})
        cases.append({"n": 2, "steps": [["g", "X", [0]], ["g", "CNOT", [0, 1]], ["M", [0, 1]]],
                      "attach": ["model", [{"key": "CNOT", "err": ["unitary", [[p, a] for a, p in rows]], "qubits": [1]}]]})
    cases.append({"n": 2, "steps": [["g", "X", [0]], ["uchan", [0, 1], [[0.0, "XX"], [0.0, "ZZ"], [1.0, "IX"]]], ["M", [0, 1]]]})
    cases.append({"n": 2, "steps": [["g", "X", [0]], ["pchan", [1, 0], [["XI", 0.0], ["IX", 1.0], ["XX", 0.0]]], ["M", [0, 1]]]})
    return cases


def gen_zero_case(rng):
    n = rng.randint(1, 3)
    vals = [0, 0, 0, 0.125, 0.25, 0.5]

    def rows():
        k = rng.choice([1, 2, 3, 3, 4])
        names = [rng.choice("XYZ") for _ in range(k)]
        ps = [rng.choice(vals) for _ in range(k)]
        if rng.random() < 0.35:      # make the probabilities sum to exactly one (dyadic values: exact)
            j = rng.randrange(k)
            rest = sum(p for i, p in enumerate(ps) if i != j)
            if rest <= 1:
                ps[j] = 1 - rest
        if sum(ps) > 1:
            ps = [p / 4 for p in ps]
        return [[a, p] for a, p in zip(names, ps)]
    arity = {"H": 1, "S": 1, "RX": 1, "RY": 1, "CNOT": 2, "CZ": 2}
    steps, branches = [], 1
    mode = rng.choice(["direct", "direct", "pauli_map", "model"])
    for _ in range(rng.randint(2, 5 if mode == "direct" else 3)):
        if mode == "direct" and rng.random() < 0.45 and branches <= 40:
            r = rows()
            q = rng.randrange(n)
            kind = rng.choice(["pchan", "uchan", "dchan"])
            if kind == "pchan":
                steps.append(["pchan", [q], r])
            elif kind == "uchan":
                steps.append(["uchan", [q], [[p, rng.choice("XYZHS") if rng.random() < 0.4 else a] for a, p in r]])
            else:
                k = 2 if (n >= 2 and rng.random() < 0.3) else 1
                steps.append(["dchan", rng.sample(range(n), k), rng.choice([0, 0.25, 1])])
                r = [0] * (4 ** k - 1)
            branches *= len(r) + 1
        else:
            name = rng.choice([g for g in arity if arity[g] <= n])
            steps.append(["g", name, rng.sample(range(n), arity[name])] + ([[rng.choice([0.5, 1.5, 2.5])]] if name in ("RX", "RY") else []))
    case = {"n": n, "steps": steps}
    if mode == "pauli_map":
        if rng.random() < 0.5:
            case["attach"] = ["pauli_map", ["list", rows()[:3]]]
        else:
            case["attach"] = ["pauli_map", ["dict", [[q, rows()[:3]] for q in range(n)]]]
    elif mode == "model":
        r = rows()[:3]
        err = rng.choice([["pauli", r], ["unitary", [[p, a] for a, p in r]], ["depol", rng.choice([0, 0.25, 1])]])
        qs = [rng.randrange(n)] if err[0] == "unitary" else rng.choice([None, [rng.randrange(n)]])
        case["attach"] = ["model", [{"key": rng.choice([None, "H", "CNOT", "RX"]), "err": err, "qubits": qs}]]
    return case


def _prob_lists(case):
    out = []
    for st in case["steps"]:
        if st[0] == "pchan":
            out.append([x for _, x in st[2]])
        elif st[0] == "uchan":
            out.append([p for p, _ in st[2]])
    att = case.get("attach")
    if att and att[0] == "pauli_map":
        kind, m = att[1]
        out += [[x for _, x in m]] if kind == "list" else [[x for _, x in rows] for _, rows in m]
    elif att:
        for r in att[1]:
            if r["err"][0] == "pauli":
                out.append([x for _, x in r["err"][1]])
            elif r["err"][0] == "unitary":
                out.append([p for p, _ in r["err"][1]])
    return out


def zero_before_positive(case):
    return any(any(l[i] == 0 and any(x > 0 for x in l[i + 1:]) for i in range(len(l))) for l in _prob_lists(case))


def zero_prob_trajectories(run, rng, count):
    stats = {"cases": 0, "leaves": 0, "with_zero_before_positive": 0, "deterministic": 0}
    for case in fixed_cases() + [gen_zero_case(rng) for _ in range(count)]:
        why, st = z_check(case)
        stats["cases"] += 1
        stats["leaves"] += st["leaves"]
        stats["with_zero_before_positive"] += bool(zero_before_positive(case))
        stats["sum_to_one"] = stats.get("sum_to_one", 0) + bool(any(l and sum(l) == 1 for l in _prob_lists(case)))
        run.case(["trajectory_zero", case], nontrivial=st["leaves"] > 1)
        if why:
            run.find(f"trajectory:zero:{_h(case)}", "state-vector trajectories of a unitary mixture with exact-zero / sum-to-one "
                     "probabilities do not realise the declared mixture: " + "; ".join(why[:3])[:700], {"zcase": case, "why": why[:6]})
    for case in fixed_deterministic_cases():
        run.case(["trajectory_deterministic", case])
        stats["deterministic"] += 1
        try:
            ok, got, want = deterministic_case_ok(case)
            msg = f"samples {got} instead of {want}"
        except Exception as e:
            ok, msg = False, f"raises {type(e).__name__}: {str(e)[:120]}"
        if not ok:
            run.find(f"trajectory:deterministic:{_h(case)}", "repeated state-vector execution (real sampler) of a circuit whose mixtures have "
                     "one probability exactly 1 does not apply that operator: " + msg, {"dcase": case})
    return stats


def replay_zero(run, key, what, rp):
    if "zcase" in rp:
        why, _ = z_check(rp["zcase"])
        if why:
            run.find(key, what, {"zcase": rp["zcase"], "why": why[:6]})
    elif "dcase" in rp:
        try:
            ok, got, want = deterministic_case_ok(rp["dcase"])
        except Exception:
            ok = False
        if not ok:
            run.find(key, what, rp)


# ====================================================================================================================
# 2. histories on one NoiseModel object
# ====================================================================================================================
def add_rule(nm, opts, r, customs, err_cache=None):
    from qibo import gates
    key = None if r["key"] is None else getattr(gates, r["key"])
    q = r["qubits"]
    if isinstance(q, list):
        q = tuple(q)
    conds = r.get("conds")
    if conds is not None:
        conds = [base.make_cond(c) for c in conds]
        if r.get("single_callable") and len(conds) == 1:
            conds = conds[0]
    ek = json.dumps(r["err"])
    if err_cache is not None and r.get("share_error") and ek in err_cache:
        err = err_cache[ek]        # the SAME error object registered under several keys
    else:
        err = base.make_error(opts, r["err"], customs)
        if err_cache is not None:
            err_cache[ek] = err
    nm.add(err, key, q, conds)


def _opt_repr(o):
    if isinstance(o, np.ndarray):
        return ("nd", o.shape, o.tobytes())
    if isinstance(o, (list, tuple)):
        return tuple(_opt_repr(x) for x in o)
    return repr(o)


def rules_snapshot(nm):
    out = {}
    for k, lst in nm.errors.items():
        if lst:
            out[getattr(k, "__name__", None)] = [(id(c), None if c is None else tuple(id(x) for x in c), id(e),
                                                  _opt_repr(getattr(e, "options", None)),
                                                  _opt_repr(getattr(getattr(e, "channel", None), "init_args", None)) if type(e).__name__ == "CustomError" else None,
                                                  q) for c, e, q in lst]
    return out


def run_history(hist):
    """execute the history on ONE model object -> per apply: dict(out, error, mutated, rules_mutated, case)"""
    from qibo import noise
    opts = {**base.default_opts(), **(hist.get("opts") or {})}
    customs = [base.make_channel(opts, d[0], d[1], d[2]) for d in hist.get("customs", [])]
    nm = noise.IBMQNoiseModel() if hist.get("ibmq_class") else noise.NoiseModel()
    acc, err_cache, res, held = [], {}, [], []
    ibmq = None
    circuits = {}
    for op in hist["ops"]:
        if op[0] == "add":
            add_rule(nm, opts, op[1], customs, err_cache)
            acc.append(op[1])
        elif op[0] == "from_dict":
            nm.from_dict(op[1])
            ibmq = op[1]
        else:
            spec = op[1]
            case = {"n": hist["n"], "dm": spec.get("dm", hist.get("dm", False)), "gates": spec["gates"], "customs": hist.get("customs", []),
                    "rules": list(acc), "mode": "history"}
            if hist.get("opts"):
                case["opts"] = hist["opts"]
            if ibmq is not None:
                case["ibmq"], case["ibmq_tags"] = ibmq, hist["ibmq_tags"]
            ck = spec.get("reuse")
            if ck is not None and ck in circuits:
                c = circuits[ck]            # the same circuit object applied again
            else:
                c = base.build_circuit(case)
                if ck is not None:
                    circuits[ck] = c
            inp = list(c.queue)
            before, rb = base.snapshot(c), rules_snapshot(nm)
            r = {"case": case, "error": None, "out": None}
            try:
                out = nm.apply(c)
                r["out"] = base.tolist(base.canon_queue(opts, list(out.queue), inp, customs))
                r["meas"] = [x[1][0] for x in base.canon_queue(opts, list(out.measurements), inp, customs) if x[0] == 0]
            except Exception as e:
                r["error"] = type(e).__name__
            after = base.snapshot(c)
            r["mutated"] = None if before == after else base._diff(before, after)
            r["rules_mutated"] = rules_snapshot(nm) != rb
            r["changed_later"] = False
            if r["out"] is not None:
                held.append((out, inp, r))
            res.append(r)
    # outputs of earlier calls must not change when later rules are added / later circuits are processed
    for out, inp, r in held:
        try:
            now = base.tolist(base.canon_queue(opts, list(out.queue), inp, customs))
        except Exception:
            now = None
        if now != r["out"]:
            r["changed_later"] = True
    return res


def history_findings(run, hist, res, fresh, label):
    """compare every apply of the history with the fresh model (c19.eval_cases results) and the property text"""
    bad = []
    for i, (r, f) in enumerate(zip(res, fresh)):
        fr = f["real"]
        why = []
        if fr["error"] or r["error"]:
            fe = None if not fr["error"] else ("KeyError" if fr["error"] == "KeyError" else fr["error"].split(":")[1].strip())
            if fe != r["error"]:
                why.append(f"apply raises {r['error']} on the long-lived model, {fe} on a fresh model with the same rules")
        else:
            if r["out"] != base.tolist(fr["out"]):
                why.append("queue differs from the apply of a freshly built model holding the same rule list")
            if r["out"] != f["spec"]:
                why.append("queue is not the one the accumulated rules prescribe")
            if r["meas"] != fr["meas_after"]:
                why.append("measurement list differs from the fresh model's")
        if r["mutated"]:
            why.append("input circuit mutated: " + "; ".join(r["mutated"])[:200])
        if r["rules_mutated"]:
            why.append("the registered rules (error objects / options / qubits / conditions) changed during apply")
        if r.get("changed_later"):
            why.append("the noisy circuit returned by this apply changed after later add / apply calls")
        if why:
            bad.append((i, why, r, f))
    if bad:
        i, why, r, f = bad[0]
        run.find(f"history:{label}:{_h(hist)}", f"NoiseModel object after a history of add / apply operations, apply #{i}: " + "; ".join(why)[:500],
                 {"history": hist, "apply_index": i, "real": r["out"], "fresh": f["real"].get("out"), "prescribed": f["spec"]})
    return len(bad)


# ---- corpus
def _rule(key, err, qubits=None, conds=None, **kw):
    return dict({"key": key, "err": err, "qubits": qubits, "conds": conds}, **kw)


G1 = [["H", [0]], ["CNOT", [0, 1]], ["RX", [1], [0.5]], ["CZ", [1, 0]], ["M", [0], {}]]
G2 = [["RX", [0], [1.5]], ["H", [1]], ["X", [0]], ["CNOT", [1, 0]], ["M", [1, 0], {}]]
G3 = [["H", [1]], ["H", [0]], ["TOFFOLI", [0, 1, 2]], ["chan", "pauli", [0], 0], ["CZ", [0, 2]], ["M", [2], {}]]


def fixed_histories():
    P, D, RO = ["pauli", 0], ["depol", 1], ["readout", 0]
    late = [_rule(None, D), _rule(None, D, [0]), _rule(None, D, None, [["two"]]), _rule(None, ["amp", 1], [1, 0], [["single"]], single_callable=True),
            _rule("H", ["thermal", 0]), _rule("CNOT", D, [1]), _rule("TOFFOLI", ["depol", 2]), _rule("M", RO, 0), _rule("M", RO),
            _rule("PauliNoiseChannel", ["phase", 1]), _rule(None, ["unitary", 1, 0]), _rule(None, ["kraus", 1, 0], [1]),
            _rule(None, ["custom", 0]), _rule(None, P, None, [["param_gt", 1.0]])]
    hs = []
    for j, lr in enumerate(late):
        first = [[], [_rule("H", P)], [_rule(None, P, [0]), _rule("CNOT", ["reset", 1])]][j % 3]
        ops = [["add", r] for r in first] + [["apply", {"gates": G1}]] + [["add", lr]] + [["apply", {"gates": G1}], ["apply", {"gates": G2}]]
        hs.append({"n": 3, "dm": bool(j % 2), "customs": [["pauli", [1], 0]], "ops": ops})
        # several circuits first (all classes cached), then a late rule, then circuits with seen and unseen classes
        ops = ([["apply", {"gates": G1}], ["apply", {"gates": G3}]] + [["add", lr]] + [["apply", {"gates": G3, "reuse": "a"}]]
               + [["add", dict(late[(j + 3) % len(late)], share_error=True)]] + [["apply", {"gates": G3, "reuse": "a"}], ["apply", {"gates": G2}]])
        hs.append({"n": 3, "dm": bool((j + 1) % 2), "customs": [["amp", [0], 0]], "ops": ops})
    # the very same rule registered twice -- identical (conditions, error object, qubits) under the same key: the model
    # (a rule LIST) prescribes the channel twice; a registry that silently de-duplicates equal rules drops one
    for j, (key, err, qubits) in enumerate([(None, P, None), (None, D, [0]), ("H", P, None), ("CNOT", D, None), ("CNOT", ["reset", 1], [1]),
                                            ("M", RO, None), (None, ["unitary", 1, 0], None), ("TOFFOLI", ["depol", 2], None)]):
        r = _rule(key, err, qubits, None, share_error=True)
        for ops in ([["add", r], ["add", r], ["apply", {"gates": G1}], ["apply", {"gates": G3}]],
                    [["add", r], ["apply", {"gates": G1}], ["add", r], ["apply", {"gates": G1}], ["apply", {"gates": G2}]]):
            hs.append({"n": 3, "dm": bool(j % 2), "customs": [["pauli", [1], 0]], "ops": ops})
    return hs


def gen_history(rng):
    basec = base.gen_case(rng, "wild")
    n = basec["n"]
    rules = basec["rules"] + base.gen_case(rng, "wild")["rules"][:2]
    for r in rules:      # rules of the second draw may name qubits / customs of another register
        if isinstance(r["qubits"], list):
            r["qubits"] = [q % (n + 1) for q in r["qubits"]]
        elif isinstance(r["qubits"], int):
            r["qubits"] = r["qubits"] % n
        if r["err"][0] == "custom" and r["err"][1] >= len(basec["customs"]):
            r["err"] = ["pauli", 0]
        for c in (r.get("conds") or []):
            if c[0] == "qubits" and c[1] is not None:
                c[1] = [q % n for q in c[1]]
        if rng.random() < 0.25:
            r["share_error"] = True
    rng.shuffle(rules)
    circs = [basec["gates"]] + [base.gen_circuit(rng, n, rng.randint(1, 8), clean_meas=False, with_channels=True) for _ in range(rng.randint(1, 3))]
    if any(r["err"][0] == "readout" and r["key"] in (None, "H") for r in rules):
        for gs in circs:
            for g in gs:
                if g[0] == "M":
                    g[2]["basis"] = "Z"
    ops = []
    k0 = rng.randint(0, min(2, len(rules)))
    pending = list(rules)
    for _ in range(k0):
        ops.append(["add", pending.pop(0)])
    napply = rng.randint(2, 4)
    for a in range(napply):
        spec = {"gates": rng.choice(circs)}
        if rng.random() < 0.3:
            spec["reuse"] = f"c{rng.randrange(2)}"
            spec["gates"] = circs[int(spec["reuse"][1]) % len(circs)]
        ops.append(["apply", spec])
        for _ in range(rng.randint(1, 2)):
            if pending and a < napply - 1:
                r = pending.pop(0)
                if rng.random() < 0.5:
                    r = dict(r, key=None)
                    if r["err"][0] == "readout":
                        r["err"] = ["depol", 1]
                ops.append(["add", r])
    return {"n": n, "dm": basec["dm"], "customs": basec["customs"], "ops": ops}


def gen_ibmq_history(rng):
    basec = base.gen_ibmq(rng)
    n = basec["n"]
    circs = [basec["gates"]] + [base.gen_circuit(rng, n, rng.randint(2, 7), clean_meas=True, with_channels=False) for _ in range(2)]
    ops = [["apply", {"gates": circs[1], "dm": True}]]
    if rng.random() < 0.5:
        ops.append(["apply", {"gates": circs[0], "dm": True}])
    ops.append(["from_dict", basec["ibmq"]])
    ops += [["apply", {"gates": g, "dm": True}] for g in (circs[0], circs[1], circs[2])]
    return {"n": n, "dm": True, "customs": [], "ibmq_class": True, "ibmq_tags": basec["ibmq_tags"], "opts": basec["opts"], "ops": ops}


def noise_history(run, rng, count, count_ibmq):
    stats = {"histories": 0, "applies": 0, "applies_after_late_add": 0, "failing": 0}
    hists = [("fixed", h) for h in fixed_histories()] + [("random", gen_history(rng)) for _ in range(count)] \
        + [("ibmq", gen_ibmq_history(rng)) for _ in range(count_ibmq)]
    all_res, cases = [], []
    for label, h in hists:
        try:
            res = run_history(h)
        except Exception as e:
            run.find(f"history:{label}:raises:{_h(h)}", f"history on one NoiseModel object raises {type(e).__name__}: {str(e)[:160]}", {"history": h})
            res = None
        all_res.append(res)
        if res is not None:
            cases += [r["case"] for r in res]
    fresh = base.eval_cases(run, cases, "C19_history") if cases else []
    if fresh is None:
        return stats
    explained = set()
    st = base.judge(run, fresh, explained, "history-fresh")
    pos = 0
    for (label, h), res in zip(hists, all_res):
        if res is None:
            continue
        fr = fresh[pos:pos + len(res)]
        pos += len(res)
        stats["histories"] += 1
        stats["applies"] += len(res)
        seen_apply = False
        for op in h["ops"]:
            if op[0] == "apply":
                seen_apply = True
            elif seen_apply:
                stats["applies_after_late_add"] += 1
        run.case(["history", label, h], nontrivial=len(res) >= 2)
        stats["failing"] += history_findings(run, h, res, fr, label)
    stats["fresh_stream"] = st
    return stats


def pauli_history_check(h):
    """one circuit object, several maps in sequence: every output equals the output on a fresh circuit, earlier outputs
    stay what they were, the circuit is not mutated"""
    def maps(m):
        kind, mm = m
        return base.pauli_rows(mm) if kind == "list" else {k: base.pauli_rows(rows) for k, rows in mm}

    def canon(out, inp):
        ids = {id(g): i for i, g in enumerate(inp)}
        return [(0, ids[id(g)]) if id(g) in ids else
                (1, tuple(int(x) for x in g.target_qubits), tuple(sorted((k, float(v)) for k, v in g.init_kwargs.items())), type(g).__name__)
                for g in out.queue]
    case = {"n": h["n"], "gates": h["gates"], "dm": h.get("dm", False)}
    c = base.build_circuit(case)
    inp = list(c.queue)
    before = base.snapshot(c)
    why, held = [], []
    for j, m in enumerate(h["maps"]):
        fresh = base.build_circuit(case)
        try:
            want = canon(fresh.with_pauli_noise(maps(m)), list(fresh.queue))
        except ValueError:
            want = "ValueError"
        try:
            out = c.with_pauli_noise(maps(m))
            got = canon(out, inp)
            held.append((out, got, j))
        except ValueError:
            got = "ValueError"
        if got != want:
            why.append(f"call #{j} on the long-lived circuit differs from the same call on a freshly built circuit")
    for out, got, j in held:
        if canon(out, inp) != got:
            why.append(f"the circuit returned by call #{j} changed after later calls")
    if base.snapshot(c) != before:
        why.append("the input circuit was mutated")
    return why


def pauli_histories(run, rng, count):
    n_ = 0
    for _ in range(count):
        c0 = base.gen_pauli_case(rng)
        ms = [c0["map"]]
        while len(ms) < 3:
            c1 = base.gen_pauli_case(rng)
            if c1["n"] == c0["n"]:
                ms.append(c1["map"])
        h = {"n": c0["n"], "gates": c0["gates"], "dm": c0["dm"], "maps": ms}
        run.case(["pauli_history", h])
        n_ += 1
        try:
            why = pauli_history_check(h)
        except Exception as e:
            why = [f"raises {type(e).__name__}: {str(e)[:120]}"]
        if why:
            run.find(f"history:pauli:{_h(h)}", "Circuit.with_pauli_noise called several times on one circuit: " + "; ".join(why)[:400], {"pauli_history": h})
    return n_


def replay_history(run, key, what, rp):
    if "pauli_history" in rp:
        why = pauli_history_check(rp["pauli_history"])
        if why:
            run.find(key, what, rp)
        return
    h = rp["history"]
    try:
        res = run_history(h)
    except Exception as e:
        run.find(key, what + f" | raises {type(e).__name__}", rp)
        return
    fresh = base.eval_cases(run, [r["case"] for r in res], "C19_history_replay")
    if fresh is None:
        return
    label = "ibmq" if h.get("ibmq_class") else "replay"
    n0 = len(run.findings)
    history_findings(run, h, res, fresh, label)
    for f in run.findings[n0:]:
        f.key = key
