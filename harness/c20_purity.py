"""C20 helper stream: the library constructors are FUNCTIONS of their arguments (imported lazily by harness/c20.py).

For EVERY constructor of the property (QFT, comp_basis_encoder, phase_encoder, unary_encoder, unary_encoder_random_gaussian,
binary_encoder, hamming_weight_encoder, ghz_state, entangling_layer) a history of operations is executed:

    build(desc)        call the constructor (fresh copies of the arguments), snapshot the returned circuit right away
                       (gate classes / qubits / controls / parameters / matrices, executed final state, init kwargs)
    mutate(i, how)     the caller changes ONE returned circuit (set_parameters, gate.parameters = ..., add(gate))
    rebuild(i)         the constructor is called again with the arguments of circuit i: must equal i's ORIGINAL snapshot
    execute(i)         run an earlier circuit again

and checked after every step: every earlier snapshot still holds (outputs of earlier calls do not change when later
calls happen or when another returned circuit is mutated); no gate object of the new circuit `is` a gate object of
any earlier circuit or reachable from the modules' globals; user-supplied data (arrays, lists) not mutated.
Model statement: C20/Store.v (Props.constructor_outputs_independent: circuits with disjoint gate objects cannot
influence each other through set_parameters; shared_gate_objects_refuted: with a shared gate object they do).
"""
import copy
import hashlib
import json
import re
import warnings

import numpy as np

_BACKEND = None


def backend():
    global _BACKEND
    if _BACKEND is None:
        from qibo.backends.numpy import NumpyBackend
        _BACKEND = NumpyBackend()
    return _BACKEND


def _h(obj):
    return hashlib.sha1(json.dumps(obj, sort_keys=True, default=str).encode()).hexdigest()[:10]


def _data(d):
    """JSON description of a data vector -> numpy array (pairs = complex entries)"""
    if d and isinstance(d[0], list):
        return np.array([complex(a, b) for a, b in d])
    return np.array(d, dtype=float)


def make_args(desc):
    """fresh argument objects for one constructor call -> (callable, args, kwargs, user_inputs)"""
    from qibo import gates
    from qibo.models import QFT
    from qibo.models import encodings as E
    a = desc["args"]
    t = desc["ctor"]
    kw = dict(desc.get("kwargs") or {})
    if t == "QFT":
        return QFT, (a["n"],), dict(kw, with_swaps=a["with_swaps"]), []
    if t == "comp_basis":
        be = a["basis_element"]
        be = list(be) if isinstance(be, list) else be
        return E.comp_basis_encoder, (be,), dict(kw, nqubits=a.get("nqubits")), [be]
    if t == "phase":
        d = np.array(a["data"], dtype=float) if a.get("array", True) else list(a["data"])
        return E.phase_encoder, (d,), dict(kw, rotation=a["rotation"]), [d]
    if t == "unary":
        d = _data(a["data"])
        return E.unary_encoder, (d,), dict(kw, architecture=a["architecture"]), [d]
    if t == "unary_gauss":
        return E.unary_encoder_random_gaussian, (a["n"],), dict(kw, architecture="tree", seed=a["seed"]), []
    if t == "binary":
        d = _data(a["data"])
        return E.binary_encoder, (d,), dict(kw, parametrization=a["parametrization"]), [d]
    if t == "hw":
        d = _data(a["data"])
        return E.hamming_weight_encoder, (d, a["n"], a["k"]), dict(kw, optimize_controls=a.get("optimize_controls", True)), [d]
    if t == "ghz":
        return E.ghz_state, (a["n"],), kw, []
    if t == "layer":
        g = a["gate"]
        g = getattr(gates, g[4:]) if g.startswith("cls:") else g
        return E.entangling_layer, (a["n"],), dict(kw, architecture=a["architecture"], entangling_gate=g,
                                                  closed_boundary=a.get("closed_boundary", False)), []
    raise ValueError(t)


def _val(x):
    if isinstance(x, np.ndarray):
        return ("nd", x.shape, str(x.dtype), x.tobytes())
    if isinstance(x, (list, tuple)):
        return tuple(_val(y) for y in x)
    return repr(x)


def snap(c):
    """deep structural snapshot of a circuit, including its execution on the zero state"""
    b = backend()
    gl = []
    for g in c.queue:
        try:
            m = (np.asarray(g.matrix(b), dtype=complex) + 0.0).tobytes()
        except Exception:
            m = None
        try:
            par = tuple(complex(p) for p in np.ravel(np.asarray(g.parameters, dtype=complex)))
        except Exception:
            par = repr(g.parameters)
        gl.append((type(g).__name__, tuple(g.control_qubits), tuple(g.target_qubits), par, m, bool(getattr(g, "trainable", True))))
    with warnings.catch_warnings():      # gate by gate: Circuit.execute would freeze the circuit (no add afterwards)
        warnings.simplefilter("ignore")
        st = b.zero_state(c.nqubits)
        for g in c.queue:
            st = g.apply(b, st, c.nqubits)
        st = np.asarray(st)
    return {"n": c.nqubits, "gates": gl, "state": (st + 0.0).tobytes(), "kwargs": repr(sorted(c.init_kwargs.items(), key=str)),
            "nparams": len(c.get_parameters())}


def snap_diff(a, b):
    out = []
    if a["n"] != b["n"]:
        out.append("nqubits")
    if len(a["gates"]) != len(b["gates"]):
        out.append(f"number of gates {len(a['gates'])} -> {len(b['gates'])}")
    else:
        for i, (x, y) in enumerate(zip(a["gates"], b["gates"])):
            if x != y:
                what = [nm for nm, u, v in zip(("class", "controls", "targets", "parameters", "matrix", "trainable"), x, y) if u != v]
                out.append(f"gate {i} ({x[0]} on {x[1] + x[2]}): {', '.join(what)}"
                           + (f" {x[3]} -> {y[3]}" if "parameters" in what else ""))
                if len(out) >= 3:
                    break
    if a["state"] != b["state"] and not out:
        out.append("executed state")
    if a["kwargs"] != b["kwargs"]:
        out.append("init_kwargs")
    return out


def module_gate_ids():
    """ids of Gate objects reachable from the globals of the constructor modules (templates / tables)"""
    from qibo import gates
    from qibo.models import encodings, qft
    from qibo.models.circuit import Circuit
    seen, ids = set(), set()

    def walk(o, depth):
        if id(o) in seen or depth > 4:
            return
        seen.add(id(o))
        if isinstance(o, gates.Gate):
            ids.add(id(o))
        elif isinstance(o, Circuit):
            for g in o.queue:
                walk(g, depth + 1)
        elif isinstance(o, dict):
            for v in o.values():
                walk(v, depth + 1)
        elif isinstance(o, (list, tuple, set)):
            for v in o:
                walk(v, depth + 1)
    for mod in (encodings, qft):
        for v in vars(mod).values():
            if isinstance(v, (dict, list, tuple, set, Circuit, gates.Gate)):
                walk(v, 0)
    return ids


def sub_gates(c):
    out = []
    for g in c.queue:
        out.append(g)
        out.extend(getattr(g, "gates", []) or [])
    return out


def do_mutation(c, how, rng_vals):
    """the caller modifies a circuit it received"""
    from qibo import gates
    if how == "set_parameters":
        ps = c.get_parameters("flatlist")
        if not ps:
            how = "add"
        else:
            c.set_parameters([rng_vals[i % len(rng_vals)] + 0.1 * i for i in range(len(ps))])
            return how
    if how == "gate_parameters":
        pg = [g for g in c.queue if isinstance(g, gates.ParametrizedGate) and g.nparams == 1]
        if not pg:
            how = "add"
        else:
            pg[0].parameters = rng_vals[0]
            pg[-1].parameters = rng_vals[-1]
            return how
    if getattr(c, "_final_state", None) is not None:      # executed circuits are frozen
        return "none"
    c.add(gates.X(0))
    c.add(gates.RY(c.nqubits - 1, rng_vals[0]))
    return "add"


def run_history(hist):
    """-> list of (step index, kind, message) problems"""
    problems = []
    circuits, snaps, orig, descs = [], [], [], []
    mod_ids = module_gate_ids()
    owner = {}

    def recheck(step, what):
        for j, (c, s) in enumerate(zip(circuits, snaps)):
            now = snap(c)
            d = snap_diff(s, now)
            if d:
                problems.append((step, "earlier-output-changed",
                                 f"circuit #{j} = {descs[j]['ctor']}{json.dumps(descs[j]['args'])} changed after {what}: " + "; ".join(d)))
                snaps[j] = now      # report once

    def build(desc, step):
        fn, args, kw, inputs = make_args(desc)
        before = copy.deepcopy(inputs)
        with warnings.catch_warnings():
            warnings.simplefilter("ignore")
            c = fn(*args, **kw)
        if _val(before) != _val(inputs):
            problems.append((step, "input-mutated", f"{desc['ctor']}: the user-supplied data was modified by the constructor"))
        s = snap(c)
        shared = [g for g in sub_gates(c) if id(g) in owner]
        if shared:
            j = owner[id(shared[0])]
            problems.append((step, "shared-gate-object", f"{desc['ctor']}{json.dumps(desc['args'])}: {len(shared)} gate object(s) of the returned circuit "
                             f"are the SAME objects as gates of circuit #{j} = {descs[j]['ctor']}{json.dumps(descs[j]['args'])} returned earlier "
                             f"(first: {type(shared[0]).__name__} on {shared[0].qubits})"))
        if any(id(g) in mod_ids for g in sub_gates(c)):
            problems.append((step, "shared-gate-object", f"{desc['ctor']}: the returned circuit holds gate objects stored in module-level tables"))
        return c, s

    for step, op in enumerate(hist["ops"]):
        k = op[0]
        try:
            if k == "build":
                c, s = build(op[1], step)
                recheck(step, f"building {op[1]['ctor']}{json.dumps(op[1]['args'])}")
                for g in sub_gates(c):
                    owner.setdefault(id(g), len(circuits))
                circuits.append(c)
                snaps.append(s)
                orig.append(s)
                descs.append(op[1])
            elif k == "rebuild":
                i = op[1] % len(circuits)
                c, s = build(descs[i], step)
                d = snap_diff(orig[i], s)
                if d:
                    problems.append((step, "rebuild-differs", f"{descs[i]['ctor']}{json.dumps(descs[i]['args'])} built again (after other calls / after a "
                                     "returned circuit was modified by the caller) differs from the first build: " + "; ".join(d)))
                recheck(step, f"re-building {descs[i]['ctor']}")
                for g in sub_gates(c):
                    owner.setdefault(id(g), len(circuits))
                circuits.append(c)
                snaps.append(s)
                orig.append(s)
                descs.append(descs[i])
            elif k == "mutate":
                i = op[1] % len(circuits)
                how = do_mutation(circuits[i], op[2], op[3])
                snaps[i] = snap(circuits[i])
                recheck(step, f"the caller modified circuit #{i} ({descs[i]['ctor']}, {how})")
            elif k == "execute":
                i = op[1] % len(circuits)
                with warnings.catch_warnings():
                    warnings.simplefilter("ignore")
                    circuits[i]()
                recheck(step, f"executing circuit #{i}")
        except Exception as e:
            problems.append((step, "raises", f"step {op[:2]} raises {type(e).__name__}: {str(e)[:160]}"))
            break
    return problems


# ------------------------------------------------------------------ argument corpus
def _vec(rng, d, kind):
    if kind == "pos":
        return [round(rng.uniform(0.2, 2.0), 3) for _ in range(d)]
    if kind == "mixed":
        return [round(rng.uniform(0.2, 2.0), 3) * rng.choice([1, -1]) for _ in range(d)]
    if kind == "sparse":
        v = [0.0] * d
        v[rng.randrange(d)] = 1.5
        v[rng.randrange(d)] = -0.7
        return v
    if kind == "complex":
        return [[round(rng.uniform(-1, 1), 3), round(rng.uniform(-1, 1), 3)] for _ in range(d)]
    raise ValueError(kind)


LAYER_ARCHS = ["diagonal", "even_layer", "next_nearest", "odd_layer", "pyramid", "shifted", "v", "x"]


def gen_desc(rng, ctor, like=None):
    """a random admissible argument description; with `like`: same size / options, different data"""
    from math import comb
    la = like["args"] if like else None
    if ctor == "QFT":
        return {"ctor": ctor, "args": {"n": la["n"] if la else rng.randint(1, 5), "with_swaps": (not la["with_swaps"]) if la else rng.random() < 0.5}}
    if ctor == "comp_basis":
        n = len(la["basis_element"]) if la else rng.randint(1, 5)
        bits = [rng.randrange(2) for _ in range(n)]
        form = rng.choice(["list", "str"])
        return {"ctor": ctor, "args": {"basis_element": bits if form == "list" else "".join(map(str, bits))}}
    if ctor == "phase":
        n = len(la["data"]) if la else rng.randint(1, 5)
        return {"ctor": ctor, "args": {"data": _vec(rng, n, "mixed"), "rotation": la["rotation"] if la else rng.choice(["RX", "RY", "RZ"]),
                                       "array": rng.random() < 0.5}}
    if ctor == "unary":
        arch = la["architecture"] if la else rng.choice(["tree", "diagonal"])
        n = len(la["data"]) if la else (rng.choice([2, 4, 8]) if arch == "tree" else rng.randint(2, 6))
        return {"ctor": ctor, "args": {"data": _vec(rng, n, rng.choice(["pos", "mixed", "sparse"])), "architecture": arch}}
    if ctor == "unary_gauss":
        return {"ctor": ctor, "args": {"n": la["n"] if la else rng.choice([2, 4, 8]), "seed": rng.randrange(1000)}}
    if ctor == "binary":
        par = la["parametrization"] if la else rng.choice(["hyperspherical", "hopf"])
        d = len(la["data"]) if la else rng.choice([2, 4, 8])
        cx = (la and la["data"] and isinstance(la["data"][0], list)) or (not la and par == "hyperspherical" and rng.random() < 0.3)
        return {"ctor": ctor, "args": {"data": _vec(rng, d, "complex" if cx else rng.choice(["pos", "mixed"])), "parametrization": par}}
    if ctor == "hw":
        n, k = (la["n"], la["k"]) if la else rng.choice([(3, 1), (3, 2), (4, 2), (4, 1), (5, 2), (4, 3)])
        cx = (la and isinstance(la["data"][0], list)) or (not la and rng.random() < 0.3)
        return {"ctor": ctor, "args": {"data": _vec(rng, comb(n, k), "complex" if cx else rng.choice(["pos", "mixed"])), "n": n, "k": k,
                                       "optimize_controls": la["optimize_controls"] if la else rng.random() < 0.5}}
    if ctor == "ghz":
        return {"ctor": ctor, "args": {"n": (la["n"] + 1) if la else rng.randint(2, 5)}}
    if ctor == "layer":
        arch = rng.choice(LAYER_ARCHS)
        n = la["n"] if la else rng.randint(3, 6)
        if arch == "x" and n % 2:
            n += 1
        return {"ctor": ctor, "args": {"n": n, "architecture": arch, "gate": rng.choice(["CNOT", "CZ", "RBS", "cls:RBS", "cls:CRY", "cls:SWAP", "RZZ"]),
                                       "closed_boundary": rng.random() < 0.4}}
    raise ValueError(ctor)


def nq(desc):
    a = desc["args"]
    t = desc["ctor"]
    if t in ("QFT", "unary_gauss", "ghz", "layer", "hw"):
        return a["n"]
    if t == "comp_basis":
        return len(a["basis_element"])
    if t == "binary":
        return max(1, len(a["data"]).bit_length() - 1)
    return len(a["data"])


def with_kwargs(rng, desc):
    """Circuit keyword arguments passed through the constructor (hashable and unhashable values)"""
    r = rng.random()
    if r < 0.12:
        return dict(desc, kwargs={"density_matrix": True})
    if r < 0.24:
        return dict(desc, kwargs={"wire_names": [f"w{i}" for i in range(nq(desc))]})
    return desc


CTORS = ["QFT", "comp_basis", "phase", "unary", "unary_gauss", "binary", "hw", "ghz", "layer"]


def fixed_histories(rng):
    """per constructor (and per architecture / parametrisation): A = f(x); B = f(x); C = f(y) same size; recheck A;
    the caller modifies B (three ways); D = f(x) must equal A's first snapshot; execute A"""
    variants = []
    for ctor in CTORS:
        if ctor == "unary":
            for arch, n in (("tree", 4), ("tree", 8), ("diagonal", 3), ("diagonal", 5)):
                variants.append({"ctor": ctor, "args": {"data": _vec(rng, n, "mixed"), "architecture": arch}})
        elif ctor == "binary":
            for par in ("hyperspherical", "hopf"):
                variants.append({"ctor": ctor, "args": {"data": _vec(rng, 4, "mixed"), "parametrization": par}})
            variants.append({"ctor": ctor, "args": {"data": _vec(rng, 4, "complex"), "parametrization": "hyperspherical"}})
        elif ctor == "hw":
            for oc in (True, False):
                variants.append({"ctor": ctor, "args": {"data": _vec(rng, 6, "mixed"), "n": 4, "k": 2, "optimize_controls": oc}})
            variants.append({"ctor": ctor, "args": {"data": _vec(rng, 6, "complex"), "n": 4, "k": 2, "optimize_controls": True}})
        elif ctor == "layer":
            for arch in LAYER_ARCHS:
                variants.append({"ctor": ctor, "args": {"n": 4, "architecture": arch, "gate": "RBS" if len(arch) % 2 else "cls:CRY", "closed_boundary": arch == "diagonal"}})
        elif ctor == "unary_gauss":
            for n in (4, 8):
                variants.append({"ctor": ctor, "args": {"n": n, "seed": 7}})
        else:
            variants.append(gen_desc(rng, ctor))
    variants += [dict(v, kwargs={"wire_names": [f"w{i}" for i in range(nq(v))]}) for v in variants if v["ctor"] in ("unary", "QFT", "ghz", "phase")][:6]
    hs = []
    for v in variants:
        other = gen_desc(rng, v["ctor"], like=v)
        if v.get("kwargs"):
            other = dict(other, kwargs={"wire_names": [f"w{i}" for i in range(nq(other))]})
        vals = [0.3, 1.1, 2.3]
        ops = [["build", v], ["build", v], ["build", other], ["mutate", 1, "set_parameters", vals], ["rebuild", 0],
               ["mutate", 2, "gate_parameters", vals], ["build", other], ["mutate", 3, "add", vals], ["rebuild", 0], ["execute", 0]]
        hs.append({"ops": ops})
    return hs


def gen_history(rng):
    ops, built = [], []
    for _ in range(rng.randint(4, 8)):
        r = rng.random()
        if not built or r < 0.5:
            if built and rng.random() < 0.6:
                src = rng.choice(built)
                d = src if rng.random() < 0.4 else gen_desc(rng, src["ctor"], like=src)
            else:
                d = with_kwargs(rng, gen_desc(rng, rng.choice(CTORS)))
            ops.append(["build", d])
            built.append(d)
        elif r < 0.7:
            ops.append(["mutate", rng.randrange(len(built)), rng.choice(["set_parameters", "gate_parameters", "add"]),
                        [round(rng.uniform(0.1, 3.0), 3) for _ in range(3)]])
        elif r < 0.9:
            ops.append(["rebuild", rng.randrange(len(built))])
            built.append(built[ops[-1][1]])
        else:
            ops.append(["execute", rng.randrange(len(built))])
    return {"ops": ops}


def constructor_histories(run, rng, count):
    stats = {"histories": 0, "steps": 0, "builds": 0, "per_ctor": {}}
    for label, h in [("fixed", x) for x in fixed_histories(rng)] + [("random", gen_history(rng)) for _ in range(count)]:
        probs = run_history(h)
        stats["histories"] += 1
        stats["steps"] += len(h["ops"])
        for op in h["ops"]:
            if op[0] == "build":
                stats["builds"] += 1
                stats["per_ctor"][op[1]["ctor"]] = stats["per_ctor"].get(op[1]["ctor"], 0) + 1
        run.case(["constructor_history", label, h])
        report(run, h, probs)
    return stats


def report(run, h, probs, key=None):
    seen = set()
    for step, kind, msg in probs:
        # the constructor responsible: the one named in the message of the step
        ctor = next((op[1]["ctor"] for op in h["ops"][step::-1] if op[0] == "build"), "?")
        m = re.search(r"(?:^|= )(\w+)[{:]", msg)
        ctor = m.group(1) if m and m.group(1) in CTORS else ctor
        if (ctor, kind) in seen:
            continue
        seen.add((ctor, kind))
        run.find(key or f"purity:{ctor}:{kind}:{_h(h)}", f"constructor outputs are not independent ({kind}), step {step}: {msg}"[:900],
                 {"history": h, "step": step, "kind": kind})


def replay_history(run, key, what, rp):
    probs = run_history(rp["history"])
    if probs:
        report(run, rp["history"], probs[:1], key=key)
