"""C18  Quantum-information measures match their definitions; generators are valid.

Proof part (static, C18/Props.v): partial trace model = sum_k (I(x)<k|) rho (I(x)|k>) for every n
and every traced list in ANY order (both the state-vector tensordot route and the density-matrix
transpose/einsum route), partial transpose, algebraic measures (purity, Hilbert-Schmidt,
pure-state fidelity shortcut), generator post-conditions (A A^dagger Hermitian, x^dagger A A^dagger x
is a sum of squared moduli, row normalisation), classical identities, seed state machine.

Run-time part (this file):
  exact   - partial_trace / partial_transpose / the matricisation inside schmidt_decomposition on
            asymmetric integer states for ALL ordered sub-lists of qubits (n<=4 quick, n<=5
            thorough), compared inside Coq with the model and with the Spec;
          - purity, Hilbert-Schmidt, fidelity shortcut, process fidelity on integer data;
          - hamming_*, total_variation_distance on dyadic distributions;
          - seed handling: histories of generator calls against the state-machine model.
  'test'  - harness/c18_defs.py: EVERY public measure of entanglement.py / entropies.py / metrics.py / utils.py /
            linalg_operations.py against an independent definition-level oracle on pure vectors, pure density matrices,
            full-rank / rank-deficient / maximally mixed, product and entangled states on 1-4 (5) qubits, all bases,
            check_hermitian flags, orders and containers of the traced qubits; inputs snapshot (non-mutation); call
            histories of the functions with tables / caches (pauli_basis, comp_basis_to_pauli, random_clifford, ...);
          - everything that needs a spectrum or a logarithm (entropies, trace distance, mixed
            fidelity, negativity, concurrence), special-case branches against the neighbouring
            general formula, generator post-conditions per kind x seed (tolerances);
          - family H (process_determinism): every seeded generator x option of random_ensembles.py called in three fresh interpreter
            processes (PYTHONHASHSEED = 0, 1, 2; ONE process per hash seed) and in this process, outputs compared bit for bit --
            the implementation side of C18/Props.v seed_int_deterministic (an int-seeded call reads the same stream in ANY world);
            random_pauli == the seed's own integer stream mapped through the subset in the order the user gave (random_pauli_oracle);
          - family F (measure_representation): ~19 measures on float64 / Fortran-order / strided / read-only inputs == complex128 C order.
"""
STATIC = ["C18/Props", "C18/PropsMW"]
import itertools
import math
import random
import warnings
from concurrent.futures import ThreadPoolExecutor
from fractions import Fraction

import numpy as np

from lib import vcore
from harness.c17 import ints, lit, natl

HEADER = """From Coq Require Import ZArith List Bool.
From QV Require Import Base.Mat Base.Zi C17.Alg C17.Model C17.ZiInst C18.Model C18.Spec C18.ZiInst.
Import ListNotations. Open Scope Z_scope.
"""


def rint(rng, lo=-3, hi=3):
    return complex(rng.randint(lo, hi), rng.randint(lo, hi))


def rand_state(rng, d):
    while True:
        v = np.array([rint(rng) for _ in range(d)], dtype=complex)
        if np.count_nonzero(v) >= max(1, d - 1) and len(set(v.tolist())) > 1:
            return v


def rand_op(rng, d):
    while True:
        M = np.array([[rint(rng) for _ in range(d)] for _ in range(d)], dtype=complex)
        if d == 1 or (not np.array_equal(M, M.T) and not np.array_equal(M, M.conj().T)):
            return M


def ordered_sublists(n, rng=None, cap=None):
    out = []
    for k in range(n + 1):
        for comb in itertools.permutations(range(n), k):
            out.append(list(comb))
    if cap is not None and len(out) > cap:
        keep = [l for l in out if len(l) <= 1 or l == sorted(l)]
        rest = [l for l in out if l not in keep]
        rng.shuffle(rest)
        out = keep + rest[:max(0, cap - len(keep))]
    return out


# ----------------------------------------------------------------------------- A. bookkeeping in Coq
def bookkeeping(run, rng):
    import qibo.quantum_info as qi
    import qibo.quantum_info.linalg_operations as lo
    nmax = 4 if run.tier == "quick" else 5
    files = []
    for n in range(1, nmax + 1):
        d = 2 ** n
        rho, psi = rand_op(rng, d), rand_state(rng, d)
        cap = None if (n <= 4 or run.tier == "thorough") else 80
        subs = ordered_sublists(n, rng, cap)
        pre = (f"Definition n := {n}%nat.\nDefinition rho : mat Zi := {lit(ints(rho)[0])}.\n"
               f"Definition psi : vec Zi := {lit(ints(psi)[0])}.\n")
        items = []
        for S in subs:
            for route, state, model, spec in (("dm", rho, "z_ptrace_dm n {S} rho", "z_ptrace_spec_dm n {S} rho"),
                                              ("sv", psi, "z_ptrace_sv n {S} psi", "z_ptrace_spec_sv n {S} psi")):
                key = f"partial_trace:{route}"
                try:
                    out = qi.partial_trace(state.copy(), list(S))
                    val = ints(out)[0]
                except Exception as e:  # noqa: BLE001
                    run.find(f"{key}:raises", f"partial_trace({route}, n={n}, traced={S}) raised {type(e).__name__}: {e}",
                             {"n": n, "traced": S, "route": route, "state": ints(state)[0]})
                    continue
                items.append((key, {"n": n, "traced": S, "route": route, "state": ints(state)[0]},
                              "zmeqb (" + model.format(S=natl(S)) + f") {lit(val)}",
                              "zmeqb (" + spec.format(S=natl(S)) + f") {lit(val)}", S != sorted(S) or len(S) not in (0, n)))
        # partial transpose: all subsets, plus permuted and repeated listings
        psets = [list(c) for k in range(n + 1) for c in itertools.combinations(range(n), k)]
        psets += [list(reversed(p)) for p in psets if len(p) >= 2][:6] + ([[0, 0]] if n >= 1 else [])
        for S in psets:
            for route, state in (("dm", rho), ("sv", psi)):
                key = f"partial_transpose:{route}"
                try:
                    out = qi.partial_transpose(state.copy(), list(S))
                    val = ints(out)[0]
                except Exception as e:  # noqa: BLE001
                    run.find(f"{key}:raises", f"partial_transpose({route}, n={n}, partition={S}) raised {type(e).__name__}: {e}",
                             {"n": n, "partition": S, "route": route})
                    continue
                arg = "rho" if route == "dm" else "(z_outer psi (z_vconj psi))"
                items.append((key, {"n": n, "partition": S, "route": route, "state": ints(state)[0]},
                              f"zmeqb (z_ptranspose n {natl(S)} {arg}) {lit(val)}", None, 0 < len(set(S)) < n))
        # batch of density matrices through partial_transpose (3-dimensional input)
        if n >= 2:
            S = [n - 1]
            batch = np.array([rho, rho.T.copy()])
            try:
                out = qi.partial_transpose(batch.copy(), S)
                for bi, mname in ((0, "rho"), (1, f"(z_mtrans {d}%nat {d}%nat rho)")):
                    items.append(("partial_transpose:batch", {"n": n, "partition": S, "batch_index": bi},
                                  f"zmeqb (z_ptranspose n {natl(S)} {mname}) {lit(ints(out[bi])[0])}", None, True))
            except Exception as e:  # noqa: BLE001
                run.find("partial_transpose:batch:raises", f"{type(e).__name__}: {e}", {"n": n})
            # batch of STATE VECTORS (shape (N, 1, 2^n)): each element is the partial transpose of |psi><psi| -- with complex
            # amplitudes, so that building conj(rho) instead of rho is visible; every single-qubit partition
            psi_c = np.conj(psi)
            for S in ([q] for q in range(n)):
                try:
                    out = qi.partial_transpose(np.array([psi, psi_c])[:, None, :].copy(), S)
                    for bi, vname in ((0, "psi"), (1, "(z_vconj psi)")):
                        items.append(("partial_transpose:batch_sv", {"n": n, "partition": S, "batch_index": bi, "state": ints(psi)[0]},
                                      f"zmeqb (z_ptranspose n {natl(S)} (z_outer {vname} (z_vconj {vname}))) {lit(ints(out[bi])[0])}", None, True))
                except Exception as e:  # noqa: BLE001
                    run.find("partial_transpose:batch_sv:raises", f"{type(e).__name__}: {e}", {"n": n, "partition": S})
        # matricisation inside schmidt_decomposition, observed by wrapping the SVD call at run time
        captured = []
        orig = lo.singular_value_decomposition

        def spy(matrix, backend=None):
            captured.append(np.array(matrix))
            return orig(matrix, backend=backend)
        lo.singular_value_decomposition = spy
        try:
            for S in [s for s in subs if 0 < len(s) < n or n == 1 and len(s) <= 1][:60]:
                for as_tuple in (False, True):
                    captured.clear()
                    try:
                        qi.schmidt_decomposition(psi.copy(), tuple(S) if as_tuple else list(S))
                        val = ints(captured[0])[0]
                    except Exception as e:  # noqa: BLE001
                        if len(S) == 0:
                            continue
                        run.find("schmidt_decomposition:raises", f"partition={S}: {type(e).__name__}: {e}", {"n": n, "partition": S})
                        continue
                    items.append(("schmidt_decomposition:matricisation", {"n": n, "partition": S, "state": ints(psi)[0]},
                                  f"zmeqb (z_matricize n {natl(S)} psi) {lit(val)}", None, S != sorted(S)))
                    break
        finally:
            lo.singular_value_decomposition = orig
        # algebraic measures on the same integer data
        sig = rand_op(rng, d)
        pre += f"Definition sig : mat Zi := {lit(ints(sig)[0])}.\n"
        alg = []
        pur = qi.purity(rho.copy())
        alg.append(("purity:dm", f"Z.eqb (fst (z_purity_dm {d}%nat rho)) ({int(round(pur))})", float(pur).is_integer()))
        hsd = qi.hilbert_schmidt_distance(rho.copy(), sig.copy())
        alg.append(("hilbert_schmidt_distance", f"Z.eqb (fst (z_hs_inner {d}%nat (z_msub rho sig) (z_msub rho sig))) ({int(round(float(hsd)))})",
                    float(hsd).is_integer()))
        hsi = qi.hilbert_schmidt_inner_product(rho.copy(), sig.copy())
        alg.append(("hilbert_schmidt_inner_product", f"Z.eqb (fst (z_hs_inner {d}%nat rho sig)) ({int(round(float(hsi)))})",
                    float(hsi).is_integer()))
        # fidelity: pure |k><k| (times a unit phase) against an arbitrary integer sigma -> shortcut Tr(rho sigma)
        kk = rng.randrange(d)
        e = np.zeros(d, dtype=complex)
        e[kk] = 1j
        proj = np.outer(e, e.conj())
        fid = qi.fidelity(proj.copy(), sig.copy())
        alg.append(("fidelity:pure_shortcut", f"Z.eqb (fst (z_fid_trace {d}%nat {lit(ints(proj)[0])} sig)) ({int(round(float(fid)))})"
                    f" && zi_eqb (z_fid_trace {d}%nat {lit(ints(proj)[0])} sig) (z_expect {d}%nat {lit(ints(e)[0])} sig)",
                    float(fid).is_integer()))
        pf = qi.process_fidelity(rho.copy(), sig.copy())
        dim2 = int(np.sqrt(d)) ** 2     # process_fidelity divides by int(sqrt(shape[0]))^2
        alg.append(("process_fidelity", f"Z.eqb (fst (z_hs_inner {d}%nat rho sig)) ({int(round(float(pf) * dim2))})", (float(pf) * dim2).is_integer()))
        for key, term, exact in alg:
            if not exact:
                run.find(f"{key}:inexact", f"{key} on integer data returned a non-integer", {"n": n}, concrete=False)
            items.append((key, {"n": n, "rho": ints(rho)[0], "sigma": ints(sig)[0]}, term, None, True))
        files.append((n, pre, items))

    def work(job):
        n, pre, chunk, ci = job
        terms = []
        for j, (key, rp, eq, spec, nt) in enumerate(chunk):
            terms.append((f"{j}:eq", eq))
            if spec:
                terms.append((f"{j}:spec", spec))
        out, log = run.coq_bools(f"C18_book_n{n}_{ci}.v", HEADER + pre, terms, timeout=1200)
        return chunk, out

    jobs = []
    for n, pre, items in files:
        step = 40 if n >= 5 else 120
        for ci in range(0, len(items), step):
            jobs.append((n, pre, items[ci:ci + step], ci // step))
    with ThreadPoolExecutor(max_workers=10) as ex:
        for chunk, out in ex.map(work, jobs):
            for j, (key, rp, eq, spec, nt) in enumerate(chunk):
                run.case({"key": key, **{k: v for k, v in rp.items() if k != "state"}, "h": hash(str(rp))}, nontrivial=nt)
                if len(run.samples) < 5 and nt and (rp.get("traced", [0]) != sorted(rp.get("traced", [0])) or key.startswith("schmidt")):
                    run.sample({"function": key, **{k: v for k, v in rp.items() if k not in ("state", "rho", "sigma")}})
                if out is None:
                    run.find(f"coq:{key}", "generated Coq file did not compile", rp, concrete=False)
                    continue
                okm, oks = out[f"{j}:eq"], out.get(f"{j}:spec", True)
                if not oks:
                    run.find(key, f"{key} differs from the textbook definition for {rp}", rp)
                elif not okm:
                    run.find(f"model:{key}", f"implementation and Coq model of {key} disagree ({ {k: v for k, v in rp.items() if k != 'state'} })",
                             rp, concrete=False)


def fastpath_lift(run, rng):
    """reset_error_density_matrix / depolarizing_error_density_matrix (backends/numpy.py) on integer states with dyadic
    probabilities, compared exactly with C18/LiftC04.lift_reset / lift_depol (weights (x) the partial_trace model)"""
    from qibo import gates
    from qibo.backends import _check_backend
    ok = True
    try:
        vcore.ensure_static_build(["C18/LiftC04"])
    except Exception as e:  # noqa: BLE001
        ok = False
        run.notes["LiftC04_build_error"] = str(e)[-600:]
    for name in vcore.props_theorems("C18/LiftC04.v"):
        run.oblige("LiftC04." + name, ok, "static theorem (C04 closed forms = weights (x) partial_trace model)")
    if not ok:
        run.find("coq:LiftC04", "C18/LiftC04.v (or C04/ChannelSpec.v it depends on) does not build", {}, concrete=False)
        return
    be = _check_backend(None)
    terms, meta = [], []
    for n in ((2, 3) if run.tier == "quick" else (2, 3, 4)):
        d = 2 ** n
        rho = rand_op(rng, d)
        pre_rho = lit(ints(rho)[0])
        for q in range(n):
            out = gates.ResetChannel(q, [0.25, 0.5]).apply_density_matrix(be, rho.copy(), n) * 4
            terms.append((f"r{len(terms)}", f"zmeqb (lift_reset {n}%nat {q}%nat 1 1 2 {pre_rho}) {lit(ints(out)[0])}"))
            meta.append(("reset_error_density_matrix", {"n": n, "q": q, "p0": 0.25, "p1": 0.5, "state": ints(rho)[0]}))
        lists = [list(p) for k in range(1, n + 1) for p in itertools.permutations(range(n), k)]
        if len(lists) > 12:
            lists = lists[:n] + rng.sample(lists[n:], 12 - n)
        for qs in lists:
            k = len(qs)
            out = gates.DepolarizingChannel(tuple(qs), 0.5).apply_density_matrix(be, rho.copy(), n) * 2 ** (k + 1)
            terms.append((f"d{len(terms)}", f"zmeqb (lift_depol {n}%nat {natl(qs)} {2 ** k} 1 {pre_rho}) {lit(ints(out)[0])}"))
            meta.append(("depolarizing_error_density_matrix", {"n": n, "qubits": qs, "lam": 0.5, "state": ints(rho)[0]}))
    out, log = run.coq_bools("C18_fastpath.v", HEADER + "From QV Require Import C18.LiftC04.\n", terms, timeout=900)
    for (lab, _), (key, rp) in zip(terms, meta):
        run.case({"key": key, **{k: v for k, v in rp.items() if k != "state"}}, True)
        if out is None:
            run.find(f"coq:{key}", "generated Coq file did not compile", rp, concrete=False)
            break
        if not out[lab]:
            run.find(key, f"{key} differs from weights (x) partial_trace ({ {k: v for k, v in rp.items() if k != 'state'} })", rp)


def process_fidelity_exact(run, rng):
    """process_fidelity(kraus_to_liouville(Ks, order)) * d^2 = sum_K |tr K|^2 on integer Kraus sets (exact), and the
    trace of the C17 Liouville model in Coq (theorem process_fidelity_from_kraus)"""
    import qibo.quantum_info as qi
    terms, meta = [], []
    for n in (1, 2, 3):
        d = 2 ** n
        for rank in (1, 3):
            Ks = [rand_op(rng, d) for _ in range(rank)]
            want = sum(int(round(np.trace(Km).real)) ** 2 + int(round(np.trace(Km).imag)) ** 2 for Km in Ks)   # exact integers
            for order in ("row", "column"):
                L = qi.kraus_to_liouville([(tuple(range(n)), Km.copy()) for Km in Ks], order=order)
                got = float(qi.process_fidelity(L)) * (d * d)
                rp = {"n": n, "rank": rank, "order": order, "kraus": [ints(Km)[0] for Km in Ks]}
                run.case({"process_fidelity_from_kraus": [n, rank, order]}, True)
                if got != float(want):
                    run.find("process_fidelity:kraus", f"process_fidelity * d^2 = {got}, sum |tr K|^2 = {want} (n={n}, order={order})", rp)
                if n <= 2:
                    col = "true" if order == "column" else "false"
                    ks = "[" + ";".join(lit(ints(Km)[0]) for Km in Ks) + "]"
                    terms.append((f"pf{len(terms)}", f"Z.eqb (fst (z_trace {d * d}%nat (z_kraus_to_liouville {col} {d}%nat {ks}))) ({int(round(want))})"))
                    meta.append(rp)
    out, log = run.coq_bools("C18_procfid.v", HEADER, terms, timeout=600)
    for (lab, _), rp in zip(terms, meta):
        if out is None:
            run.find("coq:process_fidelity", "generated Coq file did not compile", rp, concrete=False)
            break
        if not out[lab]:
            run.find("model:process_fidelity:kraus", "trace of the Coq Liouville model differs from sum |tr K|^2", rp, concrete=False)


def meyer_wallach_exact(run, rng):
    """meyer_wallach_entanglement on MIXED (and pure) unnormalised Gaussian-integer density matrices, 1-3 qubits: the value is
    2 (1 - S/N) with the exact integer S = sum_k tr(rho_k^2); S is compared inside Coq with C18/ModelMW.mw_sum (marginal OF
    qubit k) and with the textbook-sum version mw_sum_spec"""
    import qibo.quantum_info as qi
    ok, pa = vcore.static_assumptions("C18/PropsMW")
    for name in vcore.props_theorems("C18/PropsMW.v"):
        if name.endswith("_refuted"):
            pass            # a refutation of the WRONG-SIDE variant, i.e. a theorem that holds on the current tree
        run.oblige("PropsMW." + name, ok and name in pa, "static theorem (coq/theories/C18/PropsMW.v)")
    terms, meta = [], []
    for n in (1, 2, 3):
        d = 2 ** n
        for kind in ("psd_full_rank", "psd_rank_deficient", "pure", "generic_integer"):
            if kind == "generic_integer":
                rho = rand_op(rng, d)
            else:
                k = {"psd_full_rank": d, "psd_rank_deficient": max(1, d // 2), "pure": 1}[kind]
                B = np.array([[rint(rng, -2, 2) for _ in range(k)] for _ in range(d)], dtype=complex)
                if not np.any(B):
                    B[0, 0] = 1
                rho = B @ B.conj().T
            x = rho.copy()
            q = float(qi.meyer_wallach_entanglement(x))
            S = round(n * (1 - q / 2))
            rp = {"n": n, "kind": kind, "rho": ints(rho)[0], "returned": q}
            run.case({"meyer_wallach_exact": [n, kind], "h": hash(str(rp["rho"]))}, True)
            if not np.array_equal(x, rho):
                run.find("input_mutated:meyer_wallach_entanglement", "meyer_wallach_entanglement modified its input", rp)
            if q != 2 * (1 - S / n):
                run.find("meyer_wallach_entanglement:integer_state", f"meyer_wallach_entanglement on an integer density matrix returned {q!r}, which is not 2 (1 - S/N) for an integer S", rp)
            terms.append((f"mw{len(terms)}", f"Z.eqb (fst (mw_sum {n}%nat {lit(ints(rho)[0])})) ({S}) && zi_eqb (mw_sum {n}%nat {lit(ints(rho)[0])}) (mw_sum_spec {n}%nat {lit(ints(rho)[0])})"))
            meta.append((rp, S))
    out, log = run.coq_bools("C18_meyer_wallach.v", HEADER + "From QV Require Import C18.ModelMW.\n", terms, timeout=600)
    for (lab, _), (rp, S) in zip(terms, meta):
        if out is None:
            run.find("coq:meyer_wallach", "generated Coq file did not compile", {}, concrete=False)
            break
        if not out[lab]:
            run.find("meyer_wallach_entanglement:integer_state", f"meyer_wallach_entanglement = {rp['returned']} on a {rp['kind']} integer density matrix of {rp['n']} qubit(s): "
                     f"sum of single-qubit purities {S} differs from the definition (marginal OF each qubit, textbook partial trace)", rp)


def kept_order_probe(run):
    """the density-matrix route relies on tuple(set(range(n)) ^ set(traced)) being ASCENDING (the model's
    `complement`); that is a CPython set-iteration detail, checked here exhaustively for n <= 10"""
    bad = None
    cnt = 0
    for n in range(1, 11):
        for k in range(n + 1):
            for S in itertools.combinations(range(n), k):
                kept = tuple(set(list(range(n))) ^ set(S))
                cnt += 1
                if list(kept) != sorted(kept):
                    bad = bad or (n, list(S), list(kept))
    run.case({"kept_order_probe": cnt}, True)
    run.notes["kept_qubits_ascending_checked_subsets"] = cnt
    if bad:
        run.find("partial_trace:kept_order", f"set iteration order is not ascending for n={bad[0]}, traced={bad[1]}: kept={bad[2]}; "
                 "the reduced state would come out with permuted qubits", {"n": bad[0], "traced": bad[1]})


# ----------------------------------------------------------------------------- C. classical measures
def bits_lit(b):
    return "[" + ";".join("true" if x else "false" for x in b) + "]"


def classical(run, rng):
    import qibo.quantum_info as qi
    terms, meta = [], []
    # hamming_weight: ints, strings, lists, tuples, arrays; with and without indexes
    vals = list(range(0, 18)) + [rng.randrange(2 ** 40) for _ in range(20)]
    for v in vals:
        w = qi.hamming_weight(v)
        ix = qi.hamming_weight(v, return_indexes=True)
        terms.append((f"hw{len(terms)}", f"Nat.eqb (hamming_weight_bits (bits_of_N {v}%N)) {w}%nat && "
                      f"forallb (fun p => Nat.eqb (fst p) (snd p)) (combine (hamming_indexes (bits_of_N {v}%N)) {natl(ix)})"
                      f" && Nat.eqb (length (hamming_indexes (bits_of_N {v}%N))) {len(ix)}%nat"))
        meta.append(("hamming_weight:int", {"value": v}))
    for _ in range(30):
        b = [rng.random() < 0.5 for _ in range(rng.randint(1, 12))]
        forms = {"str": "".join("1" if x else "0" for x in b), "list": [int(x) for x in b],
                 "tuple": tuple(int(x) for x in b), "ndarray": np.array([int(x) for x in b])}
        for fname, f in forms.items():
            try:
                w = qi.hamming_weight(f)
                ix = qi.hamming_weight(f, return_indexes=True)
            except Exception as e:  # noqa: BLE001
                run.find(f"hamming_weight:{fname}:raises", f"{type(e).__name__}: {e}", {"bits": [int(x) for x in b], "form": fname})
                continue
            terms.append((f"hw{len(terms)}", f"Nat.eqb (hamming_weight_bits {bits_lit(b)}) {w}%nat && "
                          f"Nat.eqb (length (hamming_indexes {bits_lit(b)})) {len(ix)}%nat && "
                          f"forallb (fun p => Nat.eqb (fst p) (snd p)) (combine (hamming_indexes {bits_lit(b)}) {natl(ix)})"))
            meta.append((f"hamming_weight:{fname}", {"bits": [int(x) for x in b]}))
    for _ in range(40):
        a = [rng.random() < 0.5 for _ in range(rng.randint(1, 10))]
        b = [rng.random() < 0.5 for _ in range(rng.randint(1, 10))]
        sa, sb = ("".join("1" if x else "0" for x in l) for l in (a, b))
        try:
            dist = qi.hamming_distance(sa, sb)
            ix = qi.hamming_distance(sa, sb, return_indexes=True)
        except Exception as e:  # noqa: BLE001
            run.find("hamming_distance:str:raises", f"{type(e).__name__}: {e}", {"a": sa, "b": sb})
            continue
        terms.append((f"hd{len(terms)}", f"Nat.eqb (hamming_distance_bits {bits_lit(a)} {bits_lit(b)}) {dist}%nat && Nat.eqb {len(ix)}%nat {dist}%nat"))
        meta.append(("hamming_distance:str", {"a": sa, "b": sb}))
    # documented argument types that are rejected by the implementation
    for form, (x, y) in {"int": (5, 3), "list_of_int": ([1, 0, 1], [0, 1, 1]), "tuple_of_int": ((1, 0), (1, 1))}.items():
        try:
            got = qi.hamming_distance(x, y)
            want = sum(1 for p, q in zip(f"{x:b}".zfill(8), f"{y:b}".zfill(8)) if p != q) if form == "int" else sum(1 for p, q in zip(x, y) if p != q)
            run.case({"hamming_distance": form}, True)
            if got != want:
                run.find(f"hamming_distance:{form}", f"hamming_distance({x},{y}) = {got}, expected {want}", {"a": x, "b": y})
        except Exception as e:  # noqa: BLE001
            run.case({"hamming_distance": form}, True)
            run.find(f"hamming_distance:{form}:raises", f"hamming_distance({x!r}, {y!r}) raises {type(e).__name__}: {e} although "
                     "the signature documents int / list / tuple arguments", {"a": list(x) if not isinstance(x, int) else x,
                                                                               "b": list(y) if not isinstance(y, int) else y, "form": form})
    # total variation distance on dyadic distributions: exact
    for _ in range(40):
        m = rng.randint(2, 9)
        k = rng.choice([4, 6, 10])
        den = 2 ** k

        def dist():
            cuts = sorted(rng.randint(0, den) for _ in range(m - 1))
            return [b - a for a, b in zip([0] + cuts, cuts + [den])]
        p, q = dist(), dist()
        fp, fq = [x / den for x in p], [x / den for x in q]
        got = float(qi.total_variation_distance(np.array(fp), np.array(fq), validate=True))
        terms.append((f"tvd{len(terms)}", f"Z.eqb (tvd_num {zl(p)} {zl(q)}) ({Fraction(got).limit_denominator(2 ** 60) * 2 * den})"
                      if (got * 2 * den).is_integer() else "false"))
        meta.append(("total_variation_distance", {"p": p, "q": q, "den": den}))
    out, log = run.coq_bools("C18_classical.v", HEADER, terms, timeout=600)
    for (lab, term), (key, rp) in zip(terms, meta):
        run.case({"key": key, **rp}, True)
        if out is None:
            run.find(f"coq:{key}", "generated Coq file did not compile", rp, concrete=False)
            break
        if not out[lab]:
            run.find(key, f"{key} disagrees with its definition on {rp}", rp)


def zl(xs):
    return "[" + ";".join(str(int(x)) for x in xs) + "]"


# ----------------------------------------------------------------------------- 'test' section
def close(a, b, tol=1e-9):
    a, b = complex(a), complex(b)
    if math.isinf(a.real) or math.isinf(b.real):
        return a.real == b.real
    return abs(a - b) <= tol * max(1.0, abs(a), abs(b))


class Tests:
    def __init__(self, run):
        self.run = run
        self.n = 0
        self.failed = {}

    def check(self, key, ok, detail, rp=None):
        self.n += 1
        self.run.case({"test": key, "i": self.n}, True)
        if not ok and key not in self.failed:
            self.failed[key] = detail
            self.run.find(key, detail, rp or {"detail": detail})

    def guard(self, key, thunk):
        try:
            with warnings.catch_warnings():
                warnings.simplefilter("ignore")
                return thunk()
        except Exception as e:  # noqa: BLE001
            self.check(f"{key}:raises", False, f"{key} raised {type(e).__name__}: {e}")
            return None


def dyadic_dist(rng, m, k=6, zeros=0):
    den = 2 ** k
    cuts = sorted(rng.sample(range(1, den), m - 1))
    p = [b - a for a, b in zip([0] + cuts, cuts + [den])]
    return [x / den for x in p] + [0.0] * zeros


def formulas(run, rng, T):
    """classical entropies / distances against their textbook formulas evaluated independently (floats, 'test')"""
    import qibo.quantum_info as qi
    for _ in range(12 if run.tier == "quick" else 60):
        m = rng.randint(2, 6)
        p, q = dyadic_dist(rng, m), dyadic_dist(rng, m)
        pz = dyadic_dist(rng, m, zeros=rng.randint(1, 2))
        for base in (2, math.e, 10):
            lg = lambda x: math.log(x) / math.log(base)  # noqa: E731
            sh = -sum(x * lg(x) for x in p if x > 0)
            T.check("shannon_entropy", close(qi.shannon_entropy(np.array(p), base=base), sh), f"p={p} base={base}")
            T.check("shannon_entropy:zeros", close(qi.shannon_entropy(np.array(pz), base=base), -sum(x * lg(x) for x in pz if x > 0)), f"p={pz}")
            kl = sum(x * (lg(x) - lg(y)) for x, y in zip(p, q) if x > 0)
            T.check("classical_relative_entropy", close(qi.classical_relative_entropy(np.array(p), np.array(q), base=base), kl), f"p={p} q={q}")
            for alpha in (0.3, 0.5, 2, 3.5):
                ren = lg(sum(x ** alpha for x in p)) / (1 - alpha)
                T.check("classical_renyi_entropy", close(qi.classical_renyi_entropy(np.array(p), alpha, base=base), ren), f"p={p} alpha={alpha} base={base}")
                if alpha != 0.5:
                    rr = lg(sum(x ** alpha * y ** (1 - alpha) for x, y in zip(p, q))) / (alpha - 1)
                    T.check("classical_relative_renyi_entropy", close(qi.classical_relative_renyi_entropy(np.array(p), np.array(q), alpha, base=base), rr),
                            f"p={p} q={q} alpha={alpha}")
                ts = (1 - sum(x ** alpha for x in p)) / (alpha - 1)
                T.check("classical_tsallis_entropy", close(qi.classical_tsallis_entropy(np.array(p), alpha, base=base), ts), f"p={p} alpha={alpha}")
            # documented special cases against the value of the general formula next to them
            eps = 1e-6
            gen = lambda a, d: lg(sum(x ** a for x in d if x > 0)) / (1 - a)  # noqa: E731
            for d_, tag in ((p, ""), (pz, ":zero_probabilities")):
                T.check(f"classical_renyi_entropy:alpha=0{tag}", close(qi.classical_renyi_entropy(np.array(d_), 0, base=base), gen(eps, d_), 1e-4),
                        f"classical_renyi_entropy(p, alpha=0) = {qi.classical_renyi_entropy(np.array(d_), 0, base=base)} but the general formula at "
                        f"alpha=1e-6 gives {gen(eps, d_)} (log of the support size) for p={d_}: the alpha=0 branch returns log(len(p)), "
                        "counting zero-probability outcomes", {"p": d_, "base": base})
                T.check(f"classical_renyi_entropy:alpha=1{tag}", close(qi.classical_renyi_entropy(np.array(d_), 1.0, base=base), gen(1 + eps, d_), 1e-4),
                        f"alpha=1 branch vs general formula for p={d_}")
                T.check(f"classical_renyi_entropy:alpha=inf{tag}", close(qi.classical_renyi_entropy(np.array(d_), np.inf, base=base), -lg(max(d_))), f"p={d_}")
                tsl = (1 - sum(x ** (1 + eps) for x in d_ if x > 0)) / eps
                got = qi.classical_tsallis_entropy(np.array(d_), 1.0, base=base)
                T.check(f"classical_tsallis_entropy:alpha=1:base={'e' if base == math.e else base}", close(got, tsl, 1e-4),
                        f"classical_tsallis_entropy(p, alpha=1, base={base}) = {got} but the general formula (1-sum p^alpha)/(alpha-1) tends to "
                        f"{tsl} (Shannon entropy in nats) as alpha -> 1, p={d_}: the alpha=1 branch uses log base `base` (default 2)",
                        {"p": d_, "base": base})
            T.check("classical_relative_renyi_entropy:alpha=1", close(qi.classical_relative_renyi_entropy(np.array(p), np.array(q), 1.0, base=base),
                    lg(sum(x ** (1 + eps) * y ** (-eps) for x, y in zip(p, q))) / eps, 1e-4), f"p={p} q={q}")
            T.check("classical_relative_renyi_entropy:alpha=0.5", close(qi.classical_relative_renyi_entropy(np.array(p), np.array(q), 0.5, base=base),
                    lg(sum(math.sqrt(x * y) for x, y in zip(p, q))) / (-0.5)), f"p={p} q={q}")
        hd = math.sqrt(sum((math.sqrt(x) - math.sqrt(y)) ** 2 for x, y in zip(p, q))) / math.sqrt(2)
        T.check("hellinger_distance", close(qi.hellinger_distance(np.array(p), np.array(q), validate=True), hd), f"p={p} q={q}")
        T.check("hellinger_fidelity", close(qi.hellinger_fidelity(np.array(p), np.array(q)), sum(math.sqrt(x * y) for x, y in zip(p, q)) ** 2),
                f"Bhattacharyya form, p={p} q={q}")


def spectral(run, rng, T):
    """measures that need eigenvalues: property-style checks ('test')"""
    import qibo.quantum_info as qi
    reps = 6 if run.tier == "quick" else 30
    for it in range(reps):
        n = it % 3 + 1          # every size 1, 2, 3 in every tier (dimension factors differ only from n = 3 on)
        d = 2 ** n
        seed = rng.randrange(10 ** 6)
        rho = qi.random_density_matrix(d, seed=seed)
        sig = qi.random_density_matrix(d, seed=seed + 1)
        psi = qi.random_statevector(d, seed=seed + 2)
        phi = qi.random_statevector(d, seed=seed + 3)
        P, Q = np.outer(psi, psi.conj()), np.outer(phi, phi.conj())
        p = dyadic_dist(rng, d)
        q = dyadic_dist(rng, d)
        D, E = np.diag(p).astype(complex), np.diag(q).astype(complex)
        ev = np.linalg.eigvalsh(rho)
        for base in (2, math.e):
            lg = lambda x: math.log(x) / math.log(base)  # noqa: E731
            T.check("von_neumann_entropy:diagonal", close(T.guard("von_neumann_entropy", lambda: qi.von_neumann_entropy(D.copy(), base=base)),
                    -sum(x * lg(x) for x in p if x > 0), 1e-8), f"diag {p}")
            T.check("von_neumann_entropy:spectrum", close(qi.von_neumann_entropy(rho.copy(), base=base), -sum(x * lg(x) for x in ev if x > 1e-15), 1e-8), "generic rho")
            T.check("von_neumann_entropy:pure", close(qi.von_neumann_entropy(P.copy(), base=base), 0.0, 1e-7), "pure state")
            T.check("relative_von_neumann_entropy:diagonal", close(qi.relative_von_neumann_entropy(D.copy(), E.copy(), base=base),
                    sum(x * (lg(x) - lg(y)) for x, y in zip(p, q) if x > 0), 1e-8), f"p={p} q={q}")
            T.check("relative_von_neumann_entropy:same", close(qi.relative_von_neumann_entropy(rho.copy(), rho.copy(), base=base), 0.0, 1e-7), "S(rho||rho)=0")
            for alpha in (0.5, 2, 3):
                T.check("renyi_entropy:diagonal", close(qi.renyi_entropy(D.copy(), alpha, base=base), lg(sum(x ** alpha for x in p)) / (1 - alpha), 1e-7), f"p={p}")
                T.check("tsallis_entropy:diagonal", close(qi.tsallis_entropy(D.copy(), alpha, base=base), (1 - sum(x ** alpha for x in p)) / (alpha - 1), 1e-7), f"p={p}")
        T.check("trace_distance:diagonal", close(qi.trace_distance(D.copy(), E.copy()), sum(abs(x - y) for x, y in zip(p, q)) / 2, 1e-9), f"p={p} q={q}")
        T.check("trace_distance:pure", close(qi.trace_distance(psi.copy(), phi.copy()), math.sqrt(max(0.0, 1 - abs(np.vdot(psi, phi)) ** 2)), 1e-7), "pure states")
        # the general branch drops eigenvalues of sqrt(rho) sigma sqrt(rho) below 1e-8, i.e. eigenvalues of rho below 1e-4:
        # F(rho, rho) is only accurate to about d * 1e-4 (observed 0.99988); tolerance accordingly
        T.check("fidelity:same", close(qi.fidelity(rho.copy(), rho.copy()), 1.0, 2e-3), "F(rho,rho)=1")
        T.check("fidelity:symmetric", close(qi.fidelity(rho.copy(), sig.copy()), qi.fidelity(sig.copy(), rho.copy()), 1e-7), "F symmetric")
        T.check("fidelity:pure_shortcut_vs_definition", close(qi.fidelity(P.copy(), sig.copy()), np.real(np.vdot(psi, sig @ psi)), 1e-8), "<psi|sigma|psi>")
        T.check("fidelity:statevectors", close(qi.fidelity(psi.copy(), phi.copy()), abs(np.vdot(psi, phi)) ** 2, 1e-9), "|<psi|phi>|^2")
        # boundary of the purity shortcut: slightly mixed state against the general formula
        lam = 1e-7      # just beyond the purity threshold 1e-8 of the shortcut; Uhlmann fidelity moves by O(sqrt(lam))
        Pm = (1 - lam) * P + lam * np.eye(d) / d
        fm, fp = qi.fidelity(Pm.copy(), sig.copy()), qi.fidelity(P.copy(), sig.copy())
        T.check("fidelity:mixed_states:continuity_at_pure", close(fm, fp, 5e-3),
                f"fidelity is discontinuous at the pure-state shortcut: F(psi, sigma) = {fp} (shortcut tr(rho sigma)) but for "
                f"rho_l = (1-l)|psi><psi| + l I/d, l=1e-7, the general branch returns {fm} = sqrt of it: the mixed-state branch returns "
                "tr sqrt(sqrt(rho) sigma sqrt(rho)) without squaring, although the docstring defines F = tr^2(...)", {"d": d, "seed": seed})
        want = sum(math.sqrt(x * y) for x, y in zip(p, q)) ** 2
        got = qi.fidelity(D.copy(), E.copy())
        T.check("fidelity:mixed_states:diagonal", close(got, want, 1e-7),
                f"fidelity(diag p, diag q) = {got}, definition tr^2 sqrt(sqrt(rho) sigma sqrt(rho)) = (sum sqrt(p q))^2 = {want} "
                f"(the returned value is its square root), p={p} q={q}", {"p": p, "q": q})
        from scipy.linalg import sqrtm
        sr = sqrtm(rho)
        want = float(np.real(np.trace(sqrtm(sr @ sig @ sr))) ** 2)
        got = qi.fidelity(rho.copy(), sig.copy())
        T.check("fidelity:mixed_states:definition", close(got, want, 2e-3),
                f"fidelity(rho, sigma) = {got} for two mixed states, Uhlmann fidelity tr^2 sqrt(sqrt(rho) sigma sqrt(rho)) = {want}", {"d": d, "seed": seed})
        T.check("bures_distance:mixed_states", close(qi.bures_distance(rho.copy(), sig.copy()), math.sqrt(max(0.0, 2 * (1 - math.sqrt(want)))), 2e-3),
                f"bures_distance = {qi.bures_distance(rho.copy(), sig.copy())}, sqrt(2(1-sqrt F)) = {math.sqrt(max(0.0, 2 * (1 - math.sqrt(want))))} (inherits the fidelity defect)",
                {"d": d, "seed": seed})
        T.check("purity:statevector", close(qi.purity(psi.copy()), 1.0, 1e-9), "purity of a normalised state vector")
        T.check("purity:spectrum", close(qi.purity(rho.copy()), float(np.sum(ev ** 2)), 1e-9), "Tr rho^2 = sum lambda^2")
        T.check("bures_distance", close(qi.bures_distance(rho.copy(), sig.copy()), math.sqrt(max(0.0, 2 * (1 - math.sqrt(qi.fidelity(rho.copy(), sig.copy()))))), 1e-9), "formula")
        if n >= 2:
            part = sorted(rng.sample(range(n), rng.randint(1, n - 1)))
            red = qi.partial_trace(psi.copy(), part)
            sv = np.linalg.eigvalsh(red)
            T.check("entanglement_entropy", close(qi.entanglement_entropy(psi.copy(), part), -sum(x * math.log2(x) for x in sv if x > 1e-15), 1e-7), f"part={part}")
            T.check("concurrence", close(qi.concurrence(psi.copy(), part), math.sqrt(max(0.0, 2 * (1 - float(np.sum(sv ** 2))))), 1e-7), f"part={part}")
            T.check("meyer_wallach_entanglement", close(qi.meyer_wallach_entanglement(psi.copy()),
                    2 * (1 - sum(qi.purity(qi.partial_trace(psi.copy(), [q for q in range(n) if q != j])) for j in range(n)) / n), 1e-9), "definition")
            # negativity: product state 0; pure state: ((sum sqrt(lambda))^2 - 1)/2 with Schmidt coefficients
            T.check("negativity:pure", close(qi.negativity(psi.copy(), part), ((np.sum(np.sqrt(np.clip(sv, 0, None)))) ** 2 - 1) / 2, 1e-6), f"part={part}")
            mi = qi.mutual_information(P.copy(), part)
            T.check("mutual_information:pure", close(mi, 2 * qi.entanglement_entropy(psi.copy(), part), 1e-6), "I(A:B) = 2 S(A) for pure states")
    # relative entropies of two DIFFERENT pure states (support of rho not inside support of sigma): +infinity
    a = np.array([1, 0], dtype=complex)
    b = np.array([1, 1], dtype=complex) / math.sqrt(2)
    c = np.array([0, 1], dtype=complex)
    for nm, (x, y) in {"overlapping": (a, b), "orthogonal": (a, c)}.items():
        for form in ("statevector", "density_matrix"):
            X, Y = (x, y) if form == "statevector" else (np.outer(x, x.conj()), np.outer(y, y.conj()))
            got = T.guard("relative_von_neumann_entropy", lambda: qi.relative_von_neumann_entropy(X.copy(), Y.copy()))
            T.check("relative_von_neumann_entropy:different_pure_states", got is not None and math.isinf(float(got)) and got > 0,
                    f"relative_von_neumann_entropy of two different pure states ({nm}, {form}) = {got}; tr[rho log rho] - tr[rho log sigma] is +infinity "
                    "because the support of rho is not contained in the support of sigma (0.0 is the value for identical states only)",
                    {"state": [complex(z).real for z in x], "target": [complex(z).real for z in y], "form": form})
    got = T.guard("relative_renyi_entropy", lambda: qi.relative_renyi_entropy(a.copy(), b.copy(), 0.5))
    want = -2 * math.log2(abs(np.vdot(a, b)) ** 2) / 1.0 / 2 * 1.0
    want = -2 * math.log2(abs(np.vdot(a, b)))  # D_1/2 = -2 log Tr(rho^1/2 sigma^1/2) = -2 log |<a|b>|^2 ... for pure states rho^1/2 = rho
    want = -2 * math.log2(abs(np.vdot(a, b)) ** 2)
    T.check("relative_renyi_entropy:different_pure_states", got is not None and close(got, want, 1e-6),
            f"relative_renyi_entropy(|0>, |+>, alpha=1/2) = {got}, definition -2 log2 tr(rho^1/2 sigma^1/2) = {want}: both-pure shortcut returns 0.0",
            {"state": [1, 0], "target": "|+>", "alpha": 0.5})


def dimension_probes(run, rng, T):
    """every function with a dimension-dependent factor is exercised at n = 1, 2 AND 3 (d = 8: 2^n != 2n, 4^n != n^2,
    d != d^2/2 ...) against closed forms ('test', tolerances)"""
    import qibo.quantum_info as qi
    from qibo import gates
    for n in (1, 2, 3):
        d = 2 ** n
        for pdep in (0.25, 0.5):
            # n-qubit depolarising channel rho -> (1-p) rho + p tr(rho) I/d, Liouville matrix in row order
            vi = np.eye(d).reshape(-1)
            L = ((1 - pdep) * np.eye(d * d) + (pdep / d) * np.outer(vi, vi)).astype(complex)
            fpro = (1 + (d * d - 1) * (1 - pdep)) / d ** 2
            favg = 1 - pdep + pdep / d
            T.check("process_fidelity:depolarizing", close(qi.process_fidelity(L.copy()), fpro, 1e-9), f"n={n} p={pdep}: {qi.process_fidelity(L.copy())} vs {fpro}")
            T.check("process_fidelity:depolarizing", close(qi.process_fidelity(L.copy(), np.eye(d * d, dtype=complex)), fpro, 1e-9), f"with explicit identity target, n={n}")
            T.check("process_infidelity:depolarizing", close(qi.process_infidelity(L.copy()), 1 - fpro, 1e-9), f"n={n} p={pdep}")
            got = qi.average_gate_fidelity(L.copy())
            T.check("average_gate_fidelity:depolarizing", close(got, favg, 1e-9),
                    f"average_gate_fidelity of the {n}-qubit depolarising channel rho -> (1-p) rho + p I/d, p={pdep}, is {got}; "
                    f"the average of <psi|E(psi)|psi> over pure states is 1 - p + p/d = {favg} (d = 2^n must enter (d F_pro + 1)/(d + 1))",
                    {"n": n, "p": pdep})
            T.check("gate_error:depolarizing", close(qi.gate_error(L.copy()), 1 - favg, 1e-9), f"n={n} p={pdep}")
            ch = gates.DepolarizingChannel(tuple(range(n)), pdep)
            T.check("entanglement_fidelity:depolarizing", close(T.guard("entanglement_fidelity", lambda: qi.entanglement_fidelity(ch, n)), favg, 1e-9),
                    f"entanglement_fidelity(DepolarizingChannel on {n} qubits, p={pdep}) on |+>^n should be 1 - p + p/d = {favg}", {"n": n, "p": pdep})
        mm = np.eye(d, dtype=complex) / d
        T.check("purity:maximally_mixed", close(qi.purity(mm.copy()), 1 / d, 1e-12), f"purity(I/d) = 1/d, n={n}")
        T.check("impurity:maximally_mixed", close(qi.impurity(mm.copy()), 1 - 1 / d, 1e-12), f"impurity(I/d) = 1 - 1/d, n={n}")
        T.check("von_neumann_entropy:maximally_mixed", close(qi.von_neumann_entropy(mm.copy()), n, 1e-9), f"S(I/d) = n bits, n={n}")
        T.check("renyi_entropy:maximally_mixed", close(qi.renyi_entropy(mm.copy(), 2), n, 1e-9), f"H_2(I/d) = n bits, n={n}")
        T.check("renyi_entropy:alpha=0", close(qi.renyi_entropy(mm.copy(), 0), n, 1e-9), f"H_0(I/d) = log2 d = n, n={n}")
        T.check("renyi_entropy:alpha=inf", close(qi.renyi_entropy(mm.copy(), np.inf), n, 1e-9), f"H_inf(I/d) = n, n={n}")
        T.check("tsallis_entropy:maximally_mixed", close(qi.tsallis_entropy(mm.copy(), 2), 1 - 1 / d, 1e-9), f"S_2(I/d) = 1 - 1/d, n={n}")
        T.check("hilbert_schmidt_distance:maximally_mixed", close(qi.hilbert_schmidt_distance(mm.copy(), np.diag([1.0] + [0.0] * (d - 1)).astype(complex)), 1 - 1 / d, 1e-12), f"n={n}")
        T.check("trace_distance:maximally_mixed", close(qi.trace_distance(mm.copy(), np.diag([1.0] + [0.0] * (d - 1)).astype(complex)), 1 - 1 / d, 1e-9), f"n={n}")
        T.check("fidelity:maximally_mixed", close(qi.fidelity(mm.copy(), (np.diag(list(range(1, d + 1))) / (d * (d + 1) / 2)).astype(complex)),
                (sum(math.sqrt(k / (d * (d + 1) / 2) / d) for k in range(1, d + 1))) ** 2, 1e-7), f"F(I/d, diag) = (sum sqrt(q_k/d))^2, n={n}")
        # Haar integral: trace one, first moment I/d, second moment = projector on the symmetric subspace / dim
        T.check("haar_integral:first_moment", np.allclose(qi.haar_integral(n, 1), np.eye(d) / d, atol=1e-12), f"n={n}")
        h2 = qi.haar_integral(n, 2)
        swap = np.eye(d * d).reshape(d, d, d, d).transpose(1, 0, 2, 3).reshape(d * d, d * d)
        T.check("haar_integral:second_moment", np.allclose(h2, (np.eye(d * d) + swap) / (d * (d + 1)), atol=1e-12) and close(np.trace(h2), 1.0, 1e-12), f"n={n}")
        # Hadamard transform: both implementations agree with H^{(x)n} v / 2^n (qibo's convention), call after call,
        # and the library's global matrices are left alone
        from qibo import matrices as qmat
        saved_H = np.array(qmat.H, copy=True)
        v = np.array([rng.randint(-4, 4) for _ in range(d)], dtype=float)
        Hn = np.array([[1.0]])
        for _ in range(n):
            Hn = np.kron(Hn, np.array([[1, 1], [1, -1]]))
        want = Hn @ v / d
        T.check("hadamard_transform:fast", np.allclose(qi.hadamard_transform(v.copy(), "fast"), want, atol=1e-12), f"fast == H^n v / 2^n, n={n}")
        r1 = qi.hadamard_transform(v.copy(), "regular")
        r2 = qi.hadamard_transform(v.copy(), "regular")
        same_H = np.array_equal(np.array(qmat.H), saved_H)
        T.check("hadamard_transform:regular:mutates_global", np.allclose(r1, want, atol=1e-12) and np.allclose(r2, want, atol=1e-12) and same_H,
                f"hadamard_transform(v, 'regular') on {n} qubit(s): first call {np.round(r1, 4).tolist()}, second call {np.round(r2, 4).tolist()}, "
                f"expected {np.round(want, 4).tolist()}; qibo.matrices.H unchanged: {same_H}. For one qubit reduce(np.kron, [matrices.H]) IS "
                "matrices.H and np.real returns a view, so `hadamards /= 2**(n/2)` rescales the library's global Hadamard matrix in place: "
                "every later call (any n) is off by a factor sqrt(2) per previous one-qubit call", {"n": n, "v": v.tolist()})
        if not same_H:                  # the failure is already recorded above; only then undo the damage so that the
            qmat.H[...] = saved_H       # other probes of this run report their own defects, not this one again
        if n >= 2:
            ghz = np.zeros(d, dtype=complex)
            ghz[0] = ghz[-1] = 1 / math.sqrt(2)
            prod = np.ones(d, dtype=complex) / math.sqrt(d)
            T.check("meyer_wallach_entanglement:ghz", close(qi.meyer_wallach_entanglement(ghz.copy()), 1.0, 1e-9), f"Q(GHZ_{n}) = 1")
            T.check("meyer_wallach_entanglement:product", close(qi.meyer_wallach_entanglement(prod.copy()), 0.0, 1e-9), f"Q(|+>^{n}) = 0")
            T.check("concurrence:ghz", close(qi.concurrence(ghz.copy(), [0]), 1.0, 1e-7), f"C(GHZ_{n}, [0]) = 1")
            eof = qi.entanglement_of_formation(ghz.copy(), [0])
            T.check("entanglement_of_formation:ghz", close(eof, 1.0, 1e-6) and not math.isnan(float(eof)),
                    f"entanglement_of_formation(GHZ_{n}, [0]) = {eof}, expected 1 ebit: concurrence returns 1.0000000000000002 for a maximally "
                    "entangled state and sqrt(1 - C^2) of a negative number is NaN", {"n": n})
            T.check("negativity:ghz", close(qi.negativity(ghz.copy(), [0]), 0.5, 1e-6), f"N(GHZ_{n}, [0]) = 1/2")
            T.check("entanglement_entropy:ghz", close(qi.entanglement_entropy(ghz.copy(), list(range(n - 1))), 1.0, 1e-7), f"S_A(GHZ_{n}) = 1 bit")
            T.check("mutual_information:ghz", close(qi.mutual_information(np.outer(ghz, ghz.conj()), [0]), 2.0, 1e-6), f"I(GHZ_{n}) = 2")
        if n == 3:
            w = np.zeros(d, dtype=complex)
            w[[1, 2, 4]] = 1 / math.sqrt(3)
            T.check("meyer_wallach_entanglement:w", close(qi.meyer_wallach_entanglement(w.copy()), 8 / 9, 1e-9), "Q(W_3) = 8/9")
        # random_pauli_hamiltonian: the coefficients returned describe a Hamiltonian with the eigenvalues returned
        P = qi.pauli_basis(n)
        for nz in (False, True):
            if nz and n == 1:
                continue
            kw = dict(max_eigenvalue=3.0, normalize=True) if nz else {}
            out = T.guard("random_pauli_hamiltonian", lambda: qi.random_pauli_hamiltonian(n, seed=5, **kw))
            if out is None:
                continue
            coeff, eigs = out
            H = sum(c * p for c, p in zip(coeff, P)) / math.sqrt(d)
            ev = np.linalg.eigvalsh(H)
            T.check(f"random_pauli_hamiltonian:normalize={nz}:spectrum", np.allclose(ev, np.sort(np.real(eigs)), atol=1e-8),
                    f"random_pauli_hamiltonian(n={n}, normalize={nz}{', max_eigenvalue=3' if nz else ''}, seed=5): the Hamiltonian returned has eigenvalues "
                    f"{np.round(ev, 4).tolist()} but the eigenvalues returned with it are {np.round(np.real(eigs), 4).tolist()}"
                    + (" (gap 1 and largest eigenvalue 3 were promised): the eigenVECTORS are rescaled together with the eigenvalues" if nz else ""),
                    {"n": n, "normalize": nz})


def generators(run, rng, T):
    import qibo.quantum_info as qi
    seeds = [0, 1, 7] if run.tier == "quick" else list(range(12))
    herm = lambda M: np.allclose(M, M.conj().T, atol=1e-10)  # noqa: E731
    for seed in seeds:
        for d in ((2, 4, 8) if (run.tier != "quick" or seed == seeds[0]) else (2, 4)):
            n = int(math.log2(d))
            for measure in (None, "haar"):
                U = T.guard("random_unitary", lambda: qi.random_unitary(d, measure, seed=seed))
                T.check(f"random_unitary:{measure}", U is not None and np.allclose(U @ U.conj().T, np.eye(d), atol=1e-10), f"unitary d={d} seed={seed}")
                T.check(f"random_unitary:{measure}:reproducible", np.array_equal(U, qi.random_unitary(d, measure, seed=seed)), "same int seed")
            v = qi.random_statevector(d, seed=seed)
            T.check("random_statevector", close(np.vdot(v, v), 1.0, 1e-12), "normalised")
            T.check("random_statevector:reproducible", np.array_equal(v, qi.random_statevector(d, seed=seed)), "same int seed")
            for metric in ("hilbert-schmidt", "ginibre", "bures"):
                for rank in (None, 1, d // 2 if d > 2 else None):
                    for pure in (False, True):
                        key = f"random_density_matrix:{metric}"
                        rho = T.guard(key, lambda: qi.random_density_matrix(d, rank=rank, pure=pure, metric=metric, seed=seed))
                        if rho is None:
                            continue
                        ev = np.linalg.eigvalsh((rho + rho.conj().T) / 2)
                        T.check(key + ":hermitian", herm(rho), f"d={d} rank={rank} pure={pure} seed={seed}")
                        T.check(key + ":trace", close(np.trace(rho), 1.0, 1e-10), f"trace one d={d} rank={rank} pure={pure}")
                        T.check(key + ":psd", ev.min() > -1e-10, f"min eigenvalue {ev.min()}")
                        if pure:
                            T.check(key + ":pure", close(qi.purity(rho), 1.0, 1e-9), "purity 1 when pure=True")
                        elif rank is not None and metric != "hilbert-schmidt":
                            T.check(key + ":rank", int(np.sum(ev > 1e-10)) <= rank, f"rank {int(np.sum(ev > 1e-10))} <= {rank} (d={d})")
                        T.check(key + ":reproducible", np.array_equal(rho, qi.random_density_matrix(d, rank=rank, pure=pure, metric=metric, seed=seed)), "same int seed")
            for semi in (False, True):
                for nz in (False, True):
                    H = qi.random_hermitian(d, semidefinite=semi, normalize=nz, seed=seed)
                    T.check("random_hermitian:hermitian", herm(H), f"d={d}")
                    if semi:
                        T.check("random_hermitian:semidefinite", np.linalg.eigvalsh(H).min() > -1e-10, "PSD")
                    if nz:
                        T.check("random_hermitian:normalize", close(np.linalg.norm(H), 1.0, 1e-10), "Frobenius norm 1")
            for bist in (False, True):
                for dd in (False, True):
                    with warnings.catch_warnings(record=True) as wl:
                        warnings.simplefilter("always")
                        try:
                            M = qi.random_stochastic_matrix(d, bistochastic=bist, diagonally_dominant=dd, seed=seed)
                        except Exception as e:  # noqa: BLE001
                            T.check("random_stochastic_matrix:raises", False, f"{type(e).__name__}: {e}")
                            continue
                    warned = any("max iterations" in str(w_.message) for w_ in wl)
                    T.check("random_stochastic_matrix:rows", np.allclose(M.sum(axis=1), 1.0, atol=1e-10) and M.min() >= 0, f"rows sum to one, d={d} bist={bist} dd={dd}")
                    if bist and not warned:     # when the iteration budget is exhausted the function warns instead
                        T.check("random_stochastic_matrix:columns", np.allclose(M.sum(axis=0), 1.0, atol=1e-6), "columns sum to one")
                    if dd:
                        T.check("random_stochastic_matrix:diagonally_dominant", all(2 * M[i, i] >= M[i].sum() - 1e-12 for i in range(d)), "diagonal dominance")
                    with warnings.catch_warnings():
                        warnings.simplefilter("ignore")
                        T.check("random_stochastic_matrix:reproducible", np.array_equal(M, qi.random_stochastic_matrix(d, bistochastic=bist, diagonally_dominant=dd, seed=seed)), "seed")
            if d <= 4:
                rho = qi.random_density_matrix(d, seed=seed + 100)
                for measure in (None, "haar", "bcsz"):
                    for order in ("row", "column"):
                        key = f"random_quantum_channel:{measure}:order={order}"
                        L = T.guard(key, lambda: qi.random_quantum_channel(d, "liouville", measure=measure, order=order, seed=seed))
                        if L is None:
                            continue
                        out = qi.unvectorization(L @ qi.vectorization(rho, order=order), order=order)
                        C = qi.liouville_to_choi(L, order=order)
                        T.check(key + ":trace_preserving", close(np.trace(out), 1.0, 1e-9),
                                f"random_quantum_channel(dims={d}, 'liouville', measure={measure!r}, order={order!r}, seed={seed}) is not trace preserving: "
                                f"tr E(rho) = {np.trace(out):.6f} for a unit-trace rho (the BCSZ normalisation traces out / rescales the wrong "
                                "tensor factor for column vectorisation)", {"dims": d, "measure": measure, "order": order, "seed": seed})
                        T.check(key + ":completely_positive", np.linalg.eigvalsh((C + C.conj().T) / 2).min() > -1e-9 and herm(C), "Choi PSD")
                        T.check(key + ":reproducible", np.array_equal(L, qi.random_quantum_channel(d, "liouville", measure=measure, order=order, seed=seed)), "seed")
            if n <= 3:
                Uc = T.guard("random_clifford", lambda: qi.random_clifford(n, return_circuit=False, seed=seed))
                if Uc is not None:
                    T.check("random_clifford:unitary", np.allclose(Uc @ Uc.conj().T, np.eye(d), atol=1e-10), "unitary")
                    ok = True
                    paulis = qi.pauli_basis(n)
                    for P in paulis[1:]:
                        W = Uc @ P @ Uc.conj().T
                        ov = np.array([np.trace(Pk.conj().T @ W) / d for Pk in paulis])
                        ok &= bool(np.isclose(np.abs(ov).max(), 1.0, atol=1e-8))
                    T.check("random_clifford:normalises_paulis", ok, f"U P U^dagger is a signed Pauli, n={n} seed={seed}")
                    T.check("random_clifford:reproducible", np.array_equal(Uc, qi.random_clifford(n, return_circuit=False, seed=seed)), "seed")
            pm = qi.random_pauli(n, depth=3, return_circuit=False, seed=seed)
            T.check("random_pauli:shape", tuple(pm.shape) == (n, 3, 2, 2), f"shape {pm.shape}")


# ----------------------------------------------------------------------------- F. seed state machine
def seed_machine(run, rng):
    """histories of generator calls: int seeds, passed Generators, against C18/Model.call"""
    import qibo.quantum_info as qi
    funcs = {
        "random_statevector": (lambda s: qi.random_statevector(4, seed=s)),
        "random_unitary_haar": (lambda s: qi.random_unitary(2, "haar", seed=s)),
        "random_gaussian_matrix": (lambda s: qi.random_gaussian_matrix(3, seed=s)),
        "random_density_matrix": (lambda s: qi.random_density_matrix(2, seed=s)),
        "random_density_matrix_bures": (lambda s: qi.random_density_matrix(2, metric="bures", seed=s)),
        "random_hermitian": (lambda s: qi.random_hermitian(2, seed=s)),
        "random_stochastic_matrix": (lambda s: qi.random_stochastic_matrix(3, seed=s)),
        "random_pauli": (lambda s: qi.random_pauli(2, depth=2, return_circuit=False, seed=s)),
        "uniform_sampling_U3": (lambda s: qi.uniform_sampling_U3(3, seed=s)),
        "random_quantum_channel": (lambda s: qi.random_quantum_channel(2, seed=s)),
    }
    names = sorted(funcs)

    def consumed(name):
        """number of 64-bit words... not observable; we use the generator state itself as the position"""
        return None
    nh = 12 if run.tier == "quick" else 80
    terms, meta = [], []
    for hi in range(nh):
        ngen = rng.randint(1, 3)
        gseeds = [rng.randrange(1000) for _ in range(ngen)]
        hist = []
        for _ in range(rng.randint(3, 8)):
            kind = rng.choice(["int", "gen", "gen", "none"])
            arg = ("int", rng.randrange(1000)) if kind == "int" else (("gen", rng.randrange(ngen)) if kind == "gen" else ("none", 0))
            hist.append((rng.choice(names), arg))

        def play():
            gens = [np.random.default_rng(s) for s in gseeds]
            outs, states = [], []
            for name, (kind, v) in hist:
                s = v if kind == "int" else (gens[v] if kind == "gen" else None)
                with warnings.catch_warnings():
                    warnings.simplefilter("ignore")
                    outs.append(np.array(funcs[name](s)))
                states.append([str(g.bit_generator.state["state"]) for g in gens])
            return outs, states
        o1, s1 = play()
        o2, s2 = play()
        # reference streams: what a single generator that is only ever advanced would give
        ok = True
        detail = ""
        pos = [0] * ngen                         # number of calls consumed per generator (model position, in call units)
        ref = [np.random.default_rng(s) for s in gseeds]
        for i, (name, (kind, v)) in enumerate(hist):
            if kind == "int":
                want = np.array(funcs[name](np.random.default_rng(v)))      # model: stream (v, 0)
                if not np.array_equal(o1[i], want) or not np.array_equal(o1[i], o2[i]):
                    ok, detail = False, f"call {i} {name}(seed={v}) is not a function of the int seed"
            elif kind == "gen":
                want = np.array(funcs[name](ref[v]))                        # model: stream (seed_v, pos_v), then advanced
                pos[v] += 1
                if not np.array_equal(o1[i], want) or not np.array_equal(o1[i], o2[i]):
                    ok, detail = False, f"call {i} {name}(seed=<Generator {v}>) did not continue the generator's stream"
                if s1[i][v] != str(ref[v].bit_generator.state["state"]):
                    ok, detail = False, f"call {i} {name}: generator {v} not left at the position after its own draws"
                for w in range(ngen):
                    if w != v and i > 0 and s1[i][w] != s1[i - 1][w]:
                        ok, detail = False, f"call {i} {name}: touched generator {w} that was not passed"
            else:
                if i > 0 and s1[i] != s1[i - 1]:
                    ok, detail = False, f"call {i} {name}(seed=None) advanced a user generator"
        # a passed generator must be advanced (never re-seeded): two consecutive calls differ
        for v in range(ngen):
            idxs = [i for i, (nm, (k, x)) in enumerate(hist) if k == "gen" and x == v]
            for a_, b_ in zip(idxs, idxs[1:]):
                if hist[a_][0] == hist[b_][0] and np.array_equal(o1[a_], o1[b_]):
                    ok, detail = False, f"calls {a_},{b_} on the same Generator returned identical output (re-seeded?)"
        run.case({"history": [(n_, k, v) for n_, (k, v) in hist], "gens": gseeds}, True)
        if hi < 2:
            run.sample({"seed_history": [(n_, k, v) for n_, (k, v) in hist], "generator_seeds": gseeds})
        if not ok:
            run.find("seed_handling", detail, {"history": [(n_, k, v) for n_, (k, v) in hist], "gens": gseeds})
        # the same history through the Coq state machine: which (stream,start) each call reads
        w0 = "(mkworld [" + ";".join(f"mkgen (user_stream {s}%nat) 0%nat" for s in gseeds) + "] 0%nat)"
        calls = "[" + ";".join({"int": f"SInt {v}%nat", "gen": f"SGen {v}%nat", "none": "SNone"}[k] for _, (k, v) in hist) + "]"
        # expected by the implementation-side bookkeeping (positions counted in calls, one unit per call)
        exp, p2, ent = [], [0] * ngen, 0
        for _, (k, v) in hist:
            if k == "int":
                exp.append((2 * v, 0))
            elif k == "gen":
                exp.append((2 * gseeds[v], p2[v]))
                p2[v] += 1
            else:
                exp.append((2 * ent + 1, 0))
                ent += 1
        explit = "[" + ";".join(f"({a}%nat,{b}%nat)" for a, b in exp) + "]"
        terms.append((f"h{hi}", f"reads_eqb (run_calls {w0} {calls}) {explit}"))
        meta.append(hi)
    out, log = run.coq_bools("C18_seed.v", HEADER, terms, timeout=300)
    if out is None:
        run.find("coq:seed_handling", "generated Coq file did not compile", {}, concrete=False)
    else:
        for (lab, _), hi in zip(terms, meta):
            if not out[lab]:
                run.find("model:seed_handling", f"history {hi}: state-machine model and bookkeeping disagree", {"history": hi}, concrete=False)



# ----------------------------------------------------------------------------- H. process-level determinism of the seeded generators
def _canon(x):
    """bit-for-bit, JSON-able image of a generator output (arrays: dtype, shape, sha256 of the buffer; circuits: gate list)"""
    import hashlib
    from qibo import Circuit
    if isinstance(x, Circuit):
        gl = [[type(g).__name__, [int(q) for q in g.qubits], [_canon(np.asarray(p_)) for p_ in getattr(g, "parameters", ())]] for g in x.queue]
        return {"circuit": [int(x.nqubits), bool(x.density_matrix), gl], "show": " ".join(f"{g[0]}{g[1]}" for g in gl[:12])}
    if isinstance(x, (tuple, list)):
        return {"seq": [_canon(y) for y in x]}
    if isinstance(x, (bool, int, float, complex, np.number)):
        return {"num": repr(complex(x))}
    a = np.ascontiguousarray(np.asarray(x))
    return {"array": [str(a.dtype), list(a.shape), hashlib.sha256(a.tobytes()).hexdigest()],
            "show": str(np.round(a.ravel()[:4], 6).tolist())}


def _call_spec(spec):
    import qibo.quantum_info as qi
    with warnings.catch_warnings():
        warnings.simplefilter("ignore")
        try:
            return _canon(getattr(qi, spec["fn"])(**spec["kw"]))
        except Exception as e:  # noqa: BLE001
            return {"raises": f"{type(e).__name__}: {str(e)[:120]}"}


def _worker_main():
    """fresh interpreter: specs on stdin -> canonical outputs on stdout"""
    import json
    import sys
    specs = json.load(sys.stdin)
    np.seterr(all="ignore")
    json.dump({"hashseed": __import__("os").environ.get("PYTHONHASHSEED"), "out": [_call_spec(sp) for sp in specs]}, sys.stdout)


def determinism_specs(run, rng):
    """every generator of random_ensembles.py that takes a seed x every option (each option value at least once, options crossed
    pairwise where cheap); JSON-able keyword arguments"""
    quick = run.tier == "quick"
    S = []

    def add(fn, **kw):
        for seed in ([rng.randrange(10 ** 6)] if quick else [0, rng.randrange(10 ** 6), 2 ** 32 - 1]):
            S.append({"fn": fn, "kw": {**kw, "seed": seed}})
    add("uniform_sampling_U3", ngates=3)
    for rank in (None, 2):
        add("random_gaussian_matrix", dims=3, rank=rank, mean=0.5, stddev=2.0)
    for semi in (False, True):
        for nz in (False, True):
            add("random_hermitian", dims=4, semidefinite=semi, normalize=nz)
    for measure in (None, "haar"):
        add("random_unitary", dims=4, measure=measure)
    add("random_statevector", dims=8)
    for metric in ("hilbert-schmidt", "ginibre", "bures"):
        for rank, pure in ((None, False), (2, False), (None, True)):
            add("random_density_matrix", dims=4, rank=rank, pure=pure, metric=metric)
    for order in ("row", "column", "system"):
        add("random_density_matrix", dims=2, basis="pauli", normalize=rng.random() < 0.5, order=order)
    for rep in ("liouville", "choi", "kraus", "pauli", "chi", "pauli-ZXIY", "chi-IZYX", "stinespring"):
        for measure in (None, "haar", "bcsz"):
            order = rng.choice(["row", "column"])
            kw = dict(dims=2, representation=rep, measure=measure, order=order)
            if measure == "bcsz":
                kw["rank"] = rng.choice([None, 1, 2])
            if rep.startswith(("pauli", "chi")):
                kw["normalize"] = rng.random() < 0.5
            add("random_quantum_channel", **kw)
    for rc in (True, False):
        for dm in (False, True):
            add("random_clifford", nqubits=rng.choice([1, 2, 3]), return_circuit=rc, density_matrix=dm)
    subsets = [None, ["I", "X"], ["X", "I"], ["X", "Y", "Z"], ["Z", "Y", "X", "I"], ["Y", "Z"], ["Z", "I", "Y"], ["X", "Z", "X", "I"], ["Y"]]
    for sub in subsets:
        for rc in (True, False):
            kw = dict(qubits=rng.choice([2, 3]), depth=rng.choice([3, 4]), subset=sub, return_circuit=rc)
            if rc:
                kw["density_matrix"] = rng.random() < 0.3
            add("random_pauli", **kw)
    add("random_pauli", qubits=[2, 0], depth=3, subset=["Z", "X", "Y"], return_circuit=True)
    add("random_pauli", qubits=[1, 3], depth=2, max_qubits=5, subset=["I", "Y", "X"], return_circuit=True)
    add("random_pauli", qubits=1, depth=4, max_qubits=3, subset=["Z", "X"], return_circuit=False)
    for nz in (False, True):
        add("random_pauli_hamiltonian", nqubits=2, normalize=nz, max_eigenvalue=3 if nz else None, pauli_order=rng.choice(["IXYZ", "ZYXI", "XIZY"]))
    for bist in (False, True):
        for dd in (False, True):
            add("random_stochastic_matrix", dims=3, bistochastic=bist, diagonally_dominant=dd)
    return S


def spec_str(sp):
    return sp["fn"] + "(" + ", ".join(f"{k}={v!r}" for k, v in sp["kw"].items()) + ")"


HASHSEEDS = ("0", "1", "2")


def process_determinism(run, rng, only=None):
    """the same seeded calls in fresh interpreter processes with PYTHONHASHSEED = 0, 1, 2 (ONE process per hash seed, all calls batched)
    and in this process: outputs compared bit for bit.  Model statement: C18/Props.v seed_int_deterministic (a call with an int seed
    reads the same stream in ANY world -- the interpreter's string-hash seed is part of the world)."""
    import json
    import os
    import subprocess
    import sys
    specs = determinism_specs(run, rng) if only is None else [only]
    here = [_call_spec(sp) for sp in specs]
    procs = {}
    for hs in HASHSEEDS:
        env = dict(os.environ)
        env["PYTHONHASHSEED"] = hs
        procs[hs] = subprocess.Popen([sys.executable, "-c", "from harness import c18; c18._worker_main()"], stdin=subprocess.PIPE, stdout=subprocess.PIPE,
                                     stderr=subprocess.PIPE, env=env, text=True, cwd=os.path.dirname(os.path.dirname(os.path.abspath(__file__))))
    outs = {}
    for hs, pr in procs.items():
        try:
            o, e = pr.communicate(json.dumps(specs), timeout=600)
            got = json.loads(o)
            assert got["hashseed"] == hs and len(got["out"]) == len(specs)
            outs[hs] = got["out"]
        except Exception as ex:  # noqa: BLE001
            run.find("process_determinism:worker", f"worker process with PYTHONHASHSEED={hs} failed: {type(ex).__name__}: {str(ex)[:200]} "
                     f"{(e or '')[-300:] if 'e' in dir() else ''}", {}, concrete=False)
            return
    strip = lambda d: {k: v for k, v in d.items() if k != "show"}  # noqa: E731
    bad = {}
    for i, sp in enumerate(specs):
        views = {"this process (PYTHONHASHSEED=%s)" % os.environ.get("PYTHONHASHSEED", "random"): here[i], **{f"fresh process PYTHONHASHSEED={hs}": outs[hs][i] for hs in HASHSEEDS}}
        run.case({"process_determinism": spec_str(sp)}, True)
        ref_name, ref = next(iter(views.items()))
        diff = [(nm, v) for nm, v in views.items() if strip(v) != strip(ref)]
        if diff:
            opts = ",".join(k for k, v in sp["kw"].items() if k not in ("seed", "dims", "qubits", "depth", "nqubits", "ngates") and v not in (None, False))
            key = f"seed_reproducible:processes:{sp['fn']}:{opts}"
            bad[key] = bad.get(key, 0) + 1
            if bad[key] == 1:
                nm, v = diff[0]
                run.find(key, f"{spec_str(sp)} is not reproducible from its seed across interpreter processes: {ref_name} gives "
                         f"{ref.get('show', ref.get('raises', ''))} but {nm} gives {v.get('show', v.get('raises', ''))} (outputs compared bit for bit; the result "
                         "depends on the interpreter's string hash seed)", {"stream": "process_determinism", "spec": sp})
    if only is None:
        run.oblige(f"test:reproducible from a seed across processes: {len(specs)} seeded generator calls (every generator x option of random_ensembles.py) "
                   "give bit-identical outputs in this process and in fresh interpreters with PYTHONHASHSEED = 0, 1, 2", not bad, "test")
        run.notes["process_determinism_calls"] = len(specs)


def random_pauli_oracle(run, rng, T):
    """random_pauli == the documented construction on the seed's own stream: integers(0, len(labels), (len(qubits), depth)) mapped through the
    labels IN THE ORDER THE USER GAVE THEM (duplicates dropped at their first occurrence) -- independent of any set / dict order"""
    import qibo.quantum_info as qi
    mats = {"I": np.eye(2), "X": np.array([[0, 1], [1, 0]]), "Y": np.array([[0, -1j], [1j, 0]]), "Z": np.diag([1, -1])}
    for sub in (None, ["I", "X"], ["X", "I"], ["Z", "Y", "X", "I"], ["Y", "Z"], ["Z", "I", "Y"], ["X", "Z", "X", "I"], ["Y", "Z", "X"]):
        for _ in range(2 if run.tier == "quick" else 8):
            seed, nq, depth = rng.randrange(10 ** 6), rng.choice([2, 3]), rng.choice([2, 3, 5])
            labels = list(dict.fromkeys(sub)) if sub is not None else ["I", "X", "Y", "Z"]
            idx = np.random.default_rng(seed).integers(0, len(labels), size=(nq, depth))
            want = [[labels[k] for k in row] for row in idx]
            got_m = np.asarray(qi.random_pauli(nq, depth, subset=sub, return_circuit=False, seed=seed))
            want_m = np.array([[mats[l_] for l_ in row] for row in want])
            circ = qi.random_pauli(nq, depth, subset=sub, return_circuit=True, seed=seed)
            got_c = [(type(g).__name__, g.qubits[0]) for g in circ.queue]
            want_c = [(l_, q) for q, row in enumerate(want) for l_ in row if l_ != "I"]
            rp = {"subset": sub, "seed": seed, "qubits": nq, "depth": depth}
            T.check("random_pauli:subset_order:matrices", got_m.shape == want_m.shape and np.array_equal(got_m, want_m),
                    f"random_pauli({nq}, {depth}, subset={sub}, return_circuit=False, seed={seed}) is not integers(0, len(subset)) of the seed's stream mapped "
                    f"through the subset in the order given: expected labels {want}", rp)
            T.check("random_pauli:subset_order:circuit", got_c == want_c,
                    f"random_pauli({nq}, {depth}, subset={sub}, return_circuit=True, seed={seed}) gives gates {got_c[:8]}, the seed's stream mapped through the "
                    f"subset in the order given is {want_c[:8]}", rp)


# ----------------------------------------------------------------------------- F. input representation invariance of the measures
def _strided18(v):
    big = np.zeros(tuple(2 * x for x in v.shape), dtype=v.dtype)
    view = big[tuple(slice(None, None, 2) for _ in v.shape)]
    view[...] = v
    return view


def _ro18(v):
    w = v.copy()
    w.setflags(write=False)
    return w


MEASURE_REPS = {"fortran": (False, np.asfortranarray), "strided_view": (False, _strided18), "readonly": (False, _ro18),
                "float64": (True, lambda v: v.real.astype(np.float64)), "float64_fortran": (True, lambda v: np.asfortranarray(v.real.astype(np.float64)))}


def measure_representation(run, rng, T):
    """every measure on the same state handed over as float64 (real-valued states) / Fortran order / strided view / read-only == the answer
    for the complex128 C-order array (1e-10: LAPACK may take another path for real input)"""
    import qibo.quantum_info as qi
    quick = run.tier == "quick"
    for n in ((2, 3) if quick else (1, 2, 3, 4)):
        d = 2 ** n
        for real in (True, False):
            A = np.array([[complex(rng.randint(-3, 3), 0 if real else rng.randint(-3, 3)) for _ in range(d)] for _ in range(d)])
            rho = A @ A.conj().T + np.eye(d)
            rho = rho / np.trace(rho)
            B_ = np.array([[complex(rng.randint(-3, 3), 0 if real else rng.randint(-3, 3)) for _ in range(d)] for _ in range(d)])
            sigma = B_ @ B_.conj().T + 2 * np.eye(d)
            sigma = sigma / np.trace(sigma)
            psi = np.array([complex(rng.randint(-3, 3), 0 if real else rng.randint(-3, 3)) for _ in range(d)]) + (1 if real else 1j)
            psi = psi / np.linalg.norm(psi)
            sub = rng.sample(range(n), max(1, n - 1))
            part = sorted(rng.sample(range(n), max(1, n // 2)))
            fns = {"partial_trace(rho)": lambda r, s_, p_: qi.partial_trace(r, sub), "partial_trace(psi)": lambda r, s_, p_: qi.partial_trace(p_, sub),
                   "partial_transpose": lambda r, s_, p_: qi.partial_transpose(r, part), "purity": lambda r, s_, p_: qi.purity(r),
                   "trace_distance": lambda r, s_, p_: qi.trace_distance(r, s_), "fidelity(mixed)": lambda r, s_, p_: qi.fidelity(r, s_),
                   "fidelity(pure)": lambda r, s_, p_: qi.fidelity(p_, p_ if real else np.conj(p_) * 0 + p_), "hilbert_schmidt_distance": lambda r, s_, p_: qi.hilbert_schmidt_distance(r, s_),
                   "von_neumann_entropy": lambda r, s_, p_: qi.von_neumann_entropy(r), "relative_von_neumann_entropy": lambda r, s_, p_: qi.relative_von_neumann_entropy(r, s_),
                   "entanglement_entropy": lambda r, s_, p_: qi.entanglement_entropy(p_, part), "renyi_entropy": lambda r, s_, p_: qi.renyi_entropy(r, 2.5),
                   "tsallis_entropy": lambda r, s_, p_: qi.tsallis_entropy(r, 1.5), "negativity": lambda r, s_, p_: qi.negativity(r, part),
                   "meyer_wallach_entanglement": lambda r, s_, p_: qi.meyer_wallach_entanglement(p_), "matrix_power": lambda r, s_, p_: qi.matrix_power(r, 0.5),
                   "schmidt_decomposition": lambda r, s_, p_: qi.schmidt_decomposition(p_, part)[1], "bures_distance": lambda r, s_, p_: qi.bures_distance(r, s_)}
            if n > 1:
                fns["mutual_information"] = lambda r, s_, p_: qi.mutual_information(r, part)
            for name, f in fns.items():
                try:
                    want = np.asarray(f(rho.copy(), sigma.copy(), psi.copy()))
                except Exception:  # noqa: BLE001
                    continue
                for rep, (need_real, conv) in MEASURE_REPS.items():
                    if need_real and not real:
                        continue
                    args = (conv(rho), conv(sigma), conv(psi))
                    snap = [np.array(a_).tobytes() for a_ in args]
                    rp = {"measure": name, "rep": rep, "n": n, "real": real, "traced": sub, "partition": part}
                    try:
                        got = np.asarray(f(*args))
                        ok = got.shape == want.shape and np.allclose(got, want, atol=1e-10, rtol=1e-10)
                        detail = f"{name} on {n} qubits changes when the state(s) are handed over as {rep} (same numbers): {np.round(got.ravel()[:4], 8).tolist()} vs {np.round(want.ravel()[:4], 8).tolist()}"
                    except Exception as e:  # noqa: BLE001
                        ok, detail = False, f"{name} on {n} qubits raises {type(e).__name__}: {str(e)[:120]} when the state(s) are handed over as {rep}; the complex128 C-order call succeeds"
                    T.check(f"representation:{name}:{rep}", ok, detail, rp)
                    T.check(f"representation:{name}:{rep}:input_mutated", [np.array(a_).tobytes() for a_ in args] == snap, f"{name} wrote its {rep} input", rp)


RULE = ("bookkeeping: ALL ordered sub-lists of the qubits (n<=4 quick, n<=5 thorough) x {state-vector, density-matrix} route on seeded "
        "asymmetric Gaussian-integer states, each output compared in Coq with the model and with the textbook sum; non-trivial = the "
        "list is unsorted or a proper non-empty subset; classical measures on dyadic distributions / random bit strings; seed histories "
        "of 3-8 generator calls mixing int seeds, shared Generators and None; 'test' items are property-style float checks; "
        "definition-level stream (c18_defs): per size 1..4 (5) a corpus of ~15 state classes (pure vectors / pure DMs: basis, product, random, GHZ, W; "
        "mixed: maximally mixed, diagonal full-rank / rank-deficient, products of diagonal blocks, GHZ-diagonal full / deficient, Werner, nearly pure "
        "eps = 2^-10, 2^-20, random full-rank / rank-k, products of mixed blocks) x every public measure x bases x check_hermitian x orders / containers "
        "of the traced qubits, each compared with an independent oracle, inputs snapshot; call histories of table / cache based functions; "
        "process-level determinism (family H): every seeded generator x option of random_ensembles.py (~100 calls) in THREE fresh interpreters with "
        "PYTHONHASHSEED = 0, 1, 2 and in this process, outputs compared bit for bit; random_pauli == the seed's integer stream mapped through the subset "
        "in the user's order; representation invariance of ~19 measures (float64 / Fortran / strided / read-only inputs)")


def main(run):
    rng = random.Random(run.seed)
    run.trusted += ["Coq 8.16.1 kernel, vm_compute", "numpy complex128 arithmetic on integers below 2^50 (exact)",
                    "numpy.random.Generator: same seed => same stream (the model's only assumption about the PRNG)",
                    "harness/c18.py"]
    run.assumptions += ["exact arithmetic; floats are compared with a tolerance only in the part labelled 'test'",
                        "eigh/eigvals/svd/matrix_power are oracles (spectral measures are outside the proof)"]
    run.not_proved += ["von_neumann_entropy, trace_distance, mixed-state fidelity, negativity, concurrence, relative entropies: "
                       "spectral, exercised as tests only", "Haar / Bures / BCSZ distribution claims", "diamond_norm (cvxpy absent)",
                       "limits alpha->1 and alpha->infinity of the Renyi family (proved: the alpha=0 branch is the Hartley value, and "
                       "the Tsallis alpha->1 limit)"]
    run.not_proved += ["public functions of quantum_info WITHOUT a definition-level oracle in this check: entangling_capability, expressibility, "
                       "frame_potential, pqc_integral (Monte-Carlo estimates over random circuits), quantum_fisher_information_matrix, "
                       "lanczos, diamond_norm (cvxpy absent), haar_integral for power_t > 2, hellinger_* with validate=True error paths; "
                       "sparse=True variants of pauli_basis / comp_basis_to_pauli / pauli_to_comp_basis",
                       "negativity / relative entropies / fractional Renyi-Tsallis orders on 16x16 and larger states: only a budgeted subset per run "
                       "(scipy fractional matrix powers dominate the run time); all sizes <= 2 qubits are exhaustive over the corpus"]
    run.trusted += ["harness/c18_defs.py (independent einsum partial trace / transpose, eigvalsh, exact dyadic spectra)"]
    ok, pa = vcore.static_assumptions("C18/Props")
    for name in vcore.props_theorems("C18/Props.v"):
        run.oblige(name, ok and name in pa, "static theorem")
        if ok and name in pa and "Closed under the global context" not in pa[name]:
            import re
            for ax in re.findall(r"([A-Z]\w*(?:\.\w+)+)\s*:", pa[name]):
                run.axioms.add(ax)
    run.checker_cmds.append("make -C coq theories/C18/Props.vo")
    np.random.seed(run.seed)
    warnings.simplefilter("ignore")
    np.seterr(all="ignore")
    bookkeeping(run, rng)
    fastpath_lift(run, random.Random(run.seed + 2))
    process_fidelity_exact(run, random.Random(run.seed + 3))
    kept_order_probe(run)
    meyer_wallach_exact(run, random.Random(run.seed + 4))
    classical(run, rng)
    seed_machine(run, rng)
    T = Tests(run)
    formulas(run, rng, T)
    spectral(run, rng, T)
    dimension_probes(run, rng, T)
    generators(run, rng, T)
    random_pauli_oracle(run, random.Random(run.seed + 5), T)
    process_determinism(run, random.Random(run.seed + 6))
    measure_representation(run, random.Random(run.seed + 7), T)
    from harness import c18_defs
    c18_defs.run_all(run, random.Random(run.seed + 18))
    seen, uniq = set(), []
    for f in run.findings:          # one finding per key (the first failing case is the replay)
        if f.key not in seen:
            seen.add(f.key)
            uniq.append(f)
    run.notes["failing_cases_per_key"] = {k: sum(1 for f in run.findings if f.key == k) for k in seen}
    run.findings = uniq
    REF = {"tsallis_alpha1_base2": "classical_tsallis_entropy:alpha=1:base=2"}
    for thm, prefix in REF.items():
        if any(f.key.startswith(prefix) for f in run.findings):
            run.refuted.append(thm)
        else:
            run.notes.setdefault("refutations_not_reproduced", []).append(
                f"{thm}_refuted is a theorem about the branch as written; the defect no longer reproduces on this tree")
    run.notes["test_labelled_checks"] = T.n
    run.notes["test_labelled_failures"] = T.failed
    return run.finish(level="proof", rule=RULE)


def replay(run, data):
    """re-run the whole (cheap) check and keep the recorded key"""
    rng = random.Random(data.get("seed", 0))
    key = data["key"]
    if key.startswith(("reset_error", "depolarizing_error")):
        fastpath_lift(run, random.Random(data.get("seed", 0) + 2))
    elif key.startswith(("partial_", "schmidt", "purity", "hilbert", "fidelity:pure_shortcut", "process_fidelity", "model:", "coq:")):
        bookkeeping(run, rng)
    elif key.startswith(("meyer_wallach_entanglement:integer_state", "input_mutated:meyer_wallach", "coq:meyer_wallach")):
        meyer_wallach_exact(run, random.Random(data.get("seed", 0) + 4))
    elif key.startswith(("hamming", "total_variation")):
        classical(run, rng)
    elif key.startswith("seed_reproducible:processes"):
        process_determinism(run, rng, only=data.get("replay", {}).get("spec"))
    elif key.startswith("representation:"):
        warnings.simplefilter("ignore")
        np.seterr(all="ignore")
        measure_representation(run, random.Random(data.get("seed", 0) + 7), Tests(run))
    elif key.startswith("random_pauli:subset_order"):
        random_pauli_oracle(run, random.Random(data.get("seed", 0) + 5), Tests(run))
    elif key.startswith("seed"):
        seed_machine(run, rng)
    else:
        T = Tests(run)
        formulas(run, rng, T)
        spectral(run, rng, T)
        dimension_probes(run, rng, T)
        generators(run, rng, T)
        if not any(f.key == key for f in run.findings):
            # the definition-level stream (harness/c18_defs.py) has its own generator, seeded with seed + 18
            from harness import c18_defs
            warnings.simplefilter("ignore")
            np.seterr(all="ignore")
            c18_defs.run_all(run, random.Random(data.get("seed", 0) + 18))
    run.findings = [f for f in run.findings if f.key == key][:1]
    return run.finish(rule="replay of one recorded finding (the generating section is re-executed with the recorded seed)")
