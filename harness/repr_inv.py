"""Input-representation invariance (STRENGTHEN_GUIDE family F), shared by C01 / C02 / C04.

The same mathematical array handed to a public entry in another representation (memory layout, dtype, container, flags)
must give the answer of the canonical representation (complex128, C order, writeable, own data) and must not be written.
Model statement: C01/Layout.v (a strided view denotes its logical array; every execution model is a function of the
logical array; flattening in memory order is NOT: `ravel_memory_order_is_not_logical`).

variants(a)  ->  [(label, obj, guard)]   obj denotes the same array as `a`; guard() -> None | text, to be called after the
                                         public call: the user's buffers (including the parts of a bigger array outside a
                                         strided view) are unchanged.
"""
import numpy as np

CANON = "c128_C"


def _is_int(a):
    return bool(np.all(a.real == np.round(a.real)) and np.all(a.imag == np.round(a.imag)) and np.abs(a).max(initial=0) < 2 ** 20)


def variants(a, containers=True, real=False):
    """every representation of the array `a` (1-d or 2-d) that denotes exactly the same numbers; real=True: the canonical
    representation is float64 (probabilities, times) and no complex variant is produced"""
    base = np.float64 if real else np.complex128
    a = np.array(a, dtype=base, order="C")
    fill1, fill2 = (7.5, -3.25) if real else (7 - 5j, -3 + 2j)
    out = []

    def add(label, obj, base=None):
        base = obj if base is None else base
        if isinstance(base, np.ndarray):
            snap = base.copy(order="K")
            snap_bytes = base.tobytes(order="A")

            def guard(base=base, snap=snap, snap_bytes=snap_bytes):
                if base.tobytes(order="A") != snap_bytes or not np.array_equal(base, snap):
                    return "the caller's buffer was written"
                return None
        else:
            import copy
            snap = copy.deepcopy(base)

            def guard(base=base, snap=snap):
                return None if base == snap else "the caller's container was written"
        out.append((label, obj, guard))
    add(CANON, a.copy())
    add("fortran", np.asfortranarray(a.copy()))
    if a.ndim == 2:
        add("transposed_view", a.T.copy().T)                       # F-ordered view that does not own its data
        add("conjT_conjT_view", a.conj().T.conj().T)               # the `.conj().T` idiom applied twice
        big = np.full((2 * a.shape[0] + 1, 3 * a.shape[1] + 2), fill1, dtype=base)
        big[1::2, 2::3] = a
        add("strided_view", big[1::2, 2::3], big)
        big2 = np.full((a.shape[0] + 3, a.shape[1] + 4), fill2, dtype=base, order="F")
        big2[2:2 + a.shape[0], 1:1 + a.shape[1]] = a
        add("slice_of_fortran", big2[2:2 + a.shape[0], 1:1 + a.shape[1]], big2)
        add("reversed_view", a[::-1, ::-1].copy()[::-1, ::-1])
    else:
        big = np.full(3 * a.shape[0], fill1, dtype=base)
        big[1::3] = a
        add("strided_view", big[1::3], big)
        col = np.full((a.shape[0], 3), fill2, dtype=base)
        col[:, 1] = a
        add("column_of_matrix", col[:, 1], col)
        add("reversed_view", a[::-1].copy()[::-1])
    ro = a.copy()
    ro.flags.writeable = False
    add("readonly", ro)
    rof = np.asfortranarray(a.copy())
    rof.flags.writeable = False
    add("readonly_fortran", rof)
    add("bigendian", a.astype(">f8" if real else ">c16"))
    single = np.float32 if real else np.complex64
    if np.array_equal(a.astype(single).astype(base), a):           # single precision holds these numbers exactly
        add("single", a.astype(single))
        add("single_fortran", np.asfortranarray(a.astype(single)))
    if real or not np.any(a.imag):
        r = a.real
        if not real:
            add("float64", r.copy())
            add("float64_fortran", np.asfortranarray(r.copy()))
            if np.array_equal(r.astype(np.float32).astype(np.float64), r):
                add("float32", r.astype(np.float32))
        if _is_int(a):
            add("int64", r.astype(np.int64))
            add("int32_fortran", np.asfortranarray(r.astype(np.int32)))
            if containers:
                add("list_of_int", r.astype(np.int64).tolist())
        if containers and not real:
            add("list_of_float", r.tolist())
    if containers:
        add("list", a.tolist())
        add("tuple", tuple(map(tuple, a.tolist())) if a.ndim == 2 else tuple(a.tolist()))
    return out


def shares(res, obj, base_guard=None):
    """a returned array must not be a view of the caller's input"""
    try:
        return isinstance(obj, np.ndarray) and isinstance(res, np.ndarray) and bool(np.shares_memory(res, obj))
    except Exception:  # noqa: BLE001
        return False


def rebuild(label, a, real=False):
    """replay helper: the variant `label` of the canonical array a"""
    for lab, obj, guard in variants(a, real=real):
        if lab == label:
            return obj, guard
    raise KeyError(label)
