"""C16 helper: adiabatic schedules that leave the usual range, histories on adiabatic objects, scalar-multiple histories.

Streams (all driven from harness/c16.py main):
  run_schedules       AdiabaticEvolution objects (dense: exp / rk4 / rk45; symbolic: Trotter / rk4 / rk45) executed
                      several times on ONE object with a different legal schedule each time (schedule setter,
                      set_parameters for s(t, p) forms, total_time != 1): non-monotone, > 1, < 0, piecewise
                      constant, polynomial with parameters.  Every Hamiltonian the solver obtains from
                      BaseAdiabaticHamiltonian.__call__ (spy) and every coefficient dict handed to TermGroup.to_term
                      by SymbolicAdiabaticHamiltonian.circuit (spy) is compared with (1 - s) H0 + s H1 built
                      independently -- exactly inside Coq (C16/ModelSched.ad_ham_at / ad_coeffs_at evaluate the
                      schedule themselves) for dyadic times, to 1e-12 otherwise -- and the final state with a
                      from-scratch reference of the SAME method (own expm product / RK4 / RKF45 / group exponentials).
                      Cross-solver agreement with a high-accuracy ODE reference is a labelled tolerance test.
  run_object_histories  one BaseAdiabaticHamiltonian / SymbolicAdiabaticHamiltonian object: schedule and total_time
                      assigned and re-assigned between ham(t) / ham.circuit(dt, t) queries; the schedule values
                      used are compared with the Coq state machine ad_run (theorem adiabatic_object_history).
  run_scalar_histories  dense Hamiltonian objects after eigenvalues()/eigenvectors()/exp() multiplied by positive,
                      negative, zero scalars: spectrum / exp / ground state of the product against numpy.
"""
import math
import random
from fractions import Fraction

import numpy as np


# ------------------------------------------------------------------ schedule corpus
class Sched:
    """name; coq spec; python callable written the way a user writes it (floats); exact evaluator"""

    def __init__(self, name, kind, data, smooth=True, fn=None):
        self.name, self.kind, self.data, self.smooth = name, kind, data, smooth
        self._fn = fn

    def exact(self, u):
        u = Fraction(u)
        if self.kind == "poly":
            acc = Fraction(0)
            for c in reversed(self.data):
                acc = Fraction(c) + u * acc
            return acc
        if self.kind == "steps":
            cur = Fraction(0)
            for b, v in self.data:
                if Fraction(b) <= u:
                    cur = Fraction(v)
                else:
                    break
            return cur
        return None

    def value(self, u):
        """float value of the schedule at the float u, independent of the callable given to qibo"""
        if self.kind == "float":
            return float(self._fn(u))
        return float(self.exact(Fraction(u)))

    def callable1(self):
        """s(t) with exactly one positional argument"""
        if self.kind == "poly":
            cs = [float(c) for c in self.data]

            def s(t):
                return sum(c * t ** k for k, c in enumerate(cs))
            return s
        if self.kind == "steps":
            bps = [(float(b), float(v)) for b, v in self.data]

            def s(t):
                cur = 0.0
                for b, v in bps:
                    if b <= t:
                        cur = v
                return cur
            return s
        f = self._fn

        def s(t):
            return f(t)
        return s

    def coq(self):
        q = lambda x: f"({Fraction(x).numerator} # {Fraction(x).denominator})"  # noqa: E731
        if self.kind == "poly":
            return "(SPoly [" + ";".join(q(c) for c in self.data) + "])"
        if self.kind == "steps":
            return "(SSteps [" + ";".join(f"({q(b)}, {q(v)})" for b, v in self.data) + "])"
        return None

    def range_on(self, us):
        vs = [self.value(u) for u in us]
        return min(vs), max(vs)


F = Fraction
CORPUS = [
    Sched("linear", "poly", [0, 1]),
    Sched("square", "poly", [0, 0, 1]),
    Sched("overshoot:4u-3u^2(max 4/3)", "poly", [0, 4, -3]),
    Sched("undershoot:-2u+3u^2(min -1/3)", "poly", [0, -2, 3]),
    Sched("wiggle:5u-12u^2+8u^3(non-monotone in [0,1])", "poly", [0, 5, -12, 8]),
    Sched("overshoot:9u-8u^2(max 81/32)", "poly", [0, 9, -8]),
    Sched("undershoot:-5u+6u^2(min -25/24)", "poly", [0, -5, 6]),
    Sched("steps:0,1/2,1(constant pieces)", "steps", [(0, 0), (F(1, 4), F(1, 2)), (F(3, 4), 1)], smooth=False),
    Sched("steps:0,3/2,-1/2,1(constant pieces out of range)", "steps", [(0, 0), (F(1, 4), F(3, 2)), (F(1, 2), F(-1, 2)), (1, 1)], smooth=False),
    Sched("sin:u+0.6sin(pi u)(max 1.45)", "float", None, fn=lambda u: u + 0.6 * math.sin(math.pi * u)),
    Sched("sin:u-0.6sin(pi u)(min -0.45)", "float", None, fn=lambda u: u - 0.6 * math.sin(math.pi * u)),
]
OUT_OF_RANGE = [s for s in CORPUS if s.name.startswith(("overshoot", "undershoot", "steps:0,3/2", "sin"))]


def param_sched(p):
    """the two-parameter family s(t, p) = t + p0 t (1 - t) + p1 t (1 - t)(1 - 2t) as a polynomial in t"""
    p0, p1 = Fraction(p[0]), Fraction(p[1])
    # t + p0 (t - t^2) + p1 (t - 3 t^2 + 2 t^3)
    return Sched(f"param:p={[str(p0), str(p1)]}", "poly", [0, 1 + p0 + p1, -p0 - 3 * p1, 2 * p1])


def param_callable():
    def sp(t, p):
        return t + p[0] * t * (1 - t) + p[1] * t * (1 - t) * (1 - 2 * t)
    return sp


PARAMS = [(3, 0), (-2, 0), (0, 4), (F(1, 2), 0), (2, -3), (-4, 2)]


# ------------------------------------------------------------------ independent references
def rk4_ref(Hf, psi, t0, dt, nsteps):
    for j in range(nsteps):
        t = t0 + j * dt
        f = lambda tt, y: -1j * (Hf(tt) @ y)  # noqa: E731
        k1 = f(t, psi)
        k2 = f(t + dt / 2, psi + dt * k1 / 2)
        k3 = f(t + dt / 2, psi + dt * k2 / 2)
        k4 = f(t + dt, psi + dt * k3)
        psi = psi + dt * (k1 + 2 * k2 + 2 * k3 + k4) / 6
    return psi / np.linalg.norm(psi)


# Fehlberg 4(5): nodes, coupling coefficients and the 5th-order weights (textbook tableau)
RKF_C = [0, F(1, 4), F(3, 8), F(12, 13), 1, F(1, 2)]
RKF_A = [[], [F(1, 4)], [F(3, 32), F(9, 32)], [F(1932, 2197), F(-7200, 2197), F(7296, 2197)],
         [F(439, 216), -8, F(3680, 513), F(-845, 4104)], [F(-8, 27), 2, F(-3544, 2565), F(1859, 4104), F(-11, 40)]]
RKF_B = [F(16, 135), 0, F(6656, 12825), F(28561, 56430), F(-9, 50), F(2, 55)]


def rk45_ref(Hf, psi, t0, dt, nsteps):
    for j in range(nsteps):
        t = t0 + j * dt
        ks = []
        for c, row in zip(RKF_C, RKF_A):
            y = psi + dt * sum((float(a) * k for a, k in zip(row, ks)), np.zeros_like(psi))
            ks.append(-1j * (Hf(t + float(c) * dt) @ y))
        psi = psi + dt * sum(float(b) * k for b, k in zip(RKF_B, ks))
    return psi / np.linalg.norm(psi)


def exp_ref(Hf, psi, t0, dt, nsteps):
    import scipy.linalg
    for j in range(nsteps):
        psi = scipy.linalg.expm(-1j * dt * Hf(t0 + j * dt)) @ psi
    return psi


def trotter_ref(groups, weight_at, n, psi, t0, dt, nsteps):
    """groups: [[(targets, matrix, owner)]]; weight_at(t) -> {owner: weight}; second-order step with the left-end weights"""
    import scipy.linalg
    from harness.c16 import embed_np
    for j in range(nsteps):
        w = weight_at(t0 + j * dt)
        Gs = [sum(w[o] * embed_np(M, list(q), n) for q, M, o in g) for g in groups]
        for G in Gs + Gs[::-1]:
            psi = scipy.linalg.expm(-1j * (dt / 2.0) * G) @ psi
    return psi


def ode_ref(Hf, psi, T):
    import scipy.integrate
    sol = scipy.integrate.solve_ivp(lambda t, y: -1j * (Hf(t) @ y), (0.0, T), psi.astype(complex), rtol=1e-11, atol=1e-12, method="DOP853")
    y = sol.y[:, -1]
    return y / np.linalg.norm(y)


def int_hermitian(rng, n, cplx):
    N = 2 ** n
    A = np.array([[complex(rng.randrange(-2, 3), rng.randrange(-2, 3) if cplx else 0) for _ in range(N)] for _ in range(N)])
    H = A + A.conj().T
    if not np.any(H):
        H[0, 0] = 1
    return H


def expected_times(kind, dt, nsteps):
    """times at which the adiabatic Hamiltonian is evaluated through __call__ during execute (start time 0)"""
    out = [0.0]
    for j in range(nsteps):
        t = j * dt
        if kind == "exp":
            out += [t + dt]
        elif kind == "rk4":
            out += [t + dt / 2.0, t + dt, t + dt]
        elif kind == "rk45":
            out += [t + dt / 4.0, t + 3 * dt / 8.0, t + 12 * dt / 13.0, t + dt, t + dt / 2.0, t + dt]
    return out


def is_dyadic(x, bits=20):
    fr = Fraction(x)
    return fr.denominator & (fr.denominator - 1) == 0 and fr.denominator <= 2 ** bits


# ------------------------------------------------------------------ stream 1: evolutions under out-of-range schedules
def run_schedules(run, rng):
    from qibo import hamiltonians, models
    from qibo.hamiltonians import adiabatic as AD, terms as TT
    from qibo.symbols import X, Y, Z
    from harness.c16 import HEADER, qq, rand_pauli_form
    from harness.c15 import cmat, ast_sympy, Inexact
    hdr = (HEADER.replace("Local Open Scope Z_scope.", "Local Open Scope Q_scope.")
           .replace("C16.Model.", "C16.Model C16.ModelSched."))
    quick = run.tier == "quick"
    items, meta = [], {}
    worst = {}
    cross = []
    reported = set()

    def report(key, what, rp):
        if key not in reported:
            reported.add(key)
            run.find(key, what, rp)

    calls, coefs = [], []
    orig_call = AD.BaseAdiabaticHamiltonian.__call__
    orig_tt = TT.TermGroup.to_term
    orig_circ = AD.SymbolicAdiabaticHamiltonian.circuit
    cur = {"t": None}

    def spy_call(self, t):
        r = orig_call(self, t)
        calls.append((t, r))
        return r

    def spy_circ(self, dt, accelerators=None, t=0):
        cur["t"] = t
        cur["seen"] = False
        try:
            return orig_circ(self, dt, accelerators, t)
        finally:
            cur["t"] = None

    def spy_tt(self, coefficients={}):
        if coefficients and cur["t"] is not None and not cur["seen"]:
            cur["seen"] = True
            coefs.append((cur["t"], dict(coefficients)))
        return orig_tt(self, coefficients)

    configs = []
    # (object kind, solver kind, parametrised?)
    for okind, skinds in (("dense", ("exp", "rk4", "rk45")), ("symbolic", ("trotter", "rk4") + (() if quick else ("rk45",)))):
        for sk in skinds:
            configs.append((okind, sk, False))
    configs += [("dense", "exp", True), ("dense", "rk4", True), ("symbolic", "trotter", True)]
    if not quick:
        configs = configs * 3

    AD.BaseAdiabaticHamiltonian.__call__ = spy_call
    AD.SymbolicAdiabaticHamiltonian.circuit = spy_circ
    TT.TermGroup.to_term = spy_tt
    try:
        for ci, (okind, sk, parametrised) in enumerate(configs):
            n = 2 if okind == "symbolic" else rng.choice([1, 2])
            N = 2 ** n
            if okind == "dense":
                H0 = sum(np.kron(np.kron(np.eye(2 ** q), np.array([[0, 1], [1, 0]])), np.eye(2 ** (n - q - 1))) for q in range(n)).astype(complex)
                if ci % 2:
                    H0 = H0 + np.kron(np.array([[0, -1j], [1j, 0]]), np.eye(2 ** (n - 1)))
                H1 = int_hermitian(rng, n, ci % 2 == 0)
                mk = lambda n=n, H0=H0, H1=H1: (hamiltonians.Hamiltonian(n, H0.copy()), hamiltonians.Hamiltonian(n, H1.copy()))  # noqa: E731
            else:
                f0 = X(0) + X(1) + (Y(0) * Z(1) if ci % 2 else 0)
                f1 = ast_sympy(rand_pauli_form(rng, n))
                mk = lambda n=n, f0=f0, f1=f1: (hamiltonians.SymbolicHamiltonian(f0, nqubits=n), hamiltonians.SymbolicHamiltonian(f1, nqubits=n))  # noqa: E731
                a, b = mk()
                H0, H1 = np.array(a.matrix), np.array(b.matrix)
                if np.allclose(H0, H1):
                    continue
            h0, h1 = mk()
            solver = {"trotter": "exp"}.get(sk, sk)
            dt = rng.choice([0.25, 0.125])
            # the runs on this one object
            if parametrised:
                plist = [PARAMS[(ci + j) % len(PARAMS)] for j in range(3)]
                scheds = [param_sched(p) for p in plist]
                ev = models.AdiabaticEvolution(h0, h1, param_callable(), dt=dt, solver=solver)
            else:
                base = [OUT_OF_RANGE[(2 * ci) % len(OUT_OF_RANGE)], OUT_OF_RANGE[(2 * ci + 1) % len(OUT_OF_RANGE)],
                        CORPUS[(ci + 4) % len(CORPUS)], rng.choice(CORPUS)]
                scheds = base[: 3 if quick else 4]
                ev = models.AdiabaticEvolution(h0, h1, scheds[0].callable1(), dt=dt, solver=solver)
            groups = None
            if okind == "symbolic":
                groups = [[(tuple(tm.target_qubits), np.asarray(tm.matrix).copy(), 0 if tm.hamiltonian is ev.hamiltonian.h0 else 1) for tm in g]
                          for g in ev.hamiltonian.groups]
            for ri, sc in enumerate(scheds):
                T = dt * rng.choice([2, 4, 8] if sk != "rk45" else [2, 4])
                nsteps = int(round(T / dt))
                if parametrised:
                    ev.set_parameters([float(x) for x in plist[ri]] + [T])
                elif ri > 0:
                    ev.schedule = sc.callable1()          # the setter, between two executions of one object
                use_default = (ri == 1 and okind == "dense")
                if use_default:
                    psi0 = np.asarray(ev.hamiltonian.h0.ground_state()).copy()
                else:
                    psi0 = np.array([complex(rng.randrange(-3, 4), rng.randrange(-3, 4)) for _ in range(N)])
                    if not np.any(psi0):
                        psi0[0] = 1
                    psi0 = psi0 / np.linalg.norm(psi0)
                del calls[:], coefs[:]
                out = np.asarray(ev(final_time=T) if use_default else ev(final_time=T, initial_state=psi0.copy()))
                obs_calls, obs_coefs = list(calls), list(coefs)
                sval = lambda t, _sc=sc, _T=T: 0.0 if t == 0 else _sc.value(t / _T)  # noqa: E731
                Hf = lambda t: (1 - sval(t)) * H0 + sval(t) * H1  # noqa: E731
                desc = {"mechanism": "schedule", "object": okind, "solver": sk, "schedule": sc.name, "parametrised": parametrised,
                        "run_index_on_object": ri, "dt": dt, "total_time": T, "nqubits": n,
                        "h0": [[[z.real, z.imag] for z in r] for r in H0.tolist()], "h1": [[[z.real, z.imag] for z in r] for r in H1.tolist()]}
                lo, hi = sc.range_on([j / 64 for j in range(65)])
                run.case(["schedule", okind, sk, sc.name, ri, dt, T, parametrised], nontrivial=(lo < 0 or hi > 1 or not sc.smooth or ri > 0))
                if ci < 2 and ri == 0:
                    run.sample({"kind": "AdiabaticEvolution under a schedule leaving [0,1]", **{k: desc[k] for k in ("object", "solver", "schedule", "dt", "total_time")},
                                "schedule_range_on_[0,1]": [lo, hi]})
                key = f"adiabatic_schedule:{okind}:{sk}:{sc.name.split('(')[0]}"
                # (1) evaluation times of H(t) through __call__
                want_t = expected_times(sk if sk != "trotter" else "exp", dt, nsteps)
                got_t = [float(t) for t, _ in obs_calls]
                if got_t != want_t:
                    report(key + ":times", f"the adiabatic Hamiltonian is evaluated at {got_t[:8]}... instead of {want_t[:8]}...", {**desc, "times": got_t})
                # (2) every Hamiltonian handed to the solver = (1 - s) H0 + s H1, s from the harness's own evaluation
                conj = []
                for t, r in obs_calls:
                    M = np.asarray(r.matrix)
                    s_ = sval(t)
                    dev = float(np.abs(M - Hf(t)).max())
                    worst[(okind, "H(t)")] = max(worst.get((okind, "H(t)"), 0.0), dev)
                    if dev > 1e-12:
                        report(key, f"H(t={t}) of the {okind} adiabatic Hamiltonian is not (1 - s) H0 + s H1 for the legal schedule {sc.name}: "
                               f"s(t/T) = {s_:.6g}, max deviation {dev:.3e} (solver {sk}, T = {T}, run {ri} on this object)",
                               {**desc, "t": float(t), "s": s_, "max_dev": dev})
                    if okind == "dense" and sc.kind != "float" and is_dyadic(t) and t != 0:
                        sv = sc.exact(Fraction(t) / Fraction(T))
                        try:
                            conj.append(f"meqb (ad_ham_at {sc.coq()} {qq(T)} {qq(t)} {cmat(H0)}%Z {cmat(H1)}%Z) {cmat(sv.denominator * M)}%Z")
                        except Inexact:
                            conj.append("false")
                if conj:
                    lab = f"sch{ci}:{ri}:H"
                    items.append((lab, "(" + " && ".join(conj) + ")%bool"))
                    meta[lab] = {**desc, "what": "den * H(t) at the dyadic query times vs ad_ham_at (schedule evaluated in Coq)"}
                # (3) Trotter: coefficients {h0: 1 - s, h1: s} of every circuit(dt, t)
                if sk == "trotter":
                    want_c = [j * dt for j in range(nsteps)]
                    if [float(t) for t, _ in obs_coefs] != want_c:
                        report(key + ":circuit_times", f"circuit(dt, t) called at t = {[float(t) for t, _ in obs_coefs][:8]} instead of {want_c[:8]}", desc)
                    conj = []
                    for t, cd in obs_coefs:
                        a0, a1 = float(cd[ev.hamiltonian.h0]), float(cd[ev.hamiltonian.h1])
                        s_ = sval(t)
                        dev = max(abs(a0 - (1 - s_)), abs(a1 - s_))
                        worst[(okind, "coefficients")] = max(worst.get((okind, "coefficients"), 0.0), dev)
                        if dev > 1e-12:
                            report(key, f"circuit(dt, t={t}) uses the coefficients ({a0}, {a1}) instead of (1 - s, s) with s = {s_} for the schedule {sc.name}",
                                   {**desc, "t": float(t), "s": s_, "coefficients": [a0, a1]})
                        if sc.kind != "float":
                            conj.append(f"qlist_eqb (ad_coeffs_at {sc.coq()} {qq(T)} {qq(t)}) [{qq(a0)}; {qq(a1)}]")
                    if conj:
                        lab = f"sch{ci}:{ri}:coef"
                        items.append((lab, "(" + " && ".join(conj) + ")%bool"))
                        meta[lab] = {**desc, "what": "Trotter coefficients of every step vs ad_coeffs_at (schedule evaluated in Coq)"}
                # (4) final state vs the same method run from scratch on the independent H(t)
                if sk == "exp":
                    ref = exp_ref(Hf, psi0.copy(), 0.0, dt, nsteps)
                elif sk == "rk4":
                    ref = rk4_ref(Hf, psi0.copy(), 0.0, dt, nsteps)
                elif sk == "rk45":
                    ref = rk45_ref(Hf, psi0.copy(), 0.0, dt, nsteps)
                else:
                    ref = trotter_ref(groups, lambda t: {0: 1 - sval(t), 1: sval(t)}, n, psi0.copy(), 0.0, dt, nsteps)
                err = float(np.abs(out - ref).max())
                worst[(okind, sk)] = max(worst.get((okind, sk), 0.0), err)
                if err > 1e-9:
                    report(key + ":state", f"AdiabaticEvolution({okind}, {sk}) under the legal schedule {sc.name}: the final state differs from the "
                           f"same method applied from scratch to (1 - s) H0 + s H1 (max abs err {err:.3e}; T = {T}, dt = {dt}, run {ri} on this object)",
                           {**desc, "max_abs_err": err})
                nerr = abs(float(np.linalg.norm(out)) - 1.0)
                if nerr > 1e-10:
                    report(key + ":norm", f"final state of norm 1 {nerr:+.2e}", {**desc, "norm_error": nerr})
            # (5) tolerance test below: all solvers converge to the solution of i psi' = H(t) psi with their order
            if not parametrised and len(cross) < (6 if quick else 18):
                smooth_out = [s_ for s_ in OUT_OF_RANGE if s_.smooth]
                cross.append((okind, sk, smooth_out[ci % len(smooth_out)], H0, H1, mk, n))
    finally:
        AD.BaseAdiabaticHamiltonian.__call__ = orig_call
        AD.SymbolicAdiabaticHamiltonian.circuit = orig_circ
        TT.TermGroup.to_term = orig_tt

    # cross-solver agreement within the order of each method (labelled tolerance test): error against a high-accuracy
    # solution of the Schroedinger equation at dt = 1/32 and 1/64 -- the error must shrink by about 2^order
    min_ratio = {"exp": 1.6, "trotter": 1.6, "rk4": 10.0, "rk45": 20.0}
    tests = []
    for okind, sk, sc, H0, H1, mk, n in cross:
        T = 1.0
        N = 2 ** n
        nrm = max(float(np.linalg.norm(H0, 2)), float(np.linalg.norm(H1, 2)))
        psi0 = np.ones(N, dtype=complex) / math.sqrt(N)
        sval = lambda t, _sc=sc, _T=T: 0.0 if t == 0 else _sc.value(t / _T)  # noqa: E731
        Hf = lambda t: (1 - sval(t)) * H0 + sval(t) * H1  # noqa: E731
        exact = ode_ref(Hf, psi0, T)
        errs = []
        for dt in (1.0 / 32, 1.0 / 64):
            h0, h1 = mk()
            out = np.asarray(models.AdiabaticEvolution(h0, h1, sc.callable1(), dt=dt, solver={"trotter": "exp"}.get(sk, sk))(final_time=T, initial_state=psi0.copy()))
            errs.append(float(np.abs(out - exact).max()))
        ratio = errs[0] / errs[1] if errs[1] > 0 else float("inf")
        tests.append({"object": okind, "solver": sk, "schedule": sc.name, "errors_dt_1/32_1/64": errs, "ratio": ratio, "norm_H": nrm})
        run.case(["schedule-convergence", okind, sk, sc.name], nontrivial=True)
        if errs[1] > 1e-9 and ratio < min_ratio[sk]:
            report(f"adiabatic_schedule:{okind}:{sk}:{sc.name.split('(')[0]}:convergence",
                   f"AdiabaticEvolution({okind}, {sk}) under {sc.name}: errors against the solution of the Schroedinger equation with H(t) = (1 - s) H0 + s H1 "
                   f"are {errs} for dt = 1/32, 1/64 (ratio {ratio:.2f}, expected at least {min_ratio[sk]}; tolerance test)",
                   {"mechanism": "schedule", "object": okind, "solver": sk, "schedule": sc.name, "errors": errs, "ratio": ratio})
    run.notes.setdefault("tests", []).append({"test": "adiabatic evolutions under schedules leaving [0,1]: max |H(t) - ((1-s)H0+sH1)|, max final-state error "
                                                      "vs the same method from scratch", "max_errors": {f"{a}/{b}": v for (a, b), v in worst.items()},
                                              "tolerance": "1e-12 (H, coefficients), 1e-9 (states)"})
    run.notes["tests"].append({"test": "adiabatic solvers vs high-accuracy ODE solution: error ratio when dt is halved", "results": tests})
    for k0 in range(0, len(items), 60):
        res, out = run.coq_bools(f"C16_sched_{k0 // 60}.v", hdr, items[k0:k0 + 60], timeout=900)
        if res is None:
            run.find(f"coq:C16_sched_{k0 // 60}", "generated file does not compile", {"log": out[-1500:]}, concrete=False)
            continue
        for lab, _ in items[k0:k0 + 60]:
            if not res[lab]:
                m = meta[lab]
                key = f"adiabatic_schedule:{m['object']}:{m['solver']}:{m['schedule'].split('(')[0]}"
                if key in reported or any(r.startswith(key) for r in reported):
                    continue            # already reported with a concrete failing time above
                run.find(key + ":exact", f"{m['what']} differs (schedule {m['schedule']}, T = {m['total_time']}, dt = {m['dt']})", m)


# ------------------------------------------------------------------ stream 2: one adiabatic Hamiltonian object, many queries
def run_object_histories(run, rng):
    import scipy.linalg
    from qibo import hamiltonians
    from qibo.hamiltonians import adiabatic as AD, terms as TT
    from qibo.symbols import X, Y, Z
    from harness.c16 import HEADER, qq, rand_pauli_form, embed_np
    from harness.c15 import ast_sympy
    hdr = (HEADER.replace("Local Open Scope Z_scope.", "Local Open Scope Q_scope.")
           .replace("C16.Model.", "C16.Model C16.ModelSched."))
    items, meta = [], {}
    exact_scheds = [s for s in CORPUS if s.kind != "float"]
    count = 6 if run.tier == "quick" else 40
    coefs = []
    orig_tt = TT.TermGroup.to_term
    cur = {"on": False}
    seen_keys = set()

    def report(key, what, rp):
        if key not in seen_keys:
            seen_keys.add(key)
            run.find(key, what, rp)

    def spy_tt(self, coefficients={}):
        if coefficients and cur["on"]:
            cur["on"] = False
            coefs.append(dict(coefficients))
        return orig_tt(self, coefficients)
    TT.TermGroup.to_term = spy_tt
    try:
        for k in range(count):
            symbolic = k % 2 == 0
            n = 2
            if symbolic:
                h0 = hamiltonians.SymbolicHamiltonian(X(0) + X(1) + (0.5 * Y(1) if k % 4 == 0 else 0), nqubits=n)
                h1 = hamiltonians.SymbolicHamiltonian(ast_sympy(rand_pauli_form(rng, n)), nqubits=n)
                H0, H1 = np.array(hamiltonians.SymbolicHamiltonian(h0.form, nqubits=n).matrix), np.array(hamiltonians.SymbolicHamiltonian(h1.form, nqubits=n).matrix)
                ham = AD.SymbolicAdiabaticHamiltonian(h0, h1)
                groups = [[(tuple(tm.target_qubits), np.asarray(tm.matrix).copy(), 0 if tm.hamiltonian is h0 else 1) for tm in g] for g in ham.groups]
            else:
                H0, H1 = int_hermitian(rng, n, True), int_hermitian(rng, n, k % 4 == 1)
                h0, h1 = hamiltonians.Hamiltonian(n, H0.copy()), hamiltonians.Hamiltonian(n, H1.copy())
                if k % 4 == 1:
                    h0.eigenvectors()      # spectrum cached before the scalar multiplications inside __call__
                    h1.eigenvalues()
                ham = AD.BaseAdiabaticHamiltonian(h0, h1)
            ops, obs = [], []
            sc, T = None, None
            nops = rng.randrange(8, 14)
            for j in range(nops):
                r = rng.random()
                if sc is None or (r < 0.2 and j < nops - 1):
                    sc = rng.choice(exact_scheds if j else OUT_OF_RANGE[:4])
                    ham.schedule = sc.callable1()
                    ops.append(f"OSetSched {sc.coq()}")
                    continue
                if T is None or r > 0.85:
                    T = rng.choice([0.5, 1.0, 2.0, 4.0])
                    ham.total_time = T
                    ops.append(f"OSetTime {qq(T)}")
                    continue
                t = T * rng.choice([0, 0.25, 0.5, 0.75, 1.0, 0.125, 0.375])
                s_want = 0.0 if t == 0 else sc.value(t / T)
                Href = (1 - s_want) * H0 + s_want * H1
                desc = {"mechanism": "object-history", "object": "SymbolicAdiabaticHamiltonian" if symbolic else "BaseAdiabaticHamiltonian",
                        "schedule": sc.name, "total_time": T, "t": t, "op_index": j, "history": list(ops)}
                run.case(["object-history", k, j, sc.name, T, t], nontrivial=True)
                ops.append(f"OQuery {qq(t)}")
                key = f"adiabatic_object:{desc['object']}:{sc.name.split('(')[0]}"
                how = rng.choice(["call", "circuit"]) if symbolic else "call"
                if how == "call":
                    M = np.asarray(ham(t).matrix)
                    dev = float(np.abs(M - Href).max())
                    if dev > 1e-12:
                        report(key, f"{desc['object']}(t={t}) after the history {ops[-6:]} is not (1 - s) H0 + s H1 with the CURRENT schedule {sc.name} "
                                 f"and total time {T} (s = {s_want}, max deviation {dev:.3e})", {**desc, "s": s_want, "max_dev": dev})
                    # the schedule value actually used, recovered from the matrix (adiabatic_determines_s): least squares on H1 - H0
                    D = (H1 - H0).reshape(-1)
                    s_got = float(np.real(np.vdot(D, (M - H0).reshape(-1)) / np.vdot(D, D)))
                else:
                    dtc = rng.choice([0.25, 0.1])
                    del coefs[:]
                    cur["on"] = True
                    circ = ham.circuit(dtc, t=t)
                    cur["on"] = False
                    a0, a1 = (float(coefs[0][h0]), float(coefs[0][h1])) if coefs else (float("nan"),) * 2
                    s_got = a1
                    U = circ.unitary()
                    Uref = np.eye(2 ** n, dtype=complex)
                    Gs = [sum((1 - s_want if o == 0 else s_want) * embed_np(Mt, list(q), n) for q, Mt, o in g) for g in groups]
                    for G in Gs + Gs[::-1]:
                        Uref = scipy.linalg.expm(-1j * (dtc / 2.0) * G) @ Uref
                    dev = max(float(np.abs(U - Uref).max()), abs(a0 - (1 - s_want)), abs(a1 - s_want))
                    if dev > 1e-9:
                        report(key + ":circuit", f"{desc['object']}.circuit({dtc}, t={t}) after the history {ops[-6:]} is not the Trotter step of (1 - s) H0 + s H1 with the "
                                 f"CURRENT schedule {sc.name} and total time {T} (coefficients {a0}, {a1}; s = {s_want}; deviation {dev:.3e})",
                                 {**desc, "dt": dtc, "s": s_want, "coefficients": [a0, a1], "max_dev": dev})
                obs.append(s_got)
            lab = f"obj{k}"
            want = "[" + ";".join(f"Some {qq(Fraction(x).limit_denominator(2 ** 30))}" for x in obs) + "]"
            items.append((lab, f"list_eqb oq_eqb (ad_run (None, None) [{'; '.join(ops)}]) {want}"))
            meta[lab] = {"mechanism": "object-history", "object": "SymbolicAdiabaticHamiltonian" if symbolic else "BaseAdiabaticHamiltonian",
                         "history": ops, "schedule_values_observed": obs}
            if k < 2:
                run.sample({"kind": "history on one adiabatic Hamiltonian object", "history": ops, "schedule_values_observed": obs})
    finally:
        TT.TermGroup.to_term = orig_tt
    res, out = run.coq_bools("C16_sched_objects.v", hdr, items, timeout=600)
    if res is None:
        run.find("coq:C16_sched_objects", "generated file does not compile", {"log": out[-1500:]}, concrete=False)
        return
    for lab, _ in items:
        if not res[lab] and not seen_keys:
            m = meta[lab]
            run.find(f"adiabatic_object_model:{m['object']}:{lab}", "the schedule values used by the queries of one adiabatic Hamiltonian object differ from the state "
                     "machine ad_run (latest schedule, latest total time)", m)


# ------------------------------------------------------------------ stream 3: scalar multiples of objects with cached spectrum
def run_scalar_histories(run, rng):
    import scipy.linalg
    from qibo import hamiltonians
    worst = 0.0
    count = 6 if run.tier == "quick" else 40
    for k in range(count):
        n = rng.choice([1, 2])
        M = int_hermitian(rng, n, k % 2 == 0).astype(complex)
        preps = ["fresh", "eigenvalues", "eigenvectors", "exp", "ground_state"]
        for prep in preps:
            h = hamiltonians.Hamiltonian(n, M.copy())
            if prep == "exp":
                h.exp(0.3)
            elif prep != "fresh":
                getattr(h, prep)()
            for c in (2.0, -1.5, 0.0, 0.5, -1):
                r = h * c
                a = rng.choice([0.1, 0.7])
                Mc = c * M
                errs = {"matrix": float(np.abs(np.asarray(r.matrix) - Mc).max()),
                        "exp": float(np.abs(np.asarray(r.exp(a)) - scipy.linalg.expm(-1j * a * Mc)).max()),
                        "eigenvalues": float(np.abs(np.real(np.asarray(r.eigenvalues())) - np.linalg.eigvalsh(Mc)).max())}     # ascending, as numpy returns them
                g = np.asarray(r.ground_state())
                lam = np.linalg.eigvalsh(Mc)[0]
                errs["ground_state"] = float(np.abs(Mc @ g - lam * g).max()) + abs(float(np.linalg.norm(g)) - 1.0)
                # the source object is left alone
                errs["source_unchanged"] = float(np.abs(np.asarray(h.matrix) - M).max()) + float(np.abs(np.asarray(h.exp(a)) - scipy.linalg.expm(-1j * a * M)).max())
                run.case(["scalar-history", k, prep, c, a], nontrivial=True)
                for what, e in errs.items():
                    worst = max(worst, e)
                    if e > 1e-9:
                        run.find(f"scalar_multiple:{prep}:{what}:c={'neg' if c < 0 else ('zero' if c == 0 else 'pos')}",
                                 f"(h * {c}).{what} after h.{prep}() differs from the value for the matrix {c} * H (err {e:.3e})",
                                 {"mechanism": "scalar-history", "prep": prep, "c": c, "a": a, "what": what, "err": e,
                                  "matrix": [[[z.real, z.imag] for z in r_] for r_ in M.tolist()]})
    run.notes.setdefault("tests", []).append({"test": "scalar multiples of dense Hamiltonians with cached spectrum / exp: matrix, exp, eigenvalues, ground state vs numpy",
                                              "max_err": worst, "tolerance": 1e-9})
