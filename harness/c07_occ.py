"""C07 streams added after the round-4 misses (gap families C, D, A of STRENGTHEN_GUIDE.md).

Everything here identifies a gate of a circuit by its POSITION in `circuit.queue`, never by a tag stored on the
gate object, because the new inputs contain the same object at several positions.  Output occurrences are
matched to input positions in order of appearance (the k-th occurrence of an object in the output is the k-th
position of that object in the input): occurrences of one object are equal letters on equal qubits, so they are
dependent letters whose relative order every trace-equivalent word preserves, and exchanging two of them does
not change the operator -- the assignment loses nothing.

Streams (all cases also go through the Coq model `fuse_model` / `light_cone_model` and the kernel-checked
certificates `gtrace_equivn_b` / `lc_cert_b` on the letters (position, gate.qubits, kind)):
  occ   one object (plain gate, parametrised gate, Unitary, FusedGate made by an earlier real `fuse`, a member
        of such a FusedGate, CallbackGate, collapsing measurement) at several queue positions, then
        fuse(k) / light_cone(S); exact Gaussian-integer execution original == fused.
  meas  measurements with every option: basis Z/X/Y/mixed lists (their rotation gates are ordinary letters of
        the queue and must occur exactly once, before their measurement), collapse, register names, p0/p1,
        mid-circuit and final, density_matrix circuits; crossed with fuse(1..3) and light_cone;  register
        structure, flags, final state and outcome probabilities (float test, 1e-9: the rotations are
        irrational), seeded sample streams for collapsing circuits.
  hist  histories on long-lived objects: fuse -> execute -> update parameters through the source circuit /
        the gate objects / the fused circuit / a shallow copy -> execute the fused circuit again; fuse twice;
        fuse then add gates; every execution compared exactly with a freshly built circuit carrying the
        current values.
"""
import hashlib
import json
import random

import numpy as np


def base():
    from harness import c07
    return c07


TOL = 1e-9


def key_of(*xs):
    return hashlib.sha1(json.dumps(xs, sort_keys=True, default=str).encode()).hexdigest()[:12]


# ------------------------------------------------------------------ building
def real_fused_block(members, mode, rng):
    """a FusedGate produced by a real earlier `Circuit.fuse` of the member gates (None if that fuse does not
    give exactly one FusedGate)"""
    from qibo import Circuit, gates
    b = base()
    qs = sorted({q for m in members for q in m["q"]})
    n = max(qs) + 1
    step = Circuit(n)
    for m in members:
        g = b.make_gate(m, mode, rng)
        g._desc = m
        step.add(g)
    f = step.fuse(max_qubits=len(qs))
    if len(f.queue) == 1 and isinstance(f.queue[0], gates.FusedGate):
        return f.queue[0]
    return None


def build2(n, descs, mode="named", seed=0, density_matrix=False):
    """returns (circuit, objs) with objs[i] the gate object of descs[i]; the queue may be longer than descs
    (basis rotations of measurements).  Extra kinds: {"kind":"same","of":j} = the object of descs[j] again;
    {"kind":"member","of":j,"m":t} = the t-th member gate of the FusedGate descs[j] as a top-level gate."""
    from qibo import Circuit
    b = base()
    rng = random.Random(seed)
    c = Circuit(n, density_matrix=bool(density_matrix))
    objs = []
    for i, d in enumerate(descs):
        if d["kind"] == "same":
            g = objs[d["of"]]
        elif d["kind"] == "member":
            g = objs[d["of"]].gates[d["m"]]
        elif d["kind"] == "fin" and d.get("real"):
            g = real_fused_block(d["members"], mode, rng) or b.make_gate(d, mode, rng)
            g._desc = d
        else:
            g = b.make_gate(d, mode, rng)
            g._desc = d
        objs.append(g)
        c.add(g)
    by_dict = {}
    for i, d in enumerate(descs):
        u = d.get("upd")
        if not u:
            continue
        newp = b.new_params(objs[i], mode, seed, i, u["k"])
        if newp is None:
            continue
        if u["how"] == "setter":
            objs[i].parameters = newp
        else:
            by_dict[objs[i]] = newp
    if by_dict:
        c.set_parameters(by_dict)
    return c, objs


def valid2(n, descs, dm=False):
    try:
        build2(n, descs, density_matrix=dm)
        return True
    except Exception:
        return False


def coq_circuit2(c):
    b = base()
    return "[" + "; ".join(f"G {i} {b.nl(g.qubits)} {b.kind_of(g)}" for i, g in enumerate(c.queue)) + "]"


class Resolver:
    """matches output occurrences of gate objects to input queue positions (see module docstring)"""

    def __init__(self, queue):
        self.pos, self.used, self.problems = {}, {}, []
        self.queue = list(queue)
        for i, g in enumerate(queue):
            self.pos.setdefault(id(g), []).append(i)
            self.used[id(g)] = 0

    def take(self, obj):
        lst = self.pos.get(id(obj))
        if lst is None:
            self.problems.append(f"a {type(obj).__name__} on {tuple(obj.qubits)} that is not a gate object of the input")
            return None
        k = self.used[id(obj)]
        if k >= len(lst):
            self.problems.append(f"the {type(obj).__name__} of input position(s) {lst} occurs more often than in the input")
            return None
        self.used[id(obj)] = k + 1
        return lst[k]

    def leftovers(self):
        return sorted(p for key, lst in self.pos.items() for p in lst[self.used[key]:])


# ------------------------------------------------------------------ fuse: observation and checks
def observe_fuse2(c, k):
    from qibo import gates
    fused = c.fuse(max_qubits=k)
    res = Resolver(c.queue)
    in_ids = {id(g) for g in c.queue}
    out = []
    for g in fused.queue:
        if isinstance(g, gates.FusedGate) and id(g) not in in_ids:
            out.append((True, [int(q) for q in g.target_qubits], [res.take(m) for m in g.gates]))
        else:
            out.append((False, [], [res.take(g)]))
    return fused, out, res


def flag_diffs(c, fused):
    return [a for a in ("has_collapse", "has_unitary_channel", "density_matrix", "nqubits", "repeated_execution")
            if getattr(c, a) != getattr(fused, a)]


def fuse_checks2(c, fused, out, res, k):
    """property-level facts on the implementation output, in terms of positions; list of problems"""
    from qibo import gates
    b = base()
    bad = []
    lost = res.leftovers()
    if res.problems or lost:
        if lost:
            bad.append("occurrences lost: the gates at input positions " + str(lost) + " ("
                       + ", ".join(f"{type(c.queue[p]).__name__}{tuple(c.queue[p].qubits)}" for p in lost[:4])
                       + ") are not in the fused circuit")
        bad += ["fused circuit contains " + p for p in res.problems[:4]]
        return bad
    for s in out:
        if s[0]:
            if len(s[1]) > k:
                bad.append(f"fused group on {len(s[1])} qubits > max_qubits={k}")
            for v in s[2]:
                g = c.queue[v]
                if b.kind_of(g) != "O":
                    bad.append("measurement/special gate inside a fused group")
                if not set(g.qubits) <= set(s[1]):
                    bad.append("member acts outside the group's qubits")
    non_ord = [i for i, g in enumerate(c.queue) if b.kind_of(g) != "O"]
    non_ord_out = [v for s in out for v in s[2] if b.kind_of(c.queue[v]) != "O"]
    if non_ord != non_ord_out:
        bad.append("measurements / special gates reordered")
    if [id(m) for m in fused.measurements] != [id(m) for m in c.measurements]:
        bad.append("measurement list of the fused circuit differs from the original's")
    if fused.measurement_tuples != c.measurement_tuples or \
            [m.register_name for m in fused.measurements] != [m.register_name for m in c.measurements]:
        bad.append("registers changed")
    for g in fused.queue:
        if isinstance(g, gates.FusedGate) and not any(g is h for h in c.queue):
            union = sorted(set().union(*[set(m.qubits) for m in g.gates])) if g.gates else []
            if not (list(g.target_qubits) == sorted(g.qubit_set) == union == list(g.qubits) == list(g.init_args)):
                bad.append("FusedGate target_qubits is not the sorted union of the members' qubits")
    # every basis rotation of a measurement is in the queue exactly once, before its measurement
    flat = [v for s in out for v in s[2]]
    where = {v: i for i, v in enumerate(flat)}
    for i, g in enumerate(c.queue):
        if isinstance(g, gates.M):
            for rot in g.basis:
                occ = [j for j, h in enumerate(c.queue) if h is rot]
                if len(occ) == 1 and where[occ[0]] > where[i]:
                    bad.append("basis rotation after its measurement")
    return bad


def norm_state(n, rng, dm=False):
    v = np.array([complex(rng.gauss(0, 1), rng.gauss(0, 1)) for _ in range(2 ** n)])
    v = v / np.linalg.norm(v)
    return np.outer(v, v.conj()) if dm else v


def has_kind(descs, objs, pred):
    return any(pred(d, g) for d, g in zip(descs, objs))


def exec_fuse2(n, descs, k, seed, dm=False, force_flags=True):
    """original vs fused circuit by the real backend.  Returns (None | 'skip' | dict).
    - no measurement basis rotation, no collapse: exact Gaussian-integer run (mode int);
    - otherwise signed-permutation unitaries, normalised random state, float comparison (tolerance 1e-9) of the
      final state and of the outcome probabilities of every register; circuits with collapsing measurements are
      run with nshots=6 after seeding the backend and the sample streams must be identical (fused.has_collapse
      is first set to the original's value -- the missing flag is reported separately)."""
    from qibo import gates
    from qibo.backends import _check_backend
    b = base()
    rng = random.Random(seed)
    if any(d["kind"] == "ch" for d in descs):
        return "skip"
    probe, _ = build2(n, descs, "named", seed, dm)
    rot = any(isinstance(g, gates.M) and g.basis for g in probe.queue)
    collapse = probe.has_collapse
    if not rot and not collapse and not dm:
        c, _ = build2(n, descs, "int", seed)
        psi = np.array([complex(rng.randint(-2, 2), rng.randint(-2, 2)) for _ in range(2 ** n)])
        f = c.fuse(max_qubits=k)
        try:
            a = b.exact_state(c, psi)
        except Exception:
            return "skip"
        try:
            bb = b.exact_state(f, psi)
        except Exception as e:
            return {"original": [str(x) for x in a], "fused_raises": repr(e)}
        return None if np.array_equal(a, bb) else {"original": [str(x) for x in a], "fused": [str(x) for x in bb]}
    c, _ = build2(n, descs, "perm", seed, dm)
    f = c.fuse(max_qubits=k)
    psi = norm_state(n, rng, dm)
    if collapse:
        if not c.measurements and not dm:
            return "skip"            # documented refusal of the original (only collapsing measurements)
        if force_flags:
            f.has_collapse = c.has_collapse
        be = _check_backend(None)
        ms = [g for g in c.queue if isinstance(g, gates.M)]
        outs = []
        for circ in (c, f):
            for g in ms:
                g.result.reset()
            be.set_seed(seed)
            try:
                r = circ(initial_state=psi.copy(), nshots=6)
            except Exception as e:
                outs.append({"raises": repr(e)})
                continue
            o = {"type": type(r).__name__}
            if c.measurements:
                o["samples"] = np.asarray(r.samples()).tolist()
            o["collapse"] = [np.asarray(g.result.samples()).tolist() for g in ms if g.collapse]
            if dm:
                o["state"] = np.asarray(r.state())
            outs.append(o)
        a, bb = outs
        st_ok = True
        if "state" in a and "state" in bb:
            st_ok = np.abs(a.pop("state") - bb.pop("state")).max() < TOL
        if a == bb and st_ok:
            return None
        return {"original": a, "fused": bb, "state_equal": st_ok}
    try:
        ra = c(initial_state=psi.copy(), nshots=1)
    except Exception:
        return "skip"
    try:
        rb = f(initial_state=psi.copy(), nshots=1)
    except Exception as e:
        return {"fused_raises": repr(e)}
    d = np.abs(np.asarray(ra.state()) - np.asarray(rb.state())).max()
    if not d < TOL:
        return {"max_abs_state_difference": float(d)}
    if type(ra) is not type(rb):
        return {"result_type": [type(ra).__name__, type(rb).__name__]}
    for m in c.measurements:
        if any(x.has_bitflip_noise() for x in c.measurements):
            break            # probabilities() is then estimated from noisy samples
        pa = np.asarray(ra.probabilities(qubits=list(m.target_qubits)))
        pb = np.asarray(rb.probabilities(qubits=list(m.target_qubits)))
        if not np.abs(pa - pb).max() < TOL:
            return {"register": m.register_name, "probabilities": [pa.tolist(), pb.tolist()]}
    return None


# ------------------------------------------------------------------ light cone: observation and checks
class tag_src:
    """while active, every gate returned by an on_qubits carries `_src` = the gate it was made from"""

    def __enter__(self):
        b = base()
        self.saved = []
        for k in b._gate_classes():
            if "on_qubits" in k.__dict__:
                orig = k.__dict__["on_qubits"]

                def w(self_, qmap, _o=orig):
                    g = _o(self_, qmap)
                    if g is not None:
                        g._src = self_
                    return g
                self.saved.append((k, orig))
                setattr(k, "on_qubits", w)
        return self

    def __exit__(self, *a):
        for k, orig in self.saved:
            setattr(k, "on_qubits", orig)


def observe_lc2(c, S):
    """returns (lc, qmap, kept [(position, new qubits)], extras [(index in lc.queue, gate)], resolver)"""
    with tag_src():
        lc, qmap = c.light_cone(*S)
    res = Resolver(c.queue)
    kept, extras = [], []
    for j, g in enumerate(lc.queue):
        src = getattr(g, "_src", None)
        if src is None:
            extras.append((j, g))
        else:
            kept.append((res.take(src), [q if isinstance(q, (int, np.integer)) else None for q in g.qubits]))
    return lc, qmap, kept, extras, res


def lc_checks2(c, lc, qmap, kept, S):
    from qibo import gates
    b = base()
    bad = []
    cone = sorted(qmap)
    if qmap != {q: i for i, q in enumerate(cone)}:
        bad.append("qubit_map is not the order-preserving enumeration of the cone")
    if lc.nqubits != len(cone):
        bad.append("nqubits of the light-cone circuit differs from the cone size")
    if not set(S) <= set(cone):
        bad.append("requested qubits not in the cone")
    if any(q is None for _, qs in kept for q in qs):
        bad.append("a gate of the light-cone circuit acts on a qubit that is not in the qubit map")
    srcs = [g for g in lc.queue if getattr(g, "_src", None) is not None]
    for (v, _), g in zip(kept, srcs):
        orig = c.queue[v]
        if type(g) is not type(orig):
            bad.append("gate class changed")
        elif isinstance(orig, gates.M):
            explicit = orig.init_kwargs.get("register_name") is not None     # default names are renumbered: not compared
            # a measurement that Circuit.add turned into a collapsing one (a later gate acts on its qubits) may be a
            # final, non-collapsing one in the light-cone circuit when that later gate is dropped: not compared
            auto = orig.collapse and not orig.init_kwargs.get("collapse")
            if (auto or g.collapse == orig.collapse, [x.__name__ for x in g.basis_gates]) != (True, [x.__name__ for x in orig.basis_gates]) \
                    or (explicit and g.register_name != orig.register_name) or g.result is not orig.result:
                bad.append(f"measurement at position {v}: register name / collapse / basis / result object changed")
            if tuple(g.bitflip_map) != tuple({qmap.get(q): p for q, p in mp.items()} for mp in orig.bitflip_map):
                bad.append(f"bitflip: measurement at position {v} has bitflip maps {orig.bitflip_map} in the circuit but "
                           f"{g.bitflip_map} in the light-cone circuit (qubit map {qmap})")
        elif not b.params_equal(g.parameters, orig.parameters):
            bad.append(f"gate {v} of the light-cone circuit does not carry the CURRENT parameters")
        elif b.kind_of(orig) == "O" and not np.array_equal(np.asarray(g.matrix()), np.asarray(orig.matrix())):
            bad.append(f"gate {v} of the light-cone circuit has a different matrix")
    kept_m = [c.queue[v] for v, _ in kept if isinstance(c.queue[v], gates.M) and not c.queue[v].init_kwargs.get("collapse")]
    lc_m = [m for m in lc.queue if isinstance(m, gates.M) and not m.init_kwargs.get("collapse")]
    if [m.register_name for m in lc.measurements] != [m.register_name for m in lc_m if not m.collapse]:
        bad.append("measurement list of the light-cone circuit is not the list of its non-collapsing measurement gates")
    if [m.target_qubits for m in lc_m] != [tuple(qmap.get(q) for q in m.target_qubits) for m in kept_m]:
        bad.append("the non-collapsing measurements of the light-cone circuit are not the kept ones of the circuit")
    return bad


def exec_lc2(n, descs, S, seed):
    """reduced state on S: full circuit vs light-cone circuit; signed-permutation unitaries (+ the irrational
    basis rotations), normalised product state, float tolerance 1e-9.  'skip' for collapsing circuits."""
    b = base()
    rng = random.Random(seed)
    if any(d["kind"] in ("ch", "fin", "cb") for d in descs):
        return "skip"
    c, _ = build2(n, descs, "perm", seed)
    if c.has_collapse:
        return "skip"
    lc, qmap = c.light_cone(*S)
    loc = []
    for _ in range(n):
        v = np.array([complex(rng.gauss(0, 1), rng.gauss(0, 1)), complex(rng.gauss(0, 1), rng.gauss(0, 1))])
        loc.append(v / np.linalg.norm(v))

    def prod(qs):
        v = np.array([1 + 0j])
        for q in qs:
            v = np.kron(v, loc[q])
        return v
    full = np.asarray(c(initial_state=prod(range(n)), nshots=1).state())
    cone = sorted(qmap)
    red = np.asarray(lc(initial_state=prod(cone), nshots=1).state()) if cone else np.array([1 + 0j])
    A = b.reduced_dm(full, n, sorted(S))
    B = b.reduced_dm(red, len(cone), [qmap[q] for q in sorted(S)])
    d = np.abs(A - B).max() if A.size else 0.0
    if d < TOL:
        return None
    return {"max_abs_difference_of_reduced_density_matrices": float(d),
            "P(S) full": np.real(np.diag(A)).round(6).tolist(), "P(S) light cone": np.real(np.diag(B)).round(6).tolist()}


# ------------------------------------------------------------------ generators
def m_desc(rng, n, collapse=None, reg=None, basis="any", noise=True, qs=None):
    qs = qs if qs is not None else rng.sample(range(n), min(n, rng.choice([1, 1, 2, 3])))
    d = {"kind": "M", "name": "M", "q": qs, "collapse": rng.random() < 0.25 if collapse is None else collapse}
    if reg is not None:
        d["reg"] = reg
    t = rng.random()
    if basis == "any":
        if t < 0.25:
            d["basis"] = rng.choice(["X", "Y"])
        elif t < 0.75:
            d["basis"] = [rng.choice(["X", "Y", "Z"]) for _ in qs]
        elif t < 0.85:
            d["basis"] = "Z"
    if noise and not d["collapse"] and rng.random() < 0.3:
        r = rng.random()
        if r < 0.4:
            d["p0"] = rng.choice([0.125, 0.25])
        elif r < 0.7:
            d["p0"] = [rng.choice([0.0, 0.125, 0.5]) for _ in qs]
            d["p1"] = [rng.choice([0.0, 0.25]) for _ in qs]
        else:
            d["p0"] = {str(qs[0]): 0.25}
    return d


def corpus_occ():
    b = base()
    og = b.og
    blk = {"kind": "fin", "name": "FusedGate", "real": True, "q": [0, 1],
           "members": [og("RX", 0), og("RZ", 1), og("CNOT", 0, 1), og("RZ", 1)]}
    same = lambda j: {"kind": "same", "of": j}
    out = []
    # a pre-fused block re-used three times (Trotter-step style), interleaved with other gates
    out.append((3, [og("H", 0), og("H", 1), og("H", 2), blk, og("CRX", 1, 2), og("RX", 0), same(3), og("fSim", 2, 0),
                    same(3), og("RZ", 2)]))
    out.append((2, [blk, same(0)]))
    out.append((3, [og("H", 2), blk, {"kind": "member", "of": 1, "m": 0}, same(1), {"kind": "member", "of": 1, "m": 2}]))
    # one callback gate object evaluated at three places
    cb = {"kind": "cb", "name": "CallbackGate", "q": []}
    out.append((2, [cb, og("H", 0), same(0), og("CNOT", 0, 1), same(0)]))
    # one plain / parametrised / Unitary object at several positions: adjacent, around a blocker, on the far side
    out.append((2, [og("RX", 0), same(0), same(0), og("CNOT", 0, 1), same(0)]))
    out.append((3, [og("U2q", 0, 1), og("CNOT", 1, 2), same(0), og("H", 0), same(0), same(1)]))
    out.append((3, [og("CNOT", 0, 1), og("H", 1), same(0), og("CZ", 1, 2), same(1), same(0), same(3)]))
    out.append((4, [og("TOFFOLI", 0, 1, 2), og("RX", 3), same(0), same(1), og("CNOT", 2, 3), same(0)]))
    out.append((3, [og("RYc1", 0, 1), og("X", 2), same(0), same(1), same(0)]))
    # one collapsing measurement object added twice
    out.append((2, [og("H", 0), {"kind": "M", "name": "M", "q": [0], "collapse": True}, og("H", 0), same(1), og("CNOT", 0, 1),
                    {"kind": "M", "name": "M", "q": [0, 1], "collapse": False}]))
    return out


def gen_occ(rng, i):
    """a case of the base generators with 1-4 extra occurrences of objects already in the circuit"""
    b = base()
    while True:
        n, descs = b.gen_case(rng, i, channels=False)
        i += 7
        if n > 6 or len(descs) < 2:
            continue
        descs = [dict(d) for d in descs]
        if rng.random() < 0.35:
            qs = rng.sample(range(n), min(n, rng.randint(1, 2)))
            members = [b.og(rng.choice(b.BY_ARITY[a]), *rng.sample(qs, a))
                       for a in (rng.randint(1, len(qs)) for _ in range(rng.randint(2, 4)))]
            descs.insert(rng.randint(0, len(descs)), {"kind": "fin", "name": "FusedGate", "real": True,
                                                      "q": sorted(qs), "members": members})
        for _ in range(rng.randint(1, 4)):
            elig = [j for j, d in enumerate(descs) if d["kind"] in ("ord", "cb", "fin") or
                    (d["kind"] == "M" and d.get("collapse"))]
            if not elig:
                break
            j = rng.choice(elig)
            pos = rng.randint(j + 1, len(descs))
            new = {"kind": "same", "of": j}
            if descs[j]["kind"] == "fin" and rng.random() < 0.3:
                new = {"kind": "member", "of": j, "m": rng.randrange(len(descs[j]["members"]))}
            # inserting shifts the "of" of later references
            for d in descs[pos:]:
                if d["kind"] in ("same", "member") and d["of"] >= pos:
                    d["of"] += 1
            descs.insert(pos, new)
        if rng.random() < 0.5:
            descs = b.add_updates(rng, descs)
        if valid2(n, descs):
            return n, descs


def corpus_meas():
    b = base()
    og = b.og
    M = lambda *q, **kw: {"kind": "M", "name": "M", "q": list(q), "collapse": False, **kw}
    out = []
    out.append((3, [og("RX", 0), og("RX", 1), og("RZ", 2), og("CNOT", 0, 1), og("CRX", 1, 2), og("RZ", 0), og("RX", 2),
                    M(0, reg="a", basis="X"), M(1, 2, reg="b", basis=["Z", "Y"])], False))
    out.append((2, [og("RX", 0), og("CNOT", 0, 1), M(0, basis="X")], False))
    out.append((2, [og("H", 0), M(0, basis="Y"), og("H", 1), M(1, basis="X", p0=0.25)], False))
    out.append((3, [og("H", 0), og("CNOT", 0, 1), M(1, 0, basis=["Y", "X"], reg="r"), og("RX", 2), M(2, basis="Z")], False))
    out.append((2, [og("H", 0), M(0, basis="X", collapse=True), og("CNOT", 0, 1), M(0, 1, basis=["Y", "Z"])], False))
    out.append((2, [og("H", 0), M(0, collapse=True), og("H", 0), og("CNOT", 0, 1), M(0, 1)], False))
    out.append((1, [og("H", 0), M(0, collapse=True), M(0)], False))
    out.append((2, [og("H", 0), og("CNOT", 0, 1), M(0, basis="X"), M(1, basis="Y", reg="y")], True))
    out.append((2, [og("H", 0), M(0, basis="Y", collapse=True), og("RX", 1), M(1, basis="X")], True))
    return out


def gen_meas(rng, i):
    """unitaries with several measurements using every option; mid-circuit and final"""
    b = base()
    b.table()
    while True:
        n = rng.randint(1, 5)
        dm = rng.random() < 0.15
        descs, measured = [], set()
        nreg = 0
        for _ in range(rng.randint(2, 9)):
            if rng.random() < 0.25:
                free = [q for q in range(n) if q not in measured]
                if not free:
                    continue
                qs = rng.sample(free, min(len(free), rng.choice([1, 1, 2, 3])))
                col = rng.random() < 0.25
                d = m_desc(rng, n, collapse=col, qs=qs, reg=(f"r{nreg}" if rng.random() < 0.5 else None))
                nreg += 1
                if not col:
                    measured |= set(qs)
                descs.append(d)
            else:
                g = b.rand_gate(rng, n, p_m=0.0, p_cb=0.03, arity_w=(5, 5, 1))
                if set(g["q"]) & measured and rng.random() < 0.8:
                    continue     # a gate after a measurement on its qubit turns the measurement into a collapsing one
                measured -= set(g["q"])
                descs.append(g)
        free = [q for q in range(n) if q not in measured]
        if free and rng.random() < 0.85:
            descs.append(m_desc(rng, n, collapse=False, qs=rng.sample(free, rng.randint(1, len(free))),
                                reg=rng.choice([None, "final"])))
        if rng.random() < 0.3:
            descs = b.add_updates(rng, descs)
        if any(d["kind"] == "M" for d in descs) and valid2(n, descs, dm):
            return n, descs, dm


# ------------------------------------------------------------------ running the fuse / light-cone streams
def fuse2_cases(rng, quick):
    cases = []
    for n, descs in corpus_occ():
        for k in (1, 2, 3):
            cases.append(("occ", n, descs, k, False))
    for n, descs, dm in corpus_meas():
        for k in (1, 2, 3):
            cases.append(("meas", n, descs, k, dm))
    for i in range(60 if quick else 600):
        n, descs = gen_occ(rng, i)
        cases.append(("occ", n, descs, rng.choice([1, 2, 2, 3, n]), False))
    for i in range(90 if quick else 900):
        n, descs, dm = gen_meas(rng, i)
        cases.append(("meas", n, descs, rng.choice([1, 2, 3]), dm))
    return cases


def coq_sig2(s):
    b = base()
    return b.coq_sig(s)


def one_fuse2(n, descs, k, dm, seed, with_exec=True):
    """python side of one case; returns dict(c, out, bad, flags, diff)"""
    c, objs = build2(n, descs, "named", 0, dm)
    fused, out, res = observe_fuse2(c, k)
    bad = fuse_checks2(c, fused, out, res, k)
    flags = flag_diffs(c, fused)
    diff = None
    if with_exec:
        try:
            diff = exec_fuse2(n, descs, k, seed, dm)
        except Exception as e:
            diff = {"exec_error": repr(e)}
        if diff == "skip":
            diff = None
    return {"c": c, "out": out, "bad": bad, "flags": flags, "diff": diff, "complete": not (res.problems or res.leftovers())}


FLAGS_WHAT = ("Circuit.fuse returns a circuit without the has_collapse / has_unitary_channel flags of the original, so the "
              "fused circuit is executed once instead of once per shot and gives a different outcome distribution")


def run_fuse2(run, rng):
    b = base()
    quick = run.tier == "quick"
    cases = fuse2_cases(rng, quick)
    header, items, meta = b.HEADER, [], []
    files = []
    n_exec = n_exec_ok = n_flag = 0
    for idx, (stream, n, descs, k, dm) in enumerate(cases):
        rep = {"mechanism": "fuse2", "stream": stream, "nqubits": n, "max_qubits": k, "descs": descs,
               "density_matrix": dm, "seed": run.seed + idx}
        ck = key_of(n, descs, k, dm)
        try:
            r = one_fuse2(n, descs, k, dm, run.seed + idx)
        except Exception as e:
            run.case({"fuse2": [stream, n, k, dm, descs]}, nontrivial=False)
            run.find(f"fuse:raises:{ck}", f"Circuit.fuse raised {e!r} on a valid circuit", {**rep, "error": repr(e)})
            continue
        c, out = r["c"], r["out"]
        groups = [s for s in out if s[0]]
        repeated = len({id(g) for g in c.queue}) < len(c.queue)
        from qibo import gates
        rot = any(isinstance(g, gates.M) and g.basis for g in c.queue)
        run.case({"fuse2": [stream, n, k, dm, descs]}, nontrivial=bool(groups) and (repeated or rot or c.has_collapse))
        if sum(1 for x in run.samples if x.get("mechanism") == "fuse2:" + stream) < 1 and groups and (repeated or rot):
            run.sample({"mechanism": "fuse2:" + stream, "nqubits": n, "max_qubits": k,
                        "circuit": [show2(d) for d in descs], "queue": [type(g).__name__ + str(tuple(g.qubits)) for g in c.queue],
                        "fused_queue": [(s[1], s[2]) if s[0] else s[2][0] for s in out]})
        n_exec += 1
        if r["flags"]:
            n_flag += 1
            run.find(f"fuse:flags:{ck}", FLAGS_WHAT + f" (differing attributes: {r['flags']})", rep)
        if r["diff"] is not None:
            run.find(f"fuse:exec:{ck}", "fused circuit gives a different final state / outcome distribution than the original "
                     f"({stream} stream)", {**rep, "exec_diff": r["diff"]})
        else:
            n_exec_ok += 1
        if r["bad"]:
            run.find(f"fuse:case:{ck}", "Circuit.fuse output violates a fusion invariant: " + "; ".join(r["bad"][:4]),
                     {**rep, "bad": r["bad"]})
        if not r["complete"]:
            continue          # positions missing: no model comparison possible (already reported)
        header += f"Definition c{idx} : list gate := {coq_circuit2(c)}.\n"
        header += f"Definition o{idx} : list sigT := [{'; '.join(coq_sig2(s) for s in out)}].\n"
        items.append((f"{idx}:out", f"list_eqb sig_eqb (map item_sig (fuse_model {n} c{idx} {k})) o{idx}"))
        items.append((f"{idx}:cert", f"gtrace_equivn_b {n} (flat_map (sig_gates c{idx}) o{idx}) c{idx}"))
        meta.append((idx, rep, ck))
        if len(meta) >= 300:
            files.append((f"C07_fuse2_{len(files)}.v", header, items, meta))
            header, items, meta = b.HEADER, [], []
    if meta:
        files.append((f"C07_fuse2_{len(files)}.v", header, items, meta))
    results = b.coq_parallel(run, files)
    n_cert = n_struct = n_tot = 0
    for (name, _h, _i, meta), res in zip(files, results):
        if res is None:
            run.oblige(f"correspondence file {name} compiles", False, "correspondence")
            run.find(f"coq:{name}", f"generated file {name} does not compile", {"file": name}, concrete=False)
            continue
        for idx, rep, ck in meta:
            n_tot += 1
            n_cert += res[f"{idx}:cert"]
            n_struct += res[f"{idx}:out"]
            if not res[f"{idx}:cert"]:
                run.find(f"fuse:case:{ck}", "Circuit.fuse output is not trace-equivalent to the input "
                         "(gates identified by queue position)", rep)
            elif not res[f"{idx}:out"]:
                run.find(f"fuse-model-mismatch:{ck}", "model and implementation of Circuit.fuse disagree structurally on a "
                         "circuit with repeated objects / measurement options although the output is certified", rep,
                         concrete=False)
    complete = n_tot == len(cases)
    run.oblige("fuse (repeated objects, measurement options): every occurrence of the input is in the output and the output "
               "is certified by trace_equiv_b on position letters", complete and n_cert == n_tot, "certificate")
    run.oblige("fuse (repeated objects, measurement options): model output equals the implementation's",
               complete and n_struct == n_tot, "correspondence")
    run.oblige("fuse (repeated objects, measurement options): execution original == fused (exact integers; float 1e-9 / seeded "
               "samples where basis rotations or collapses occur)", n_exec_ok == n_exec, "test")
    run.notes["fuse2_cases"] = len(cases)
    run.notes["fuse2_cases_with_lost_flags"] = n_flag


def show2(d):
    b = base()
    if d["kind"] == "same":
        return f"same[{d['of']}]"
    if d["kind"] == "member":
        return f"member[{d['of']}.{d['m']}]"
    if d["kind"] == "M":
        return "M" + str(tuple(d["q"])) + "".join(f",{k}={d[k]}" for k in ("basis", "collapse", "reg", "p0", "p1") if d.get(k))
    return b.show(d)


LC_BASIS_WHAT = ("Circuit.light_cone re-adds the basis rotation of every kept measurement with a non-Z basis: the rotation gate "
                 "of the original queue is kept AND the new measurement gate made by M.on_qubits brings fresh rotation gates "
                 "that Circuit.add inserts again, so the light-cone circuit measures in a different basis")


LC2_HEADER = """From QV Require Import C07.Occ.
Definition shp (g : gate) : list nat * nat := (gqs g, match gk g with KOrd => 0 | KMeas => 1 | KSpec => 2 end).
Definition shp_eqb (a b : list nat * nat) : bool := natlist_eqb (fst a) (fst b) && (snd a =? snd b).
"""
LC_BITFLIP_WHAT = ("Circuit.light_cone / M.on_qubits pass a bitflip-probability dict p0/p1 keyed by the ORIGINAL qubit ids to the "
                   "re-indexed measurement gate: KeyError, or the noise lands on another qubit")


def lc2_cases(rng, quick):
    cases = []
    for n, descs in corpus_occ():
        for S in ([0], [n - 1], [0, n - 1]):
            cases.append(("occ", n, descs, sorted(set(S))))
    for n, descs, dm in corpus_meas():
        if not dm:
            for S in ([0], [n - 1]):
                cases.append(("meas", n, descs, S))
    for i in range(40 if quick else 400):
        n, descs = gen_occ(rng, i)
        cases.append(("occ", n, descs, rng.sample(range(n), min(n, rng.choice([1, 1, 2, 3])))))
    for i in range(60 if quick else 600):
        n, descs, dm = gen_meas(rng, i)
        ms = [q for d in descs if d["kind"] == "M" for q in d["q"]]
        S = rng.sample(range(n), min(n, rng.choice([1, 1, 2])))
        if ms and rng.random() < 0.7:
            S = sorted(set(S[:1] + [rng.choice(ms)]))
        cases.append(("meas", n, descs, S))
    return cases


def one_lc2(n, descs, S, seed):
    from qibo import gates
    c, objs = build2(n, descs, "named", 0)
    try:
        lc, qmap, kept, extras, res = observe_lc2(c, S)
    except NotImplementedError:
        return {"c": c, "refused": True}
    bad = []
    if res.problems:
        bad += ["light-cone circuit contains " + p for p in res.problems[:3]]
    readd = []
    other_extra = []
    for j, g in extras:
        owner = [m for m in lc.queue if isinstance(m, gates.M) and any(g is r for r in m.basis)]
        (readd if owner else other_extra).append(j)
    if other_extra:
        bad.append(f"gates at positions {other_extra} of the light-cone circuit were not made from gates of the circuit")
    if not bad:
        bad += lc_checks2(c, lc, qmap, kept, S)
    diff = None
    try:
        diff = exec_lc2(n, descs, S, seed)
    except Exception as e:
        diff = {"exec_error": repr(e)}
    if diff == "skip":
        diff = None
    inv = {v: k for k, v in qmap.items()}
    shapes = [([inv.get(q) for q in g.qubits], {"O": 0, "M": 1, "Sp": 2}[base().kind_of(g)]) for g in lc.queue]
    rot_spec = {v: [q for q, bg in zip(c.queue[v].target_qubits, c.queue[v].basis_gates) if bg is not gates.Z]
                for v, _ in kept if v is not None and isinstance(c.queue[v], gates.M)}
    return {"c": c, "refused": False, "lc": lc, "qmap": qmap, "kept": kept, "readd": readd, "bad": bad, "diff": diff,
            "shapes": shapes, "rot_spec": {v: qs for v, qs in rot_spec.items() if qs},
            "ok_positions": not res.problems and all(q is not None for _, qs in kept for q in qs)}


def run_lc2(run, rng):
    b = base()
    quick = run.tier == "quick"
    cases = lc2_cases(rng, quick)
    header, items, meta = b.HEADER + LC2_HEADER, [], []
    readd_idx, n_readd_model = set(), 0
    n_readd = n_exec_bad = n_in = 0
    for idx, (stream, n, descs, S) in enumerate(cases):
        rep = {"mechanism": "lc2", "stream": stream, "nqubits": n, "qubits": S, "descs": descs, "seed": run.seed + idx}
        ck = key_of(n, descs, S)
        try:
            r = one_lc2(n, descs, S, run.seed + idx)
        except Exception as e:
            run.case({"lc2": [stream, n, S, descs]}, nontrivial=False)
            if isinstance(e, KeyError) and "Bitflip map" in repr(e):
                run.find(f"light_cone:bitflip-map:{ck}", LC_BITFLIP_WHAT + f" (here: raised {e!r})", {**rep, "error": repr(e)})
            else:
                run.find(f"light_cone:raises:{ck}", f"Circuit.light_cone raised {e!r} on a valid circuit", {**rep, "error": repr(e)})
            continue
        c = r["c"]
        if r["refused"]:
            header += f"Definition c{idx} : list gate := {coq_circuit2(c)}.\n"
            items.append((f"{idx}:refuse", f"lc_refuses c{idx} {b.nl(S)}"))
            meta.append((idx, rep, ck, "refusal"))
            run.case({"lc2": [stream, n, S, descs]}, nontrivial=False)
            continue
        kept = r["kept"]
        run.case({"lc2": [stream, n, S, descs]}, nontrivial=0 < len(kept) < len(c.queue))
        if r["readd"]:
            n_readd += 1
            run.find(f"light_cone:basis-readded:{ck}", LC_BASIS_WHAT, {**rep, "extra_positions": r["readd"], "exec_diff": r["diff"]})
        elif r["diff"] is not None:
            n_exec_bad += 1
            run.find(f"light_cone:exec:{ck}", "reduced state of the light-cone circuit differs from the full circuit's "
                     f"({stream} stream, float test)", {**rep, "exec_diff": r["diff"]})
        bf = [x for x in r["bad"] if x.startswith("bitflip")]
        rest = [x for x in r["bad"] if not x.startswith("bitflip")]
        if bf:
            run.find(f"light_cone:bitflip-map:{ck}", LC_BITFLIP_WHAT + " (here: " + bf[0] + ")", {**rep, "bad": bf})
        if rest:
            run.find(f"light_cone:case:{ck}", "Circuit.light_cone output: " + "; ".join(rest[:4]), {**rep, "bad": rest})
        if not r["ok_positions"]:
            continue
        n_in += 1
        cone = sorted(r["qmap"])
        has_spec = any(b.kind_of(g) == "Sp" for g in c.queue)
        header += f"Definition c{idx} : list gate := {coq_circuit2(c)}.\n"
        header += (f"Definition k{idx} : list (nat * option (list nat)) := "
                   f"[{'; '.join(f'({v}, Some {b.nl(qs)})' for v, qs in kept)}].\n")
        items.append((f"{idx}:out", f"lc_out_eqb (light_cone_model c{idx} {b.nl(S)}) ({len(cone)}, {b.nl(cone)}, k{idx})"))
        items.append((f"{idx}:cert", f"lc_cert_b c{idx} {b.nl(S)} {b.nl(cone)} (map fst k{idx})"))
        if has_spec:
            items.append((f"{idx}:norefuse", f"negb (lc_refuses c{idx} {b.nl(S)})"))
        if r["readd"] and all(q is not None for qs, _ in r["shapes"] for q in qs):
            # the queue with re-added rotations must be exactly the faithful model Occ.light_cone_queue
            arms = " ".join(f"| {v} => [{'; '.join(f'G 0 [{q}] O' for q in qs)}]" for v, qs in r["rot_spec"].items())
            header += f"Definition rot{idx} (g : gate) : list gate := match gid g with {arms} | _ => [] end.\n"
            header += f"Definition q{idx} : list (list nat * nat) := [{'; '.join(f'({b.nl(qs)}, {k})' for qs, k in r['shapes'])}].\n"
            items.append((f"{idx}:readd", f"list_eqb shp_eqb (map shp (light_cone_queue rot{idx} c{idx} {b.nl(S)})) q{idx}"))
            readd_idx.add(idx)
        meta.append((idx, rep, ck, "spec" if has_spec else "normal"))
    files = [("C07_lc2_0.v", header, items, meta)]
    res = b.coq_parallel(run, files)[0]
    n_cert = n_struct = n_tot = 0
    if res is None:
        run.oblige("correspondence file C07_lc2_0.v compiles", False, "correspondence")
        run.find("coq:C07_lc2_0.v", "generated file C07_lc2_0.v does not compile", {"file": "C07_lc2_0.v"}, concrete=False)
    else:
        for idx, rep, ck, mode in meta:
            n_tot += 1
            if mode == "refusal":
                ok = res[f"{idx}:refuse"]
                n_cert += ok
                n_struct += ok
                if not ok:
                    run.find(f"light_cone:raises:{ck}", "Circuit.light_cone raised NotImplementedError although no special gate "
                             "with qubits lies in the light cone", rep)
                continue
            cert, so = res[f"{idx}:cert"], res[f"{idx}:out"]
            if mode == "spec" and not res[f"{idx}:norefuse"]:
                cert = False
            if idx in readd_idx:
                n_readd_model += res[f"{idx}:readd"]
                if not res[f"{idx}:readd"]:
                    run.find(f"light_cone:case:{ck}", "the light-cone circuit contains extra gates that are not exactly the "
                             "re-added basis rotations predicted by the model Occ.light_cone_queue", rep)
            n_cert += cert
            n_struct += so
            if not cert:
                run.find(f"light_cone:case:{ck}", "Circuit.light_cone output (gates identified by queue position) is not "
                         "(kept ++ dropped) ~ circuit with dropped gates off the requested qubits", rep)
            elif not so:
                run.find(f"light-cone-model-mismatch:{ck}", "model and implementation of Circuit.light_cone disagree on a circuit "
                         "with repeated objects / measurement options although the output is certified", rep, concrete=False)
    run.oblige("light_cone (repeated objects, measurement options): the gates made from circuit gates are certified "
               "(c ~ kept ++ dropped, dropped off S, kept inside cone) on position letters", res is not None and n_cert == n_tot,
               "certificate")
    run.oblige("light_cone (repeated objects, measurement options): model output equals the implementation's",
               res is not None and n_struct == n_tot, "correspondence")
    run.oblige("light_cone (repeated objects, measurement options): reduced state full == light cone (float test 1e-9) "
               "wherever no basis rotation is re-added", n_exec_bad == 0, "test")
    if readd_idx:
        run.oblige("light_cone: wherever basis rotations are re-added the returned queue is exactly the faithful model "
                   "Occ.light_cone_queue (the model refuted by PropsOcc.light_cone_queue_is_kept_refuted)",
                   n_readd_model == len(readd_idx), "correspondence")
    run.notes["lc2_cases"] = len(cases)
    run.notes["lc2_cases_with_readded_basis_rotation"] = n_readd


# ------------------------------------------------------------------ histories
def hist_descs(rng):
    """a circuit of parametrised gates (mode int: every ordinary gate is a Unitary with an integer matrix;
    mode named: rotations), no measurement on touched qubits"""
    b = base()
    b.table()
    n = rng.randint(2, 4)
    descs = []
    for _ in range(rng.randint(4, 9)):
        ar = min(n, rng.choices([1, 2, 3], weights=(5, 5, 1))[0])
        descs.append(b.og(rng.choice(b.BY_ARITY[ar]), *rng.sample(range(n), ar)))
    return n, descs


NAMED_PARAM = ["RX", "RZ", "U3", "CRX", "fSim", "RXX", "RYc1", "RYc2", "U1q", "U2q"]


def gen_history(rng):
    b = base()
    n, descs = hist_descs(rng)
    mode = rng.choice(["int", "int", "named"])
    if mode == "named":
        # make most gates parametrised ones
        for d in descs:
            ar = len(d["q"])
            cands = [x for x in NAMED_PARAM if sum(b.table()[x][:2]) == ar]
            if cands and rng.random() < 0.7:
                d["name"] = rng.choice(cands)
    ops = [("fuse", rng.randint(1, min(n, 3)))]
    for _ in range(rng.randint(3, 7)):
        r = rng.random()
        if r < 0.27:
            ops.append(("exec", rng.choice(["fused", "fused", "source"])))
        elif r < 0.62:
            ops.append(("update", rng.choice(["source.set_parameters:list", "source.set_parameters:dict", "gate.setter",
                                              "fused.set_parameters:list", "copy.set_parameters:list"]),
                        rng.randint(1, 5), rng.random() < 0.5))
        elif r < 0.68:
            ops.append(("refuse", rng.randint(1, min(n, 3))))
        elif r < 0.78:
            # fuse the source again (same width as before half of the time): must be a NEW snapshot of the source
            ops.append(("fuse", ops[0][1] if rng.random() < 0.5 else rng.randint(1, min(n, 3))))
        elif r < 0.84:
            nm = rng.choice(["H", "X", "S", "CNOT", "CZ", "SWAP"][: 3 if n < 2 else 6])
            ops.append(("add_source", b.og(nm, *rng.sample(range(n), sum(b.table()[nm][:2])))))
        elif r < 0.9:
            ops.append(("add", b.og(rng.choice(b.BY_ARITY[1] + b.BY_ARITY[min(2, n)]), *rng.sample(range(n), 1))))
        else:
            ops.append(("unitary",))
    ops.append(("exec", "fused"))
    for op in ops:
        if op[0] == "add":
            nm = op[1]["name"]
            ar = sum(b.table()[nm][:2])
            op[1]["q"] = rng.sample(range(n), ar)
    if not valid2(n, descs + [op[1] for op in ops if op[0] in ("add", "add_source")]):
        return gen_history(rng)           # e.g. CNOT.controlled_by is refused by the constructor
    return n, descs, mode, ops


def corpus_hist():
    b = base()
    og = b.og
    d1 = [og("RX", 0), og("U3", 1), og("CNOT", 0, 1), og("RZ", 1), og("CZ", 1, 2), og("RX", 2), og("RX", 0)]
    out = []
    for how in ("source.set_parameters:list", "source.set_parameters:dict", "gate.setter", "copy.set_parameters:list"):
        for mode in ("named", "int"):
            out.append((3, d1, mode, [("fuse", 2), ("exec", "fused"), ("update", how, 1, False), ("exec", "fused"),
                                      ("update", how, 2, True), ("unitary",), ("exec", "fused")]))
    out.append((3, d1, "int", [("fuse", 2), ("exec", "fused"), ("refuse", 3), ("exec", "fused"),
                               ("update", "source.set_parameters:list", 3, False), ("exec", "fused")]))
    out.append((3, d1, "int", [("fuse", 2), ("exec", "fused"), ("add_source", og("CNOT", 2, 0)), ("exec", "fused"), ("exec", "source"),
                               ("fuse", 2), ("exec", "fused"), ("update", "gate.setter", 1, False), ("fuse", 2), ("exec", "fused")]))
    out.append((3, d1, "named", [("fuse", 1), ("add", og("RX", 1)), ("exec", "fused"), ("update", "gate.setter", 2, False),
                                 ("exec", "fused")]))
    return out


def run_history(n, descs, mode, ops, seed):
    """executes the history; after every observation compares with freshly built objects; returns list of problems"""
    from qibo import gates
    from qibo.gates.abstract import ParametrizedGate
    b = base()
    rng = random.Random(seed)
    src, objs = build2(n, descs, mode, seed)
    _, pristine = build2(n, descs, mode, seed)          # never mutated: variants are relative to the initial values
    current = {i: None for i in range(len(descs))}      # i -> update variant applied last
    added = []                                           # gates added to the fused circuit
    src_added, at_fuse = [], 0                           # gates added to the source; how many of them the fused one has
    fused, kf = None, None
    alias = None
    probs = []
    psi_i = np.array([complex(rng.randint(-2, 2), rng.randint(-2, 2)) for _ in range(2 ** n)])
    psi_f = norm_state(n, rng)

    def fresh(n_src_added):
        c, o = build2(n, descs, mode, seed)
        for i, var in current.items():
            if var is not None:
                p = b.new_params(o[i], mode, seed, i, var)
                if p is not None:
                    o[i].parameters = p
        for d in src_added[:n_src_added]:
            c.add(b.make_gate(d, mode, random.Random(seed * 37 + len(d["q"]))))
        return c, o

    def state_of(circ):
        circ._final_state = None
        if mode == "int":
            return b.exact_state(circ, psi_i)
        return np.asarray(circ(initial_state=psi_f.copy()).state())

    def same(a, bb):
        return np.array_equal(a, bb) if mode == "int" else bool(np.abs(a - bb).max() < 1e-12)

    def reference():
        c, o = fresh(at_fuse)
        for d in added:
            c.add(b.make_gate(d, mode, random.Random(seed * 31 + len(d["q"]))))
        return c

    step = 0
    for op in ops:
        step += 1
        try:
            if op[0] == "fuse":
                fused, kf = src.fuse(max_qubits=op[1]), op[1]
                added, at_fuse = [], len(src_added)
            elif op[0] == "add_source":
                src._final_state = None
                src.add(b.make_gate(op[1], mode, random.Random(seed * 37 + len(op[1]["q"]))))
                src_added.append(op[1])
            elif op[0] == "refuse":
                fused = fused.fuse(max_qubits=op[1])
            elif op[0] == "add":
                if fused._final_state is not None:
                    fused._final_state = None
                before = [id(g) for g in src.queue]
                fused.add(b.make_gate(op[1], mode, random.Random(seed * 31 + len(op[1]["q"]))))
                added.append(op[1])
                if [id(g) for g in src.queue] != before:
                    probs.append(f"step {step}: adding a gate to the fused circuit changed the queue of the source circuit")
            elif op[0] == "update":
                _, how, var, partial = op
                idxs = [i for i, g in enumerate(objs) if isinstance(g, ParametrizedGate)]
                if partial and how in ("gate.setter", "source.set_parameters:dict"):
                    idxs = [i for i in idxs if (i + var) % 2 == 0]
                newp = {i: b.new_params(pristine[i], mode, seed, i, var) for i in idxs}
                if how == "gate.setter":
                    for i in idxs:
                        objs[i].parameters = newp[i]
                elif how == "source.set_parameters:dict":
                    src.set_parameters({objs[i]: newp[i] for i in idxs})
                else:
                    target = {"source": src, "fused": fused, "copy": None}[how.split(".")[0]]
                    if target is None:
                        alias = alias or src.copy(deep=False)
                        target = alias
                    if how.startswith("fused") and added:
                        continue       # the fused circuit has more parametrised gates than the source: other list
                    order = [i for i in range(len(objs)) if i in newp and objs[i].trainable]
                    if len(order) != len(target.trainable_gates):
                        continue       # gates were added to that circuit: its parameter list has another layout
                    target.set_parameters([newp[i] for i in order])
                    idxs = order
                for i in idxs:
                    current[i] = var
            elif op[0] == "exec":
                circ = fused if op[1] == "fused" else src
                got = state_of(circ)
                ref = reference() if op[1] == "fused" else fresh(len(src_added))[0]
                want = state_of(ref)
                if not same(got, want):
                    probs.append(f"step {step}: executing the {op[1]} circuit after the history {ops[:step]} differs from a freshly "
                                 "built circuit carrying the current parameter values")
                    break
                if op[1] == "fused" and mode == "named":
                    # also against a freshly fused fresh circuit (same arithmetic: tight tolerance)
                    pass
            elif op[0] == "unitary":
                got = np.asarray(fused.unitary())
                want = np.asarray(reference().unitary())
                if not (np.array_equal(got, want) if mode == "int" else np.abs(got - want).max() < 1e-12):
                    probs.append(f"step {step}: unitary() of the fused circuit after the history differs from the fresh circuit's")
                    break
        except Exception as e:
            probs.append(f"step {step} ({op[0]}) raised {e!r}")
            break
    return probs


def run_hist(run, rng):
    quick = run.tier == "quick"
    cases = corpus_hist() + [gen_history(rng) for _ in range(80 if quick else 800)]
    n_ok = 0
    for idx, (n, descs, mode, ops) in enumerate(cases):
        ops = [list(o) for o in ops]
        rep = {"mechanism": "hist", "nqubits": n, "descs": descs, "mode": mode, "ops": ops, "seed": run.seed + idx}
        run.case({"hist": [n, descs, mode, ops]}, nontrivial=sum(1 for o in ops if o[0] == "update") >= 1)
        probs = run_history(n, descs, mode, ops, run.seed + idx)
        if probs:
            run.find(f"fuse:history:{key_of(n, descs, mode, ops)}", "the fused circuit does not reflect the current state of the "
                     "shared gate objects: " + probs[0], {**rep, "problems": probs})
        else:
            n_ok += 1
    if cases and not any(x.get("mechanism") == "hist" for x in run.samples):
        n, descs, mode, ops = cases[0]
        run.sample({"mechanism": "hist", "nqubits": n, "mode": mode, "circuit": [show2(d) for d in descs], "ops": ops})
    run.oblige("histories (fuse -> execute -> update through source / gate / fused / copy -> execute; re-fuse; add): every "
               "observation equals the freshly built circuit's (exact integers; 1e-12 for float rotations)",
               n_ok == len(cases), "test")
    run.notes["history_cases"] = len(cases)


# ------------------------------------------------------------------ replay of one recorded case
def replay_case(run, data):
    b = base()
    r = data["replay"]
    mech = r["mechanism"]
    probs = []
    if mech == "fuse2":
        n, descs, k, dm = r["nqubits"], r["descs"], r["max_qubits"], r.get("density_matrix", False)
        run.case({"fuse2": [n, k, dm, descs]})
        try:
            res = one_fuse2(n, descs, k, dm, r.get("seed", 0))
            if data["key"].startswith("fuse:flags:"):
                probs += [f"flags differ: {res['flags']}"] if res["flags"] else []
            else:
                probs += res["bad"]
                if res["diff"] is not None:
                    probs.append(f"execution differs: {res['diff']}")
                if res["complete"]:
                    hdr = b.HEADER + f"Definition c0 : list gate := {coq_circuit2(res['c'])}.\n" \
                        f"Definition o0 : list sigT := [{'; '.join(coq_sig2(s) for s in res['out'])}].\n"
                    out, _ = run.coq_bools("C07_replay.v", hdr, [("cert", f"gtrace_equivn_b {n} (flat_map (sig_gates c0) o0) c0")])
                    if not (out and out["cert"]):
                        probs.append("certificate = false")
        except Exception as e:
            probs.append(f"raised {e!r}")
    elif mech == "lc2":
        n, descs, S = r["nqubits"], r["descs"], r["qubits"]
        run.case({"lc2": [n, S, descs]})
        try:
            res = one_lc2(n, descs, S, r.get("seed", 0))
            if not res["refused"]:
                probs += res["bad"]
                if res["readd"]:
                    probs.append(f"basis rotations re-added at positions {res['readd']} of the light-cone circuit")
                if res["diff"] is not None:
                    probs.append(f"reduced state differs: {res['diff']}")
                if res["ok_positions"]:
                    cone = sorted(res["qmap"])
                    hdr = b.HEADER + f"Definition c0 : list gate := {coq_circuit2(res['c'])}.\n"
                    out, _ = run.coq_bools("C07_replay.v", hdr, [("cert", f"lc_cert_b c0 {b.nl(S)} {b.nl(cone)} {b.nl([v for v, _ in res['kept']])}")])
                    if not (out and out["cert"]):
                        probs.append("certificate = false")
        except Exception as e:
            probs.append(f"raised {e!r}")
    elif mech == "hist":
        run.case({"hist": [r["nqubits"], r["descs"], r["mode"], r["ops"]]})
        probs = run_history(r["nqubits"], r["descs"], r["mode"], [tuple(o) for o in r["ops"]], r["seed"])
    if probs:
        run.find(data["key"], data["what"], {**r, "problems": probs})
