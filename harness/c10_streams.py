"""C10 streams added after the round-4 misses.

(B) output stability / aliasing: what a translation returns belongs to the caller.  After EVERY call of
    translate_gate / Unroller.__call__ / GateDecompositions.__call__ (every table) / Gate.decompose /
    cnot_decomposition(_light) / two_qubit_decomposition the returned gates are edited (parameters through the
    setter, Unitary buffers in place, init_kwargs) and (i) a second call on a freshly built equal input must return
    the first result, (ii) the module-level tables and constant arrays are deep-snapshotted before / after the whole
    stream, (iii) returned objects are never table objects, never shared between two calls.  Inputs on the canonical
    qubits (0,), (0,1), (0,1,2) -- the no-relabelling path -- and on a non-ascending placement; the two results must
    be relabellings of each other (placement equivariance, structural).  Input gates are not mutated.
(D) near-degenerate inputs of the numerical KAK path: interaction angles 10^-k, 3*10^-k, pi/2 - 10^-k, pi - 10^-k of
    every parametrised two-qubit class (as named gate and as Unitary), near-identity / SWAP / CNOT / CZ / iSWAP /
    product unitaries.  Error thresholds come from the code's own windows (see near_degenerate); independent of
    any tolerance the number of two-qubit natives must reach the operator-Schmidt rank of the input.
    calculate_h_vector is checked against its contract exp(-i(h.Sigma)) == Ud directly.
All of this is TEST level (floats); the forall-theorems kak_core / kak_light are about the synthesis formula for a
GIVEN h and say nothing on how h is obtained from the matrix, nor on the case split on h.
"""
import math
import random

import numpy as np

from lib import qtrace

PLACE = (2, 0, 1, 3)


# ------------------------------------------------------------------ snapshots
def _num(v):
    try:
        a = np.asarray(v, dtype=complex).ravel()
        return tuple(complex(round(x.real, 13), round(x.imag, 13)) for x in a)
    except Exception:  # noqa: BLE001
        return repr(v)


def gsnap(g):
    kw = tuple(sorted((k, _num(v) if not isinstance(v, (bool, str, type(None))) else v) for k, v in getattr(g, "init_kwargs", {}).items()))
    p = g.parameters
    return (type(g).__name__, tuple(g.control_qubits), tuple(g.target_qubits), _num(p) if p is not None else (), bool(g.is_controlled_by), kw,
            bool(getattr(g, "trainable", True)))


def snap(gs):
    return [gsnap(g) for g in gs]


def relabel(s, qmap):
    return [(c, tuple(qmap[q] for q in cs), tuple(qmap[q] for q in ts), p, cb, kw, tr) for (c, cs, ts, p, cb, kw, tr) in s]


def snap_close(a, b, tol=1e-9):
    if len(a) != len(b):
        return False
    for x, y in zip(a, b):
        if x[:3] != y[:3] or x[4] != y[4] or x[6] != y[6]:
            return False
        if isinstance(x[3], tuple) and isinstance(y[3], tuple):
            if len(x[3]) != len(y[3]) or any(abs(u - v) > tol for u, v in zip(x[3], y[3])):
                return False
        elif x[3] != y[3]:
            return False
    return True


def all_tables():
    dec = qtrace.mod("qibo.transpiler.decompositions")
    return {k: v for k, v in vars(dec).items() if isinstance(v, dec.GateDecompositions)}


def probe_gate(cls):
    gg = qtrace.mod("qibo.gates.gates")
    name = cls.__name__
    cat = {n: (nq, ps) for n, nq, ps in qtrace.catalogue()}
    if name in cat:
        nq, ps = cat[name]
        return qtrace.make_gate(name, list(range(nq)), [0.37 + 0.21 * j for j in range(len(ps))])
    if name == "Unitary":
        return gg.Unitary(np.asarray(gg.fSim(0, 1, 0.3, 0.7).matrix()), 0, 1)
    if name == "GeneralizedfSim":
        return gg.GeneralizedfSim(0, 1, np.asarray(gg.RX(0, 0.4).matrix()), 0.3)
    if name == "GeneralizedRBS":
        return gg.GeneralizedRBS([0], [1, 2], 0.4, 0.3)
    if name == "FusedGate":
        from qibo import gates as _g
        f = _g.FusedGate(0, 1)
        f.append(gg.H(0)); f.append(gg.CNOT(0, 1))
        return f
    return None


def module_snapshot():
    """deep snapshot of every translation table (static rows: the gate objects; callable rows: their value on a
    probe gate) and of the module-level constant arrays the numerical path reads; plus the ids of table objects"""
    from qibo.backends import NumpyBackend
    be = NumpyBackend()
    out, ids = {}, set()
    for tname, T in sorted(all_tables().items()):
        for cls, row in T.decompositions.items():
            key = f"{tname}[{cls.__name__}]"
            if isinstance(row, (list, tuple)):
                out[key] = ("static", len(row), snap(row), tuple(tuple(g.init_args) for g in row))
                ids.update(id(g) for g in row)
            else:
                pg = probe_gate(cls)
                if pg is None:
                    out[key] = ("callable", "unprobed")
                    continue
                try:
                    out[key] = ("callable", snap(T._check_instance(pg, be)))
                except Exception as e:  # noqa: BLE001
                    out[key] = ("callable", f"raises {type(e).__name__}")
    ud = qtrace.mod("qibo.transpiler.unitary_decompositions")
    for nm in ("magic_basis", "bell_basis", "H"):
        out["unitary_decompositions." + nm] = _num(getattr(ud, nm))
    import qibo
    for nm in ("I", "X", "Y", "Z", "H", "S", "T", "CNOT", "CZ", "SWAP", "iSWAP"):
        if hasattr(qibo.matrices, nm):
            out["matrices." + nm] = _num(getattr(qibo.matrices, nm))
    return out, ids


def edit(gs):
    """what a caller working on the translated circuit does: re-parametrise the gates it got"""
    for j, h in enumerate(gs):
        name = type(h).__name__
        if name in ("M", "I", "Align"):
            continue
        if name == "Unitary":
            try:
                arr = h.parameters[0]
                if isinstance(arr, np.ndarray) and arr.flags.writeable:
                    arr *= np.exp(0.7j)
                    arr[0, 0] += 0.25
            except Exception:  # noqa: BLE001
                pass
            continue
        if getattr(h, "parameters", ()):
            h.parameters = tuple(0.777 + 0.01 * j + 0.1 * i for i in range(len(h.parameters)))
        kw = getattr(h, "init_kwargs", None)
        if isinstance(kw, dict):
            for k in list(kw):
                if isinstance(kw[k], (int, float)) and not isinstance(kw[k], bool):
                    kw[k] = 0.777


# ------------------------------------------------------------------ (B) aliasing stream
class _Alias:
    def __init__(self, run, table_ids):
        self.run, self.table_ids, self.seen, self.ok, self.n = run, table_ids, set(), True, 0

    def bad(self, key, what, rep):
        """one finding per (kind, entry point): the first input that shows it; at most 16 findings per run (once a
        table is corrupted everything after it is a consequence)"""
        self.ok = False
        parts = key.split(":")
        if parts[0] == "alias" and len(parts) > 3:
            key = ":".join(parts[:3])
        capped = (len(self.seen) >= 16 or (parts[0] == "translate_canonical" and sum(k.startswith("translate_canonical") for k in self.seen) >= 4))
        if key in self.seen or (capped and not key.startswith("alias:tables_changed")):
            self.suppressed = getattr(self, "suppressed", 0) + 1
            return
        self.seen.add(key)
        self.run.refuted.append(key)
        self.run.find(key, what, rep)

    def twice(self, label, key_tail, mk_input, call, rep, in_snap=None):
        """call(mk_input()) -> edit the result -> call(mk_input()) again; returns the first snapshot or None"""
        try:
            x1 = mk_input()
            s_in = in_snap(x1) if in_snap else None
            r1 = call(x1)
            r1 = list(r1) if isinstance(r1, (list, tuple)) else [r1]
        except Exception:  # noqa: BLE001
            return None                       # refusals are another stream's business
        self.n += 1
        self.run.case(["alias", label, key_tail])
        S1 = snap(r1)
        if in_snap and in_snap(x1) != s_in:
            self.bad(f"alias:input_mutated:{label}:{key_tail}", f"{label}: the call changed its input ({key_tail})", rep)
        t = [g for g in r1 if id(g) in self.table_ids]
        if t:
            self.bad(f"alias:table_object:{label}:{key_tail}",
                     f"{label}({key_tail}) returns the module-level template object {type(t[0]).__name__}{t[0].qubits} itself: a caller who "
                     f"re-parametrises the translated gates rewrites the translation table for the rest of the process", rep)
        if len({id(g) for g in r1}) != len(r1):
            self.bad(f"alias:repeated_object:{label}:{key_tail}", f"{label}({key_tail}) returns the same gate object at two positions", rep)
        edit(r1)
        try:
            r2 = call(mk_input())
            r2 = list(r2) if isinstance(r2, (list, tuple)) else [r2]
        except Exception as e:  # noqa: BLE001
            self.bad(f"alias:second_call_raises:{label}:{key_tail}", f"{label}({key_tail}): second call raises {type(e).__name__}: {e}", rep)
            return S1
        if {id(g) for g in r1} & {id(g) for g in r2}:
            self.bad(f"alias:shared_between_calls:{label}:{key_tail}", f"{label}({key_tail}): two calls on equal fresh inputs return a common gate object", rep)
        if not snap_close(snap(r2), S1):
            self.bad(f"alias:unstable:{label}:{key_tail}",
                     f"{label}({key_tail}): after the caller edited the gates returned by the first call, a second call on a freshly built equal "
                     f"input returns different gates (first {S1[:3]}..., second {snap(r2)[:3]}...)", rep)
        edit(r2)
        return S1


def aliasing_stream(run, rng, only=None):
    from qibo import Circuit, gates
    from qibo.backends import NumpyBackend
    from qibo.transpiler.unroller import Unroller, translate_gate
    from qibo.transpiler import unitary_decompositions as ud
    from harness.c10 import native_sets
    be = NumpyBackend()
    before, table_ids = module_snapshot()
    A = _Alias(run, table_ids)
    cat = qtrace.catalogue()
    extra = [("Unitary1", 1, None), ("Unitary2", 2, None), ("GeneralizedfSim", 2, None)]
    fixed_u = {1: np.asarray(gates.U3(0, 0.3, 0.5, 0.7).matrix()), 2: np.asarray(gates.fSim(0, 1, 0.3, 0.7).matrix()) @ np.kron(np.asarray(gates.RX(0, 0.2).matrix()), np.eye(2))}

    def maker(name, qs, vals):
        if name.startswith("Unitary"):
            return lambda: gates.Unitary(np.array(fixed_u[len(qs)]), *qs)
        if name == "GeneralizedfSim":
            return lambda: gates.GeneralizedfSim(*qs, np.asarray(gates.RX(0, 0.4).matrix()), 0.3)
        return lambda: qtrace.make_gate(name, qs, vals)
    # (a) translate_gate: every class x every native set x canonical / non-ascending placement
    for sname, natives in native_sets():
        for name, nq, ps in list(cat) + extra:
            if only and only != name:
                continue
            vals = [round(rng.uniform(0.1, 1.4), 3) for _ in (ps or [])]
            if name == "MS":
                vals[2] = min(vals[2], 1.5)
            snaps = {}
            for plab, qs in (("canonical", list(range(nq))), ("placed", [PLACE[i] for i in range(nq)])):
                mk = maker(name, qs, vals)
                rep = {"call": "translate_gate", "native_set": sname, "class": name, "qubits": qs, "params": vals}
                snaps[plab] = A.twice("translate_gate", f"{sname}:{name}:{plab}", mk, lambda g, _n=natives: translate_gate(g, _n), rep, in_snap=gsnap)
                if plab == "canonical" and snaps[plab] is not None and not name.startswith(("Unitary", "General")):
                    # the no-relabelling path is not covered by the symbolic obligations (placed qubits): float check
                    try:
                        out = translate_gate(mk(), natives)
                        d = qtrace.phase_distance(qtrace.full_unitary(out, nq), qtrace.full_unitary([mk()], nq))
                        if d > 1e-6:
                            A.bad(f"translate_canonical:{name}", f"translate_gate({name}{tuple(qs)}, {sname}) is at distance {d:.3g} from the gate up to phase", {**rep, "distance": d})
                    except Exception:  # noqa: BLE001
                        pass
            if snaps.get("canonical") is not None and snaps.get("placed") is not None:
                # template index i goes to gate.qubits[i] (control qubits are stored sorted)
                qmap = dict(zip(maker(name, list(range(nq)), vals)().qubits, maker(name, [PLACE[i] for i in range(nq)], vals)().qubits))
                if not snap_close(relabel(snaps["canonical"], qmap), snaps["placed"], tol=1e-7):
                    A.bad(f"alias:placement:{sname}:{name}",
                          f"translate_gate({name}, {sname}) on qubits {tuple(range(nq))} is not the relabelling of the translation on {tuple(PLACE[:nq])}",
                          {"call": "translate_gate", "native_set": sname, "class": name, "params": vals})
    # (b) every table called directly, (c) Gate.decompose
    for tname, T in sorted(all_tables().items()):
        for cls in list(T.decompositions):
            if only and only != cls.__name__:
                continue
            if probe_gate(cls) is None:
                continue
            rep = {"call": tname, "class": cls.__name__}
            A.twice(tname, cls.__name__, lambda _c=cls: probe_gate(_c), lambda g, _T=T: _T(g, be), rep, in_snap=gsnap)
    for name, nq, ps in cat:
        if only and only != name:
            continue
        vals = [round(rng.uniform(0.1, 1.4), 3) for _ in ps]
        for plab, qs in (("canonical", list(range(nq))), ("placed", [PLACE[i] for i in range(nq)])):
            A.twice("Gate.decompose", f"{name}:{plab}", maker(name, qs, vals), lambda g: g.decompose(),
                    {"call": "Gate.decompose", "class": name, "qubits": qs, "params": vals}, in_snap=gsnap)
    # (d) Unroller on whole circuits sitting on the canonical qubits
    if not only:
        for sname, natives in native_sets():
            members = []
            for name, nq, ps in cat:
                try:
                    translate_gate(qtrace.make_gate(name, list(range(nq)), [0.37 + 0.21 * j for j in range(len(ps))]), natives)
                    members.append((name, nq, [round(rng.uniform(0.1, 1.4), 3) for _ in ps]))
                except Exception:  # noqa: BLE001
                    pass

            def mk_circ(_m=members):
                c = Circuit(3)
                for name, nq, vals in _m:
                    c.add(qtrace.make_gate(name, list(range(nq)), vals))
                    if nq == 2:
                        c.add(qtrace.make_gate(name, [2, 1], vals))
                return c

            def call(c, _n=natives):
                u = Unroller(_n)(c)
                return list(u.queue)
            A.twice("Unroller", sname, mk_circ, call, {"call": "Unroller", "native_set": sname, "classes": [m[0] for m in members]},
                    in_snap=lambda c: snap(c.queue))
        # (e) numerical synthesis routines
        U = fixed_u[2]
        for q0, q1 in ((0, 1), (1, 0)):
            A.twice("cnot_decomposition", f"{q0}{q1}", lambda: (0.3, 0.5, 0.7), lambda h, a=q0, b=q1: ud.cnot_decomposition(a, b, *h, be), {"call": "cnot_decomposition", "qubits": [q0, q1]})
            A.twice("cnot_decomposition_light", f"{q0}{q1}", lambda: (0.3, 0.5), lambda h, a=q0, b=q1: ud.cnot_decomposition_light(a, b, *h, be), {"call": "cnot_decomposition_light", "qubits": [q0, q1]})
            for lab, M in (("generic", U), ("bell_diagonal", np.asarray(gates.RXX(0, 1, 0.4).matrix()) @ np.asarray(gates.RZZ(0, 1, 0.9).matrix())),
                           ("light", np.asarray(gates.RXX(0, 1, 0.4).matrix()))):
                A.twice("two_qubit_decomposition", f"{lab}:{q0}{q1}", lambda _M=M: np.array(_M), lambda m, a=q0, b=q1: ud.two_qubit_decomposition(a, b, m, be),
                        {"call": "two_qubit_decomposition", "qubits": [q0, q1], "matrix": lab}, in_snap=_num)
    # (ii) the tables and constants after the whole stream
    after, _ = module_snapshot()
    changed = sorted(k for k in before if before[k] != after.get(k))
    if changed:
        A.bad("alias:tables_changed:" + changed[0],
              f"module-level translation tables / constants differ after the stream of translate-then-edit histories: {changed[:6]}",
              {"changed": changed[:20]})
    run.notes["aliasing_stream"] = {"histories": A.n, "table_rows": len(before), "further_findings_not_listed": getattr(A, "suppressed", 0)}
    run.oblige("translations_are_fresh_and_tables_are_constant", A.ok, "correspondence")


# ------------------------------------------------------------------ (D) near-degenerate inputs of the numerical path
def schmidt(U):
    """operator-Schmidt singular values of a 4x4 matrix (descending)"""
    T = np.asarray(U).reshape(2, 2, 2, 2).transpose(0, 2, 1, 3).reshape(4, 4)
    return np.linalg.svd(T, compute_uv=False)


ERR_OK = 1e-7        # below: accepted (np.allclose(h, 0) with atol 1e-8 per component -> operator error <= 3e-8, rounding in eig/qr)
ERR_WINDOW = 2e-6    # (ERR_OK, ERR_WINDOW]: the code's own Bell-diagonality window atol = rtol = 1e-6 (to_bell_diagonal) -- known precision finding
S_PRODUCT = 1e-10    # an operator is a product iff its 2nd operator-Schmidt value is below this
S_WINDOW = 1e-5      # neglected interaction content up to 10 x the Bell window: known precision finding; above: violation


def _angles():
    A = [(f"1e-{k}", 10.0 ** -k) for k in range(1, 9)] + [(f"3e-{k}", 3 * 10.0 ** -k) for k in range(3, 7)]
    A += [(f"pi/2-1e-{k}", math.pi / 2 - 10.0 ** -k) for k in (1, 2, 3, 4, 5, 6, 7, 8)]
    A += [(f"pi-1e-{k}", math.pi - 10.0 ** -k) for k in (2, 3, 4, 6, 8)]
    return A


def near_cases(rng):
    """(family, label, named-gate-or-None, matrix)"""
    import scipy.linalg as sla
    from qibo import gates
    out = []
    cat = [(nm, ps) for nm, nq, ps in qtrace.catalogue() if nq == 2 and ps]
    for nm, ps in cat:
        for j in range(len(ps)):
            if nm == "MS" and j != 2:
                continue
            for alab, a in _angles():
                vals = [0.0] * len(ps)
                vals[j] = a
                if nm == "MS" and a > math.pi / 2:
                    continue
                try:
                    g = qtrace.make_gate(nm, [0, 1], vals)
                    out.append((f"{nm}.{ps[j]}", alab, (nm, vals), np.asarray(g.matrix())))
                except Exception:  # noqa: BLE001
                    pass
    for alab, a in _angles():
        out.append(("fSim.both", alab, ("fSim", [a, a]), np.asarray(gates.fSim(0, 1, a, a).matrix())))
        out.append(("GeneralizedfSim", alab, ("GeneralizedfSim", [a]), np.asarray(gates.GeneralizedfSim(0, 1, np.asarray(gates.RX(0, a).matrix()), a / 2).matrix())))
    X = np.array([[0, 1], [1, 0]], dtype=complex); Y = np.array([[0, -1j], [1j, 0]]); Z = np.diag([1.0 + 0j, -1])
    Hr = rng_hermitian(rng)
    gens = {"ZZ": np.kron(Z, Z), "XX": np.kron(X, X), "XX+YY+ZZ": np.kron(X, X) + np.kron(Y, Y) + np.kron(Z, Z), "XZ": np.kron(X, Z), "rand": Hr}
    from scipy.stats import unitary_group
    a_, b_ = unitary_group.rvs(2, random_state=rng.randrange(2 ** 31)), unitary_group.rvs(2, random_state=rng.randrange(2 ** 31))
    bases = {"identity": np.eye(4, dtype=complex), "SWAP": np.asarray(gates.SWAP(0, 1).matrix()), "CNOT": np.asarray(gates.CNOT(0, 1).matrix()),
             "CZ": np.asarray(gates.CZ(0, 1).matrix()), "iSWAP": np.asarray(gates.iSWAP(0, 1).matrix()), "product": np.kron(a_, b_),
             "ZI": np.kron(Z, np.eye(2)), "minus_identity": -np.eye(4, dtype=complex)}
    for bl, B in bases.items():
        for gl, G in gens.items():
            for k in range(1, 9):
                out.append((f"near_{bl}.{gl}", f"1e-{k}", None, B @ sla.expm(-1j * 10.0 ** -k * G)))
    return out


def rng_hermitian(rng):
    M = np.array([[complex(rng.gauss(0, 1), rng.gauss(0, 1)) for _ in range(4)] for _ in range(4)])
    Hm = (M + M.conj().T) / 2
    return Hm / np.linalg.norm(Hm, 2)


def judge_near(natives, out, U, qs):
    """-> list of (kind, detail) for one translated case"""
    from harness.c10 import allowed
    from qibo import gates
    res = []
    nb = sorted({type(g).__name__ for g in out if not allowed(natives, g)})
    if nb:
        res.append(("non_native", {"non_native": nb}))
    A = qtrace.full_unitary(out, 2)
    B = qtrace.full_unitary([gates.Unitary(np.array(U), *qs)], 2)
    d = qtrace.phase_distance(A, B)
    if d > ERR_WINDOW:
        res.append(("error", {"distance": d}))
    elif d > ERR_OK:
        res.append(("precision", {"distance": d}))
    s = schmidt(U)
    n_cz = sum(1 for g in out if type(g).__name__ in ("CZ", "CNOT"))
    n_is = sum(1 for g in out if type(g).__name__ == "iSWAP")
    reach = min(4, 2 ** n_cz * 4 ** n_is)
    neglected = float(s[reach]) if reach < 4 else 0.0
    if neglected > S_WINDOW:
        res.append(("count", {"two_qubit_natives": n_cz + n_is, "schmidt_values": [float(x) for x in s], "neglected": neglected}))
    elif neglected > S_PRODUCT:
        res.append(("count_window", {"two_qubit_natives": n_cz + n_is, "schmidt_values": [float(x) for x in s], "neglected": neglected}))
    return res


WHAT = {"error": "numerical translation of a near-degenerate two-qubit unitary is wrong beyond the code's own 1e-6 window",
        "precision": "numerical translation loses precision (1e-7 < error <= 2e-6): to_bell_diagonal accepts anything Bell-diagonal within atol=rtol=1e-6 and then drops the local parts",
        "count": "translation contains fewer two-qubit natives than the operator-Schmidt rank of the input requires: a (weakly) entangling gate is translated as if it were (more) local",
        "count_window": "interaction content below ~1e-5 is dropped: fewer two-qubit natives than the operator-Schmidt rank requires (Bell window 1e-6 / np.allclose(h, 0) with atol 1e-8)",
        "non_native": "translation of a unitary contains non-native gates"}


def _near_key(kind, fam):
    """violations are keyed per family; the behaviours inside the code's own precision windows (one root cause) and the
    magic-basis refusals get one key each"""
    if kind in ("precision", "count_window"):
        return f"kak_near:{kind}"
    if kind == "kak_magic_basis:near":
        return kind
    return f"{kind}:{fam}" if kind.startswith("kak_") else f"kak_near:{kind}:{fam}"


def near_degenerate(run, rng, only=None):
    from qibo import gates
    from qibo.transpiler.unroller import translate_gate
    from harness.c10 import native_sets
    sets = [s for s in native_sets() if not s[0].endswith("CNOT")]
    cases = near_cases(rng)
    seen, n, worst = set(), 0, 0.0
    ok = True
    for i, (fam, alab, named, U) in enumerate(cases):
        if only and fam != only:
            continue
        forms = [("unitary", None)] + ([("named", named)] if named else [])
        for form, nm in forms:
            sname, natives = sets[(i + (form == "named")) % len(sets)]
            qs = [0, 1] if (i % 2 == 0) else [1, 0]
            rep = {"family": fam, "angle": alab, "form": form, "native_set": sname, "qubits": qs,
                   "matrix": [[[float(x.real), float(x.imag)] for x in r] for r in np.asarray(U)]}
            try:
                if form == "named" and nm[0] == "GeneralizedfSim":
                    g = gates.GeneralizedfSim(*qs, np.asarray(gates.RX(0, nm[1][0]).matrix()), nm[1][0] / 2)
                elif form == "named":
                    g = qtrace.make_gate(nm[0], qs, nm[1])
                    rep["named"] = [nm[0], nm[1]]
                else:
                    g = gates.Unitary(np.array(U), *qs)
                out = translate_gate(g, natives)
                out = out if isinstance(out, list) else [out]
                verdicts = judge_near(natives, out, U, qs)
            except Exception as e:  # noqa: BLE001
                if form == "named" and "magic basis" not in str(e):
                    run.case(["kak_near_rejected", fam, sname], nontrivial=False)
                    continue            # class outside the tables of this set: a refusal, allowed
                kind = "kak_magic_basis:near" if "magic basis" in str(e) else "kak_near:raises"
                verdicts = [(kind, {"error": f"{type(e).__name__}: {e}"})]
            n += 1
            run.case(["kak_near", fam, alab, form, sname])
            for kind, det in verdicts:
                key = _near_key(kind, fam)
                if kind in ("error", "count", "non_native", "kak_near:raises"):
                    ok = False
                if key in seen:
                    continue
                seen.add(key)
                run.refuted.append(key)
                what = WHAT.get(kind, "the numerical two-qubit synthesis raises " + str(det.get("error")))
                run.find(key, f"{fam} at {alab} as {form} under {sname}: {what} ({ {k: (round(v, 12) if isinstance(v, float) else v) for k, v in det.items() if k != 'schmidt_values'} })",
                         {**rep, **det})
    run.notes["kak_near_degenerate"] = {"cases": n, "accept_below": ERR_OK, "violation_above": ERR_WINDOW, "status": "test only; not a theorem"}
    run.oblige("kak_near_degenerate_inputs", ok, "test")


def replay_near(run, rep, key):
    from qibo import gates
    from qibo.transpiler.unroller import translate_gate
    from harness.c10 import native_sets
    natives = dict(native_sets())[rep["native_set"]]
    U = np.array([[complex(*x) for x in r] for r in rep["matrix"]])
    qs = rep["qubits"]
    try:
        if rep.get("named"):
            g = qtrace.make_gate(rep["named"][0], qs, rep["named"][1])
        else:
            g = gates.Unitary(np.array(U), *qs)
        out = translate_gate(g, natives)
        verdicts = judge_near(natives, out if isinstance(out, list) else [out], U, qs)
    except Exception as e:  # noqa: BLE001
        verdicts = [("kak_magic_basis:near" if "magic basis" in str(e) else "kak_near:raises", {"error": f"{type(e).__name__}: {e}"})]
    for kind, det in verdicts:
        k = _near_key(kind, rep["family"])
        if k == key:
            run.find(key, WHAT.get(kind, str(det)), {**rep, **det})


def h_vector_contract(run, rng, only=None):
    """calculate_h_vector(to_bell_diagonal(Ud)) for Ud = exp(-i(hx XX + hy YY + hz ZZ)) must give h' with
    exp(-i(h'.Sigma)) == Ud up to a global phase -- the link between the matrix and the h the forall-theorems
    kak_core / kak_light start from -- at small, near-pi/4, near-pi/2 and random h."""
    import scipy.linalg as sla
    from qibo.backends import NumpyBackend
    from qibo.transpiler import unitary_decompositions as ud
    be = NumpyBackend()
    X = np.array([[0, 1], [1, 0]], dtype=complex); Y = np.array([[0, -1j], [1j, 0]]); Z = np.diag([1.0 + 0j, -1])
    S = [np.kron(X, X), np.kron(Y, Y), np.kron(Z, Z)]
    E = lambda h: sla.expm(-1j * sum(a * s for a, s in zip(h, S)))
    corpus = []
    for k in range(1, 10):
        e = 10.0 ** -k
        corpus += [(e, 0, 0), (0, e, 0), (0, 0, e), (e, e, 0), (e, e, e), (e, -e, 0), (math.pi / 4 - e, 0, 0), (math.pi / 4, e, 0), (math.pi / 2 - e, 0, 0),
                   (math.pi / 4, math.pi / 4, e), (0.3, e, 0), (0.3, 0.2, e)]
    corpus += [(0, 0, 0), (math.pi / 2, 0, 0), (math.pi / 2, math.pi / 2, math.pi / 2), (math.pi, 0, 0), (math.pi / 4, math.pi / 4, math.pi / 4)]
    corpus += [tuple(rng.uniform(-math.pi, math.pi) for _ in range(3)) for _ in range(20)]
    ok, seen = True, set()
    for h in corpus:
        run.case(["h_vector", [float(x) for x in h]])
        Ud = E(h)
        try:
            diag = ud.to_bell_diagonal(Ud, backend=be)
            if diag is None:
                raise ValueError("to_bell_diagonal rejects a Bell-diagonal matrix")
            h2 = [float(x) for x in ud.calculate_h_vector(diag, backend=be)]
            d = qtrace.phase_distance(E(h2), Ud)
        except Exception as e:  # noqa: BLE001
            d, h2 = float("inf"), [str(e)]
        if d > 1e-9:
            ok = False
            size = "small" if max(abs(x) for x in h) < 0.05 else "generic"
            key = f"kak_hvector:{size}"
            if key not in seen:
                seen.add(key)
                run.refuted.append(key)
                run.find(key, f"calculate_h_vector: for Ud = exp(-i(hx XX + hy YY + hz ZZ)) with h = {tuple(h)} it returns {h2}, and exp(-i h'.Sigma) is at distance "
                         f"{d:.3g} from Ud up to phase", {"h": [float(x) for x in h], "returned": h2, "distance": d})
    run.oblige("calculate_h_vector_inverts_the_bell_diagonal", ok, "test")
