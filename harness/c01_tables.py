"""C01 (gate-table part): the matrix the real backend builds for every gate class equals the
documented matrix (Spec/GateSpec.v, written by hand from the docstrings) for ALL parameter
values, is unitary for all parameter values, and constructor arguments are assigned to
controls / targets as documented.  Obligations are regenerated from /repo on every run by
symbolic tracing (lib/qtrace) and proved with the reflexive checker Base/TrigMat."""
import random

import numpy as np

from lib import qtrace, symtrace as st

HEADER = qtrace.COQ_HEADER + "From QV Require Import Spec.GateSpec.\n"

# documented roles of the constructor's qubit arguments: (control positions, target positions)
ROLES = {c: ([0], [1]) for c in ("CNOT", "CY", "CZ", "CSX", "CSXDG", "CRX", "CRY", "CRZ", "CU1", "CU2", "CU3")}
ROLES.update({c: ([0, 1], [2]) for c in ("TOFFOLI", "CCZ", "DEUTSCH")})
NO_SPEC = ()


def run_tables(run, rng):
    cat = qtrace.catalogue()
    items, meta = [], {}
    with qtrace.patched():
        qtrace.fresh_sym_backend()
        for name, nq, ps in cat:
            params = qtrace.setup_vars(len(ps))
            try:
                g = qtrace.make_gate(name, list(range(nq)), params)
                lit = qtrace.gate_lit(g)
            except Exception as e:
                run.oblige(f"table_{name}", False, "untranslatable")
                run.find(f"trace:table:{name}", f"matrix of {name} cannot be traced: {type(e).__name__}: {e}", concrete=False)
                continue
            args = " ".join(f"(avar {j})" for j in range(len(ps)))
            spec = f"(MLit (S_{name} {args}))" if args else f"(MLit S_{name})"
            items.append((f"table_{name}", f"mcheck_eq {lit} {spec}"))
            items.append((f"unitary_{name}", f"mis_unitary {lit} {nq}%nat"))
            meta[f"table_{name}"] = meta[f"unitary_{name}"] = (name, nq, len(ps))
            run.case(["table", name])
            run.sample({"obligation": f"table_{name}", "class": name, "params": ps})
        # GeneralizedRBS (variable arity): instances with equal and unequal register sizes
        gg = qtrace.mod("qibo.gates.gates")
        for (a, b) in ((1, 1), (2, 1), (1, 2), (2, 2), (1, 3)):
            params = qtrace.setup_vars(2)
            name = f"GeneralizedRBS_{a}_{b}"
            try:
                g = gg.GeneralizedRBS(list(range(a)), list(range(a, a + b)), params[0], params[1])
                lit = qtrace.gate_lit(g)
            except Exception as e:
                run.oblige(f"table_{name}", False, "untranslatable")
                run.find(f"trace:table:{name}", f"matrix of {name} cannot be traced: {type(e).__name__}: {e}", concrete=False)
                continue
            items.append((f"table_{name}", f"mcheck_eq {lit} (MLit (S_GeneralizedRBS {a}%nat {b}%nat (avar 0) (avar 1)))"))
            items.append((f"unitary_{name}", f"mis_unitary {lit} {a + b}%nat"))
            meta[f"table_{name}"] = meta[f"unitary_{name}"] = (name, a + b, 2)
            run.case(["table", name])
    res, okc = run.prove_bools("C01_tables", HEADER, items, timeout=900, kind="gate-table")
    if res is None:
        run.find("coq:C01_tables", "generated gate-table obligations do not compile", concrete=False)
        return
    bad = [(n_, t) for n_, t in items if not res[n_]]
    for n_, t in bad:
        name, nq, npar = meta[n_]
        w = search(name, nq, npar, n_.startswith("unitary"), rng)
        if w:
            run.refuted.append(n_)
            run.find(f"{n_.split('_')[0]}:{name}", f"{name}: matrix built by the backend " +
                     ("is not unitary" if n_.startswith("unitary") else "differs from the documented matrix"), w)
        else:
            run.oblige(n_, False, "gate-table")
            run.find(f"unproved:{n_}", f"obligation {n_} no longer checks", {"class": name}, concrete=False)
    # constructor argument roles (finite table)
    for name, nq, ps in cat:
        qs = [5, 2, 7][:nq]
        g = qtrace.make_gate(name, qs, [0.3] * len(ps))
        cpos, tpos = ROLES.get(name, ([], list(range(nq))))
        okk = (tuple(sorted(qs[i] for i in cpos)) == tuple(g.control_qubits)
               and tuple(qs[i] for i in tpos) == tuple(g.target_qubits))
        if okk:
            run.oblige(f"roles_{name}", True, "finite-table")
        else:
            run.refuted.append(f"roles_{name}")
            run.find(f"roles:{name}", f"{name}{tuple(qs)}: controls {g.control_qubits} targets {g.target_qubits} "
                     f"differ from the documented roles", {"class": name, "qubits": qs})


def spec_numeric(run, name, vals):
    """documented matrix at numeric parameters, evaluated by Coq (vm_compute on Q is not possible for
    cos/sin, so the failing-input search compares the implementation with an independent numeric
    reading of the traced *spec-equal* classes instead): here we use the symbolic trace of the
    unmodified formula table as reference only to locate a witness; the verdict is Coq's."""
    return None


def search(name, nq, npar, unitary, rng):
    for _ in range(8):
        vals = [round(rng.uniform(0.05, 1.5), 3) for _ in range(npar)]
        if name.startswith("GeneralizedRBS_"):
            a, b = (int(x) for x in name.split("_")[1:])
            g = qtrace.mod("qibo.gates.gates").GeneralizedRBS(list(range(a)), list(range(a, a + b)), *vals)
        else:
            g = qtrace.make_gate(name, list(range(nq)), vals)
        M = np.asarray(g.matrix())
        if unitary:
            d = float(np.abs(M.conj().T @ M - np.eye(len(M))).max())
            if d > 1e-9:
                return {"class": name, "params": vals, "deviation_from_unitarity": d}
        else:
            ref = reference_matrix(name, vals)
            if ref is not None:
                d = float(np.abs(M - ref).max())
                if d > 1e-9:
                    return {"class": name, "params": vals, "max_abs_diff_from_documented": d}
    return None


def reference_matrix(name, vals):
    """numeric evaluation of Spec/GateSpec.v's entry, obtained by asking Coq to print the spec as
    TrigNF polynomial and evaluating it in Python is overkill; instead the documented formulas are
    re-typed here ONLY for locating a witness (the proof obligation above is what decides)."""
    import math
    import cmath
    c, s, e = math.cos, math.sin, cmath.exp
    I2 = np.eye(2)

    def ctrl(M, k=2):
        out = np.eye(k + len(M), dtype=complex)
        out[k:, k:] = M
        return out
    one = {
        "H": lambda: np.array([[1, 1], [1, -1]]) / math.sqrt(2),
        "X": lambda: np.array([[0, 1], [1, 0]]), "Y": lambda: np.array([[0, -1j], [1j, 0]]),
        "Z": lambda: np.array([[1, 0], [0, -1]]),
        "SX": lambda: np.array([[1 + 1j, 1 - 1j], [1 - 1j, 1 + 1j]]) / 2,
        "SXDG": lambda: np.array([[1 - 1j, 1 + 1j], [1 + 1j, 1 - 1j]]) / 2,
        "S": lambda: np.diag([1, 1j]), "SDG": lambda: np.diag([1, -1j]),
        "T": lambda: np.diag([1, e(1j * math.pi / 4)]), "TDG": lambda: np.diag([1, e(-1j * math.pi / 4)]),
        "RX": lambda t: np.array([[c(t / 2), -1j * s(t / 2)], [-1j * s(t / 2), c(t / 2)]]),
        "RY": lambda t: np.array([[c(t / 2), -s(t / 2)], [s(t / 2), c(t / 2)]]),
        "RZ": lambda t: np.diag([e(-1j * t / 2), e(1j * t / 2)]),
        "PRX": lambda t, p: np.array([[c(t / 2), -1j * e(-1j * p) * s(t / 2)], [-1j * e(1j * p) * s(t / 2), c(t / 2)]]),
        "U1q": lambda t, p: np.array([[c(t / 2), -1j * e(-1j * p) * s(t / 2)], [-1j * e(1j * p) * s(t / 2), c(t / 2)]]),
        "GPI": lambda p: np.array([[0, e(-1j * p)], [e(1j * p), 0]]),
        "GPI2": lambda p: np.array([[1, -1j * e(-1j * p)], [-1j * e(1j * p), 1]]) / math.sqrt(2),
        "U1": lambda t: np.diag([1, e(1j * t)]),
        "U2": lambda p, l: np.array([[e(-1j * (p + l) / 2), -e(-1j * (p - l) / 2)], [e(1j * (p - l) / 2), e(1j * (p + l) / 2)]]) / math.sqrt(2),
        "U3": lambda t, p, l: np.array([[e(-1j * (p + l) / 2) * c(t / 2), -e(-1j * (p - l) / 2) * s(t / 2)],
                                        [e(1j * (p - l) / 2) * s(t / 2), e(1j * (p + l) / 2) * c(t / 2)]]),
    }
    if name in one:
        return np.asarray(one[name](*vals), dtype=complex)
    base = {"CNOT": "X", "CY": "Y", "CZ": "Z", "CSX": "SX", "CSXDG": "SXDG", "CRX": "RX", "CRY": "RY", "CRZ": "RZ",
            "CU1": "U1", "CU2": "U2", "CU3": "U3"}
    if name in base:
        return ctrl(np.asarray(one[base[name]](*vals), dtype=complex))
    if name == "TOFFOLI":
        return ctrl(one["X"](), 6)
    if name == "CCZ":
        return ctrl(one["Z"](), 6)
    if name.startswith("GeneralizedRBS_"):
        a, b = (int(x) for x in name.split("_")[1:])
        t, p = vals
        M = np.eye(2 ** (a + b), dtype=complex)
        iin, iout = (2 ** a - 1) * 2 ** b, 2 ** b - 1
        M[iin, iin], M[iin, iout] = e(1j * p) * c(t), -e(1j * p) * s(t)
        M[iout, iin], M[iout, iout] = e(-1j * p) * s(t), e(-1j * p) * c(t)
        return M
    if name == "MS":
        p0, p1, t = vals
        M = np.zeros((4, 4), dtype=complex)
        cc, ss = c(t / 2), s(t / 2)
        M[0, 0] = M[1, 1] = M[2, 2] = M[3, 3] = cc
        M[0, 3], M[3, 0] = -1j * e(-1j * (p0 + p1)) * ss, -1j * e(1j * (p0 + p1)) * ss
        M[1, 2], M[2, 1] = -1j * e(-1j * (p0 - p1)) * ss, -1j * e(1j * (p0 - p1)) * ss
        return M
    return generic_reference(name, vals)


def generic_reference(name, vals):
    """remaining classes: the documented matrix evaluated numerically from Spec/GateSpec.v through the
    tracer's own numeric evaluator is not available, so a witness is searched by comparing with the matrix
    of the *unmodified formula's algebraic consequences* (unitarity is checked separately); returns None."""
    return None
