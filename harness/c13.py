"""C13  Exported circuits and results re-import to equivalent objects.

Three layers (see coq/theories/C13/Model.v for what is modelled):
 1. tables regenerated from /repo on every run by introspection of real gate instances and by
    `ast` over models/_openqasm.py (`_qibo_gate_name`) -> _build/C13/Gen.v ; the finite table
    theorems (name_table_ok, raw_roundtrip_<Class>) are proved over these tables on each run;
 2. static theorems (C13/Props.v) over arbitrary tables: qasm_roundtrip, circuit_dict_roundtrip, ...
 3. the real round trip (text layer, not modelled): every class x parameter kinds x layouts is
    exported and re-imported by the real code and compared EXACTLY (float.hex()), and the Coq
    model is evaluated on the same cases (writer statements, re-imported circuit, raw dicts).
Rule applied to the implementation: export either raises or produces output that the importer
accepts and reads as an equivalent object.
"""
STATIC = ["C13/Props", "C13/PropsHistory", "C13/PropsTrainable"]

import ast
import hashlib
import importlib
import inspect
import json
import math
import os
import random
import re
import shutil
import struct
import sys
import tempfile
import warnings

import numpy as np

from lib import vcore

QUBIT_ARGS = ("q", "q0", "q1", "q2")
ABSTRACT = ("Gate", "ParametrizedGate", "SpecialGate", "Channel")


# =====================================================================================
# catalogue of classes (everything reachable the way the importers reach it)
# =====================================================================================
def qg():
    import qibo.gates
    return qibo.gates


def namespace():
    """{name: class} of Gate subclasses reachable as getattr(qibo.gates, name) -- this is what both
    QASMParser._get_gate and Gate.from_dict look names up in."""
    from qibo.gates.abstract import Gate
    out = {}
    for n in dir(qg()):
        o = getattr(qg(), n)
        if inspect.isclass(o) and issubclass(o, Gate):
            out[n] = o
    return out


def from_dict_lookup_names():
    """the names Gate.from_dict can resolve: exactly its own import + getattr chain"""
    from qibo.gates import gates, measurements  # the same statement as in Gate.from_dict
    names = set()
    for mod in (gates, measurements):
        names |= set(dir(mod))
    return names


def formals_of(cls):
    sig = inspect.signature(cls.__init__)
    return list(sig.parameters.values())[1:]


def sample_matrix(k, seed=0):
    """a fixed unitary on k qubits with irrational-looking entries (tensor power of a rotation)"""
    a = 0.3 + 0.1 * seed
    u = np.array([[math.cos(a), -1j * math.sin(a)], [-1j * math.sin(a), math.cos(a)]])
    m = np.array([[1.0 + 0j]])
    for _ in range(k):
        m = np.kron(m, u)
    return m


class Unbuildable(Exception):
    pass


def build(name, qubits, params, extra=None):
    """construct a real instance of class `name` on `qubits` with numeric parameters `params`
    (as many as needed are taken, cyclically).  Returns (gate, used) where used = dict formal -> value."""
    G = qg()
    cls = namespace()[name]
    extra = extra or {}
    ps = list(params) or [0.5]
    pi = [0]

    def nextp():
        v = ps[pi[0] % len(ps)]
        pi[0] += 1
        return v
    q = list(qubits)
    used = {}
    if name == "GeneralizedRBS":
        k = max(1, len(q) // 2)
        used = {"qubits_in": q[:k], "qubits_out": q[k:] or [max(q) + 1], "theta": nextp(), "phi": nextp()}
    elif name == "GeneralizedfSim":
        used = {"q0": q[0], "q1": q[1], "unitary": sample_matrix(1), "phi": nextp()}
    elif name == "Unitary":
        used = {"unitary": sample_matrix(len(q)), "q": tuple(q)}
    elif name == "Align":
        d = nextp()
        used = {"q": q[0], "delay": d if isinstance(d, int) and not isinstance(d, bool) and d >= 0 else 3}
    elif name == "CallbackGate":
        import qibo.callbacks
        used = {"callback": qibo.callbacks.EntanglementEntropy([0])}
    elif name in ("KrausChannel",):
        used = {"qubits": [(q[0],)], "operators": [sample_matrix(1)]}
    elif name == "UnitaryChannel":
        used = {"qubits": [(q[0],)], "operators": [(0.25, sample_matrix(1))]}
    elif name == "PauliNoiseChannel":
        used = {"qubits": q[0], "operators": [("X", 0.125), ("Z", 0.25)]}
    elif name == "DepolarizingChannel":
        used = {"qubits": q[:2], "lam": 0.125}
    elif name == "ThermalRelaxationChannel":
        used = {"qubit": q[0], "parameters": [1.0, 0.5, 0.125]}
    elif name in ("AmplitudeDampingChannel", "PhaseDampingChannel"):
        used = {"qubit": q[0], "gamma": 0.125}
    elif name == "ReadoutErrorChannel":
        used = {"qubits": q[0], "probabilities": [[0.875, 0.125], [0.25, 0.75]]}
    elif name == "ResetChannel":
        used = {"qubit": q[0], "probabilities": [0.125, 0.25]}
    else:
        qi = 0
        for f in formals_of(cls):
            if f.kind == f.VAR_POSITIONAL:
                used[f.name] = tuple(q[qi:])
                qi = len(q)
            elif f.name in QUBIT_ARGS:
                if qi >= len(q):
                    raise Unbuildable(f"{name}: needs more qubits")
                used[f.name] = q[qi]
                qi += 1
            elif f.name == "trainable" or f.kind == f.KEYWORD_ONLY:
                continue
            elif f.default is inspect._empty or isinstance(f.default, (int, float)):
                used[f.name] = nextp()
            else:
                raise Unbuildable(f"{name}: formal {f.name} not understood")
    used.update(extra)
    pos, kw = [], {}
    star_seen = False
    for f in formals_of(cls):
        if f.name not in used:
            continue
        if f.kind == f.VAR_POSITIONAL:
            pos += list(used[f.name])
            star_seen = True
        elif f.kind == f.KEYWORD_ONLY or star_seen:
            kw[f.name] = used[f.name]
        else:
            if len(pos) < sum(1 for g_ in formals_of(cls)[:formals_of(cls).index(f)] if g_.kind != g_.VAR_POSITIONAL):
                kw[f.name] = used[f.name]       # an earlier optional formal was skipped
            else:
                pos.append(used[f.name])
    if name == "Unitary":   # signature (unitary, *q, ...): unitary positional, then qubits
        pos = [used["unitary"]] + list(used["q"])
    try:
        return cls(*pos, **kw), used
    except Exception as e:  # constructor constraints (e.g. MS theta range)
        raise Unbuildable(f"{name}: {type(e).__name__}: {e}")


def arity(name):
    """number of qubits to hand to build(); None if the class takes no qubits"""
    cls = namespace()[name]
    fixed = {"GeneralizedRBS": 3, "Unitary": 2, "Align": 1, "CallbackGate": 0, "KrausChannel": 1,
             "UnitaryChannel": 1, "PauliNoiseChannel": 1, "DepolarizingChannel": 2,
             "ThermalRelaxationChannel": 1, "AmplitudeDampingChannel": 1, "PhaseDampingChannel": 1,
             "ReadoutErrorChannel": 1, "ResetChannel": 1}
    if name in fixed:
        return fixed[name]
    n = 0
    for f in formals_of(cls):
        if f.kind == f.VAR_POSITIONAL:
            return n + 2
        if f.name in QUBIT_ARGS:
            n += 1
    return n


# =====================================================================================
# python values -> Coq terms of C13/Model.v
# =====================================================================================
def cz(z):
    return f"({int(z)})" if z < 0 else str(int(z))


def cstr(s):
    if any(ord(c) > 126 or ord(c) < 32 for c in s):
        raise ValueError("non-printable/non-ascii string cannot be sent to the model")
    return '"' + s.replace('"', '""') + '"'


def fbits(x):
    return struct.unpack(">Q", struct.pack(">d", float(x)))[0]


def clist(items):
    return "[" + "; ".join(items) + "]"


def coption(x, f):
    return "None" if x is None else f"(Some {f(x)})"


class Enc:
    """encoder with a registry naming opaque objects: arrays by content hash, others by identity"""

    def __init__(self):
        self.objs = {}

    def sym(self, o):
        if isinstance(o, np.ndarray):
            h = hashlib.sha1(str(o.dtype).encode() + str(o.shape).encode() + np.ascontiguousarray(o).tobytes()).hexdigest()[:12]
            return f"arr:{h}"
        k = id(o)
        if k not in self.objs:
            self.objs[k] = (f"obj:{len(self.objs)}:{type(o).__name__}", o)
        return self.objs[k][0]

    def atom(self, v):
        from qibo.gates.abstract import Gate
        if isinstance(v, (bool, np.bool_)):
            return f"ABool {'true' if v else 'false'}"
        if isinstance(v, (int, np.integer)):
            return f"AInt {cz(int(v))}"
        if isinstance(v, np.float32):
            return f"ASym {cstr('f32:' + float(v).hex())}"
        if isinstance(v, (float, np.floating)):
            return f"AFlt {fbits(v)}"
        if v is None:
            return "ANone"
        if isinstance(v, str):
            return f"AStr {cstr(v)}"
        if inspect.isclass(v) and issubclass(v, Gate):
            return f"AStr {cstr(v.__name__)}"
        return f"ASym {cstr(self.sym(v))}"

    def val(self, v):
        if isinstance(v, (list, tuple)) and all(not isinstance(x, (list, tuple, dict, np.ndarray)) for x in v):
            return "VL " + clist([self.atom(x) for x in v])
        return f"VA ({self.atom(v)})"

    def kw(self, d):
        return clist([f"({cstr(k)}, {self.val(v)})" for k, v in d.items()])

    def samples(self, s):
        if s is None:
            return "None"
        return "(Some " + clist([clist([cz(int(b)) for b in row]) for row in np.asarray(s).tolist()]) + ")"

    def gate(self, g, samples=False):
        nm = type(g).__name__
        reg = getattr(g, "register_name", None) if nm == "M" else None
        col = bool(getattr(g, "collapse", False)) if nm == "M" else False
        basis = [b.__name__ for b in g.basis_gates] if nm == "M" else []
        smp = None
        if nm == "M" and samples and g.result.has_samples():
            smp = g.result._samples
        return ("(mkGate " + " ".join([
            cstr(nm), clist([f"({self.val(a)})" for a in g.init_args]), self.kw(g.init_kwargs),
            clist([cz(q) for q in g._target_qubits]), clist([cz(q) for q in g._control_qubits]),
            clist([f"({self.val(p)})" for p in g.parameters]),
            "true" if g.is_controlled_by else "false",
            coption(reg, cstr), "true" if col else "false", clist([cstr(b) for b in basis]),
            self.samples(smp)]) + ")")

    def raw(self, d):
        smp = d.get("measurement_result", {}).get("samples") if d["_class"] == "M" else None
        return ("(mkRaw " + " ".join([
            cstr(d["_class"]), clist([f"({self.val(a)})" for a in d["init_args"]]), self.kw(d["init_kwargs"]),
            clist([cz(q) for q in d["_target_qubits"]]), clist([cz(q) for q in d["_control_qubits"]]),
            self.samples(smp)]) + ")")

    def circuit(self, c):
        meas = [i for i, g in enumerate(c.queue) if any(g is m for m in c.measurements)]
        order = [next(i for i, g in enumerate(c.queue) if g is m) for m in c.measurements]
        assert sorted(meas) == sorted(order)
        return ("(mkC " + cz(c.nqubits) + (" true " if c.density_matrix else " false ")
                + clist([self.gate(g) for g in c.queue]) + " " + clist([f"{i}%nat" for i in order]) + ")")


ERRS = {"TypeError": "ETypeError", "ValueError": "EValueError", "NotImplementedError": "ENotImplemented",
        "NameError": "ENameError", "RuntimeError": "ERuntime", "KeyError": "EKeyError", "IndexError": "EIndexError"}


# =====================================================================================
# generated tables
# =====================================================================================
def same(a, b):
    if a is b:
        return True
    if isinstance(a, np.ndarray) or isinstance(b, np.ndarray):
        return False
    if isinstance(a, (list, tuple)) and isinstance(b, (list, tuple)):
        return len(a) == len(b) and all(same(x, y) for x, y in zip(a, b))
    if isinstance(a, (bool, np.bool_)) != isinstance(b, (bool, np.bool_)):
        return False
    try:
        return type(a) in (int, float, str, bool) and type(b) in (int, float, str, bool) and a == b \
            and isinstance(a, float) == isinstance(b, float)
    except Exception:
        return False


def marker_env(name, variant):
    """{formal: marker value} for one real instance (two variants with different values/orders)"""
    cls = namespace()[name]
    qs = ([5, 3, 7, 9], [2, 8, 4, 6])[variant]
    ps = ([0.0625, 0.125, 0.1875, 0.3125], [0.4375, 0.03125, 0.21875, 0.09375])[variant]
    n = arity(name)
    g, used = build(name, qs[:n] if n else [], ps, extra={})
    # formals not set by build() keep their defaults
    env = {}
    for f in formals_of(cls):
        if f.name in used:
            env[f.name] = used[f.name]
        elif f.default is not inspect._empty:
            env[f.name] = f.default
    return g, env


def match_seq(seq, env, formals, allow_lists):
    """express the sequence `seq` through the markers of env: list of ('one'|'star'|'list', formal) or None"""
    out, i = [], 0
    seq = list(seq)
    while i < len(seq):
        hit = None
        for f in formals:
            if f.name not in env:
                continue
            m = env[f.name]
            if f.kind == f.VAR_POSITIONAL:
                k = len(m)
                if k and same(seq[i:i + k], list(m)):
                    hit = ("star", f.name, k)
                    break
            elif allow_lists and isinstance(m, (list, tuple)) and len(m) and all(isinstance(x, int) for x in m) \
                    and same(seq[i:i + len(m)], list(m)):
                hit = ("list", f.name, len(m))
                break
            elif same(seq[i], m):
                hit = ("one", f.name, 1)
                break
        if hit is None:
            return None
        out.append(hit[:2])
        i += hit[2]
    return out


def introspect(name):
    """row of the class table, from real instances.  Fail-closed: anything that cannot be expressed
    through the templates makes the row `modelled = False` (the model then declines that class)."""
    from qibo.gates.abstract import ParametrizedGate
    cls = namespace()[name]
    fs = formals_of(cls)
    row = {"name": name, "formals": [], "args": [], "kw": [], "targets": [], "controls": [], "params": [],
           "label": None, "parametrized": inspect.isclass(cls) and issubclass(cls, ParametrizedGate),
           "dispatch": [], "cb": "CBGate", "modelled": False, "why": ""}
    enc = Enc()
    for f in fs:
        kind = {f.POSITIONAL_OR_KEYWORD: "FPos", f.VAR_POSITIONAL: "FVar", f.KEYWORD_ONLY: "FKw"}.get(f.kind)
        if kind is None:
            row["why"] = f"formal kind {f.kind}"
            kind = "FPos"
        row["formals"].append((f.name, kind, None if f.default is inspect._empty else enc.val(f.default)))
    if name in ABSTRACT:
        row["why"] = "abstract base"
        return row
    try:
        views = []
        for variant in (0, 1):
            g, env = marker_env(name, variant)
            args = match_seq(g.init_args, env, fs, False)
            kw = []
            for k, v in g.init_kwargs.items():
                hit = [f.name for f in fs if f.name in env and f.kind != f.VAR_POSITIONAL and same(v, env[f.name])]
                # prefer the formal of the same name (values such as True may coincide); a value that is
                # no constructor argument must be a constant of the class (same in both instances)
                if k in hit:
                    kw.append((k, ("f", k)))
                elif hit:
                    kw.append((k, ("f", hit[0])))
                elif isinstance(v, (str, bool, int, float, type(None))):
                    kw.append((k, ("c", enc.val(v))))
                else:
                    kw.append((k, None))
            targets = match_seq(g._target_qubits, env, fs, True)
            controls = match_seq(g._control_qubits, env, fs, True)
            params = []
            for p in g.parameters:
                hit = [f.name for f in fs if f.name in env and f.kind != f.VAR_POSITIONAL and same(p, env[f.name])]
                params.append(hit[0] if hit else None)
            views.append((args, kw, targets, controls, params))
        g, _ = marker_env(name, 0)
        try:
            row["label"] = g.qasm_label
        except NotImplementedError:
            row["label"] = None
        try:
            g.controlled_by()
        except ValueError:
            row["cb"] = "CBChannel"
        except Exception:
            pass
        if row["cb"] == "CBGate" and name != "M" and not g._control_qubits:
            for k in (1, 2, 3):
                g2, _ = marker_env(name, 0)
                free = [q for q in (20, 21, 22)][:k]
                try:
                    h = g2.controlled_by(*free)
                    if type(h).__name__ != name:
                        row["dispatch"].append(k)
                except Exception:
                    pass
        a0 = views[0]
        if views[0] != views[1]:
            row["why"] = "templates differ between two marker instances"
        elif a0[0] is None or a0[2] is None or a0[3] is None or any(k[1] is None for k in a0[1]) or any(p is None for p in a0[4]):
            row["why"] = "some field is not a rearrangement of the constructor arguments"
            row["args"] = a0[0] or [("opaque", "derived")]
        else:
            row.update(args=a0[0], kw=a0[1], targets=a0[2], controls=a0[3], params=a0[4], modelled=True)
        if row["args"] is None:
            row["args"] = []
    except Unbuildable as e:
        row["why"] = str(e)
    return row


def coq_row(r):
    fm = clist([f"mkF {cstr(n)} {k} {('(Some (' + d + '))') if d is not None else 'None'}" for n, k, d in r["formals"]])
    asrc = {"one": "AOne", "star": "AStar", "list": "AOne", "opaque": "AOpaque"}
    qsrc = {"one": "QOne", "star": "QStar", "list": "QList"}
    return ("mkRow " + " ".join([
        cstr(r["name"]), fm,
        clist([f"{asrc[k]} {cstr(f)}" for k, f in r["args"]]) if r["modelled"] else "[]",
        clist([f"({cstr(k)}, {('KF ' + cstr(f[1])) if f[0] == 'f' else ('KC (' + f[1] + ')')})" for k, f in r["kw"]]) if r["modelled"] else "[]",
        clist([f"{qsrc[k]} {cstr(f)}" for k, f in r["targets"]]) if r["modelled"] else "[]",
        clist([f"{qsrc[k]} {cstr(f)}" for k, f in r["controls"]]) if r["modelled"] else "[]",
        clist([cstr(p) for p in r["params"]]) if r["modelled"] else "[]",
        coption(r["label"], cstr), "true" if r["parametrized"] else "false",
        clist([str(k) for k in r["dispatch"]]), r["cb"], "true" if r["modelled"] else "false"]))


def qibo_gate_name_table():
    """literal cases of models/_openqasm.py::_qibo_gate_name by `ast`, fail-closed on any other shape:
       if gate == "lit": return "NAME"   |   if gate in ["a", "b"]: return "NAME"   |   return gate.upper()"""
    path = os.path.join(vcore.REPO, "src", "qibo", "models", "_openqasm.py")
    tree = ast.parse(open(path).read())
    fn = next(n for n in tree.body if isinstance(n, ast.FunctionDef) and n.name == "_qibo_gate_name")
    arg = fn.args.args[0].arg
    table = []
    body = [s for s in fn.body if not (isinstance(s, ast.Expr) and isinstance(s.value, ast.Constant))]
    for s in body[:-1]:
        ok = (isinstance(s, ast.If) and not s.orelse and len(s.body) == 1 and isinstance(s.body[0], ast.Return)
              and isinstance(s.body[0].value, ast.Constant) and isinstance(s.test, ast.Compare)
              and len(s.test.ops) == 1 and isinstance(s.test.left, ast.Name) and s.test.left.id == arg)
        if not ok:
            raise ValueError("unexpected statement in _qibo_gate_name: " + ast.dump(s)[:200])
        op, rhs = s.test.ops[0], s.test.comparators[0]
        if isinstance(op, ast.Eq) and isinstance(rhs, ast.Constant):
            keys = [rhs.value]
        elif isinstance(op, ast.In) and isinstance(rhs, (ast.List, ast.Tuple)) and all(isinstance(e, ast.Constant) for e in rhs.elts):
            keys = [e.value for e in rhs.elts]
        else:
            raise ValueError("unexpected test in _qibo_gate_name")
        for k in keys:
            if k not in [t[0] for t in table]:
                table.append((k, s.body[0].value.value))
    last = body[-1]
    ok = (isinstance(last, ast.Return) and isinstance(last.value, ast.Call) and isinstance(last.value.func, ast.Attribute)
          and last.value.func.attr == "upper" and isinstance(last.value.func.value, ast.Name) and last.value.func.value.id == arg
          and not last.value.args)
    if not ok:
        raise ValueError("_qibo_gate_name does not end with `return gate.upper()`")
    # cross-check against the real function on the literal keys and on every label
    from qibo.models._openqasm import _qibo_gate_name
    for k, v in table:
        assert _qibo_gate_name(k) == v
    return table


def basis_tables(enc):
    """classes with a basis_rotation (M's `basis`), and the rotation gate as a function of the qubit"""
    names, rot = [], []
    SENT = 987654
    for n, cls in namespace().items():
        fs = formals_of(cls)
        if [f.name for f in fs] != ["q"] or fs[0].kind != fs[0].POSITIONAL_OR_KEYWORD:
            continue
        try:
            r = cls(SENT).basis_rotation()
        except NotImplementedError:
            continue
        names.append(n)
        rot.append((n, None if r is None else enc.gate(r).replace(str(SENT), "q")))
    return names, rot


def reserved_words():
    """keyword literals of the lexer that the importer really uses (openqasm3's ANTLR lexer)"""
    from openqasm3._antlr import qasm3Lexer
    L = qasm3Lexer.qasm3Lexer
    names = [n.strip("'") for n in L.literalNames if n != "<INVALID>"]
    return [n for n in names if re.fullmatch(r"[A-Za-z_][A-Za-z0-9_]*", n)]


TOKEN_RE = re.compile(r"""
    (?P<ws>\s+) | (?P<comment>//[^\n]*) | (?P<str>"[^"\n]*") | (?P<arrow>->)
  | (?P<flt>-?(?:\d+\.\d*(?:[eE][+-]?\d+)?|\.\d+(?:[eE][+-]?\d+)?|\d+[eE][+-]?\d+))
  | (?P<nat>\d+) | (?P<id>[A-Za-z_][A-Za-z0-9_]*) | (?P<punct>[()\[\],;]) | (?P<bad>.)
""", re.X | re.S)
PUNCT = {"(": "TLPar", ")": "TRPar", "[": "TLBr", "]": "TRBr", ",": "TComma", ";": "TSemi"}


def lex_qasm(text):
    """generic lexer of an OpenQASM text -> list of Coq token terms (independent of the writer's line shapes)"""
    out = []
    for m in TOKEN_RE.finditer(text):
        k, v = m.lastgroup, m.group()
        if k in ("ws", "comment"):
            continue
        if k == "str":
            out.append(f"TStr {cstr(v[1:-1])}")
        elif k == "arrow":
            out.append("TArrow")
        elif k == "flt":
            out.append(f"TFlt {fbits(float(v))}")
        elif k == "nat":
            out.append(f"TNat {int(v)}%nat")
        elif k == "id":
            out.append(f"TId {cstr(v)}")
        elif k == "punct":
            out.append(PUNCT[v])
        else:
            out.append(f"TBad {cstr(v)}")
    return clist(out)


def gen_tables(run):
    """write _build/C13/Gen.v; returns the python-side view of the tables"""
    from qibo.gates import abstract
    enc = Enc()
    ns = namespace()
    rows = [introspect(n) for n in sorted(ns)]
    specials = qibo_gate_name_table()
    bases, rot = basis_tables(enc)
    required = list(abstract.REQUIRED_FIELDS_INIT_KWARGS)
    txt = ["(* generated by harness/c13.py from the qibo tree at " + vcore.REPO + " -- do not edit *)",
           "From Coq Require Import String List ZArith Bool.", "From QV Require Import C13.Model C13.TextModel.",
           "Import ListNotations.", "Local Open Scope string_scope.", "Local Open Scope Z_scope.", ""]
    for r in rows:
        txt.append(f"Definition row_{r['name']} : row := {coq_row(r)}.")
    txt.append("Definition rows : list row := " + clist([f"row_{r['name']}" for r in rows]) + ".")
    txt.append("Definition bases : list string := " + clist([cstr(b) for b in bases]) + ".")
    txt.append("Definition required_kw : list string := " + clist([cstr(b) for b in required]) + ".")
    txt.append("Definition specials : list (string * string) := " + clist([f"({cstr(k)}, {cstr(v)})" for k, v in specials]) + ".")
    txt.append("Definition rotation (b : string) (q : Z) : option gate :=")
    for n, g in rot:
        txt.append(f"  if String.eqb b {cstr(n)} then {('Some ' + g) if g else 'None'} else")
    txt.append("  None.")
    from qibo.gates import abstract as _abs
    txt.append("Definition reserved : list string := " + clist([cstr(b) for b in reserved_words()]) + ".")
    txt.append("Definition required_fields : list string := " + clist([cstr(b) for b in _abs.REQUIRED_FIELDS]) + ".")
    txt += ["Definition print_qasm' := print_qasm rows.", "Definition parse_qasm' := parse_qasm reserved.",
            "Definition name_ok' := name_ok reserved."]
    txt += ["Definition construct' := construct bases.",
            "Definition from_dict' := from_dict rows bases.",
            "Definition raw' := raw_t rows required_kw.   (* Gate.raw of the repaired tree: trainable exported iff != class default *)",
            "Definition add' := add rotation.",
            "Definition build' := build rotation.",
            "Definition write' := write rows.",
            "Definition read' := read rows bases specials rotation.",
            "Definition cfrom_dict' := cfrom_dict rows bases rotation.",
            "Definition craw' := craw_t rows required_kw.", ""]
    run.write("Gen.v", "\n".join(txt))
    ok, out = vcore.coqc(os.path.join(run.dir, "Gen.v"))
    run.checker_cmds.append("coqc _build/C13/Gen.v")
    return {"rows": {r["name"]: r for r in rows}, "specials": specials, "bases": bases, "required": required,
            "ok": ok, "log": out}


HEADER = ("From Coq Require Import String List ZArith Bool.\nFrom QV Require Import C13.Model C13.TextModel.\n"
          "Require Import Gen.Gen.\nImport ListNotations.\nLocal Open Scope string_scope.\nLocal Open Scope Z_scope.\n")


# =====================================================================================
# case specifications (JSON-able, so every case can be replayed) and their interpreter
# =====================================================================================
PI = math.pi
KINDS = {
    "int": [3, -7, 0, 12, 1],
    "negzero": [-0.0, 0.0, -0.0, 0.0],
    "tiny": [1e-300, -1e-300, 5e-324, 2.2250738585072014e-308],
    "huge": [1e300, -1e300, 1.7976931348623157e308, 1e22],
    "digits": [0.1234567890123456, 1 / 3, 123456789.12345679, 1.0000000000000002, 0.1 + 0.2],
    "pi": [PI, PI / 2, -PI / 4, 2 * PI / 3, 3 * PI],
    "np64": [np.float64(0.1), np.float64(-2.5e-7), np.float64(1e16)],
    "mixed": [2, 0.7071067811865476, -1e-7, 100],
}


def pspec(v):
    if isinstance(v, (bool, np.bool_)):
        return {"b": bool(v)}
    if isinstance(v, (int, np.integer)):
        return {"i": int(v)}
    if isinstance(v, np.float64):
        return {"np64": float(v).hex()}
    return {"f": float(v).hex()}


def pval(s):
    if "b" in s:
        return s["b"]
    if "i" in s:
        return s["i"]
    if "np64" in s:
        return np.float64(float.fromhex(s["np64"]))
    return float.fromhex(s["f"])


def make_gate(spec):
    """real gate from a spec {"cls","q","p",["kw"],["ctrl"],["dagger"],["update"],["trainable"]}"""
    G = qg()
    name = spec["cls"]
    if name == "M":
        kw = dict(spec.get("kw", {}))
        if isinstance(kw.get("p0"), dict):
            kw["p0"] = {int(k): v for k, v in kw["p0"].items()}
        if isinstance(kw.get("p1"), dict):
            kw["p1"] = {int(k): v for k, v in kw["p1"].items()}
        if "basis" in kw:
            b = kw["basis"]
            conv = lambda x: getattr(G, x[4:]) if isinstance(x, str) and x.startswith("cls:") else x
            kw["basis"] = [conv(x) for x in b] if isinstance(b, list) else conv(b)
        return G.M(*spec["q"], **kw)
    if name == "FusedGate":
        g = G.FusedGate(*spec["q"])
        for s in spec.get("inner", []):
            g.append(make_gate(s))
        return g
    extra = {}
    if "trainable" in spec:
        extra["trainable"] = spec["trainable"]
    g, _ = build(name, spec["q"], [pval(p) for p in spec.get("p", [])], extra=extra)
    if spec.get("ctrl"):
        g = g.controlled_by(*spec["ctrl"])
    if spec.get("dagger"):
        g = g.dagger()
    if spec.get("update") is not None:
        g.parameters = tuple(pval(p) for p in spec["update"]) if len(spec["update"]) != 1 else pval(spec["update"][0])
    return g


def make_circuit(spec, enc=None):
    """real circuit from {"n","dm","adds":[gate specs]}; returns (circuit, [Coq encodings of the gates
    as they were before Circuit.add touched them])"""
    from qibo import Circuit
    c = Circuit(spec["n"], density_matrix=bool(spec.get("dm", False)), wire_names=spec.get("wires"))
    pre = []
    for gs in spec["adds"]:
        g = make_gate(gs)
        if enc is not None:
            try:
                pre.append(enc.gate(g))
            except Exception:
                pre.append(None)
        c.add(g)
    return c, pre


# ------------------------------------------------------------------ exact structural views
def pview(p, as_float):
    if isinstance(p, np.ndarray):
        return ("arr", str(p.dtype), p.shape, hashlib.sha1(np.ascontiguousarray(p).tobytes()).hexdigest())
    if isinstance(p, (bool, np.bool_)):
        return ("f", float(p).hex()) if as_float else ("b", bool(p))
    if isinstance(p, (int, np.integer)):
        return ("f", float(p).hex()) if as_float else ("i", int(p))
    if isinstance(p, (float, np.floating)):
        return ("f", float(p).hex())
    return ("other", type(p).__name__, repr(p))


def bitflip_view(g):
    try:
        return tuple(tuple(sorted((int(k), float(v).hex()) for k, v in m.items())) for m in g.bitflip_map)
    except Exception:
        return "?"


def gview(g, as_float=False, m_noise=True):
    nm = type(g).__name__
    v = [nm, tuple(g.control_qubits), tuple(g.target_qubits),
         tuple(pview(p, as_float) for p in g.parameters), bool(g.is_controlled_by)]
    if nm == "M":
        v += [g.register_name, bool(g.collapse), tuple(b.__name__ for b in g.basis_gates)]
        if m_noise:
            v.append(bitflip_view(g))
    if nm == "FusedGate":
        v.append(tuple(gview(x, as_float) for x in g.gates))
    if nm == "CallbackGate":
        v.append(type(g.callback).__name__)
    return tuple(v)


def cview(c, as_float=False):
    return {"n": c.nqubits, "dm": bool(c.density_matrix),
            "queue": [gview(g, as_float) for g in c.queue],
            "registers": [(k, tuple(v)) for k, v in c.measurement_tuples.items()]}


def qasm_equiv(c, c2):
    """equivalence of a circuit and its QASM re-import: same n, same non-measurement gates in order
    (parameters as floats, bit for bit), same registers in order with the same qubit order, and no
    measurement of the original missing (collapsing ones are not representable: they must not vanish).
    Non-collapsing measurements may move to the end (nothing after them touches their qubits)."""
    a, b = cview(c, True), cview(c2, True)
    why = []
    if a["n"] != b["n"]:
        why.append(f"nqubits {a['n']} != {b['n']}")
    ga = [g for g in a["queue"] if g[0] != "M"]
    gb = [g for g in b["queue"] if g[0] != "M"]
    if ga != gb:
        why.append("gate lists differ")
    if a["registers"] != b["registers"]:
        why.append(f"registers {a['registers']} != {b['registers']}")
    na = sum(1 for g in a["queue"] if g[0] == "M")
    nb = sum(1 for g in b["queue"] if g[0] == "M")
    if na != nb:
        why.append(f"{na} measurement gates became {nb}")
    return why


# ------------------------------------------------------------------ the writer's text -> statements
RE_GATE = re.compile(r"^([A-Za-z_][A-Za-z0-9_]*)(?:\((.*)\))?\s+(.*);$")


def parse_writer_text(text, enc):
    """statements of a text produced by Circuit.to_qasm, as Coq terms (None if a line has another shape;
    then the model comparison is skipped and only the real round trip counts)"""
    out = []
    for line in text.split("\n"):
        line = line.strip()
        if not line or line.startswith("//") or line.startswith("OPENQASM") or line.startswith("include"):
            continue
        m = re.match(r"^qreg (\w+)\[(\d+)\];$", line)
        if m:
            out.append(f"SQreg {cstr(m.group(1))} {m.group(2)}")
            continue
        m = re.match(r"^creg (.*)\[(\d+)\];$", line)
        if m:
            out.append(f"SCreg {cstr(m.group(1))} {m.group(2)}")
            continue
        m = re.match(r"^measure (\w+)\[(\d+)\] -> (.*)\[(\d+)\];$", line)
        if m:
            out.append(f"SMeasure ({cstr(m.group(1))}, {m.group(2)}) {cstr(m.group(3))} {m.group(4)}")
            continue
        m = RE_GATE.match(line)
        if not m:
            return None
        ps = []
        if m.group(2) is not None:
            for t in m.group(2).split(","):
                try:
                    ps.append(f"AFlt {fbits(float(t.strip()))}")
                except ValueError:
                    return None
        qs = []
        for t in m.group(3).split(","):
            mm = re.match(r"^(\w+)\[(\d+)\]$", t.strip())
            if not mm:
                return None
            qs.append(f"({cstr(mm.group(1))}, {mm.group(2)})")
        out.append(f"SGate {cstr(m.group(1))} {clist(ps)} {clist(qs)}")
    return clist(out)


class CoqBatch:
    """collects boolean model-vs-implementation comparisons (grouped in cases, each with its own
    Definitions) and evaluates them in files of at most ~400 comparisons"""

    def __init__(self, run, name):
        self.run, self.name, self.cases, self.meta = run, name, [], {}
        self.n = 0

    def begin(self):
        self.cases.append(([], []))

    def define(self, term, ty=None):
        self.n += 1
        nm = f"d{self.n}"
        self.cases[-1][0].append(f"Definition {nm}{(' : ' + ty) if ty else ''} := {term}.")
        return nm

    def check(self, label, term, meta=None):
        self.cases[-1][1].append((label, term))
        self.meta[label] = meta

    def flush(self):
        """returns {label: bool or None}"""
        res, files, cur = {}, [], ([], [])
        for defs, items in self.cases:
            if not items:
                continue
            if cur[1] and len(cur[1]) + len(items) > 400:
                files.append(cur)
                cur = ([], [])
            cur[0].extend(defs)
            cur[1].extend(items)
        if cur[1]:
            files.append(cur)
        for fi, (defs, items) in enumerate(files):
            header = HEADER + "\n".join(defs) + "\n"
            r, out = self.run.coq_bools(f"{self.name}_{fi}.v", header, items)
            if r is None:
                for l, _ in items:
                    res[l] = None
                self.run.notes.setdefault("coq_batch_errors", []).append({"batch": f"{self.name}_{fi}", "log": out[-800:]})
            else:
                res.update(r)
        return res


# =====================================================================================
# suite 1: OpenQASM  (Circuit.to_qasm -> Circuit.from_qasm)
# =====================================================================================
PLAIN_REG = re.compile(r"^[a-z][a-z0-9_]*$")
QASM_WORDS = {"measure", "creg", "qreg", "gate", "barrier", "reset", "if", "opaque", "include", "pi", "U", "CX",
              "bit", "qubit", "let", "def", "for", "while", "in", "input", "output", "const", "int", "float", "bool",
              "angle", "uint", "complex", "array", "return", "end", "box", "delay", "stretch", "duration", "cal", "defcal",
              "extern", "else", "switch", "case", "default", "break", "continue", "readonly", "mutable", "void",
              "sin", "cos", "tan", "exp", "ln", "sqrt", "true", "false", "im", "dt", "ns", "us", "ms", "s", "durationof",
              "sizeof", "ctrl", "negctrl", "inv", "pow", "gphase", "pragma", "defcalgrammar", "OPENQASM", "euler", "tau"}


def gate_sig(gs):
    if gs["cls"] == "M":
        kw = gs.get("kw", {})
        s = "M"
        if kw.get("collapse"):
            s += ".collapse"
        rn = kw.get("register_name")
        if rn is not None and not PLAIN_REG.match(rn):
            s += ".reg=" + rn
        elif rn in QASM_WORDS:
            s += ".reg=" + rn
        if not gs["q"]:
            s += ".noqubits"
        return s
    return gs["cls"] + (".ctrl" if gs.get("ctrl") else "")


def spec_sig(spec):
    return "+".join(sorted({gate_sig(g) for g in spec["adds"]})) or "empty"


def qasm_outcome(spec):
    """run the real export/import; returns (category, detail, objects) with category in
    unbuildable | export_raises | import_rejects | differs | ok"""
    from qibo import Circuit
    try:
        c, _ = make_circuit(spec)
    except Exception as e:
        return "unbuildable", f"{type(e).__name__}: {e}", None
    try:
        text = c.to_qasm()
    except Exception as e:
        return "export_raises", type(e).__name__, (c, None, None)
    try:
        with warnings.catch_warnings():
            warnings.simplefilter("ignore")
            c2 = Circuit.from_qasm(text)
    except Exception as e:
        return "import_rejects", f"{type(e).__name__}: {str(e)[:120]}", (c, text, e)
    why = qasm_equiv(c, c2)
    if why:
        return "differs", "; ".join(why), (c, text, c2)
    return "ok", "", (c, text, c2)


def shrink(spec, outcome_fn, cat):
    """greedy delta debugging over the list of adds: keep the failure category"""
    cur = dict(spec)
    changed = True
    while changed:
        changed = False
        for i in range(len(cur["adds"])):
            cand = dict(cur, adds=cur["adds"][:i] + cur["adds"][i + 1:])
            if outcome_fn(cand)[0] == cat:
                cur, changed = cand, True
                break
    return cur


def qasm_key(spec, cat, objs):
    c = objs[0]
    if cat == "differs":
        names = [m.register_name for m in c.measurements]
        if len(set(names)) < len(names):
            small = shrink(spec, lambda sp: ("differs", "", None) if (lambda o: o[0] == "differs" and len({m.register_name for m in o[2][0].measurements}) < len(o[2][0].measurements))(qasm_outcome(sp)) else ("other", "", None), "differs")
            return "qasm:differs:duplicate_register_name", small
        c2 = objs[2]
        ra = [(k, tuple(v)) for k, v in c.measurement_tuples.items()]
        rb = [(k, tuple(v)) for k, v in c2.measurement_tuples.items()]
        if ra != rb and [(k, tuple(sorted(v))) for k, v in ra] == [(k, tuple(sorted(v))) for k, v in rb]:
            # same registers, same qubit sets, another qubit ORDER inside a register
            def same_kind(sp):
                o = qasm_outcome(sp)
                if o[0] != "differs":
                    return ("other", "", None)
                x = [(k, tuple(v)) for k, v in o[2][0].measurement_tuples.items()]
                y = [(k, tuple(v)) for k, v in o[2][2].measurement_tuples.items()]
                return ("differs", "", None) if x != y and [(k, tuple(sorted(v))) for k, v in x] == [(k, tuple(sorted(v))) for k, v in y] else ("other", "", None)
            return "qasm:differs:register_qubit_order", shrink(spec, same_kind, "differs")
        for g in c.queue:
            if type(g).__name__ == "M" and g.collapse:
                return "qasm:differs:collapse_dropped:" + ("explicit" if g.init_kwargs.get("collapse") else "implicit"), spec
    small = shrink(spec, qasm_outcome, cat)
    return f"qasm:{cat}:{spec_sig(small)}", small


def qasm_model_checks(batch, label, spec):
    """model vs implementation on one circuit: Circuit.add, to_qasm statements, from_qasm result"""
    from qibo import Circuit
    enc = Enc()
    try:
        c, pre = make_circuit(spec, enc)
        C = enc.circuit(c)
    except Exception:
        return
    batch.begin()
    dC = batch.define(C)
    dm = "true" if spec.get("dm") else "false"
    if all(p is not None for p in pre):
        batch.check(label + ":add", f"res_eqb circuit_eqb (build' {cz(spec['n'])} {dm} {clist(pre)}) (OK {dC})", spec)
    try:
        text = c.to_qasm()
    except Exception as e:
        if type(e).__name__ in ERRS:
            batch.check(label + ":write", f"is_err {ERRS[type(e).__name__]} (write' {dC})", spec)
        return
    # ---- text layer: the real text is tokenised by a generic lexer; the model printer must emit exactly these
    # tokens, the model parser must turn them into the writer's statements, and Model.read of those statements
    # must be the circuit that the real from_qasm builds
    toks = lex_qasm(text)
    dT = batch.define(toks, "list tok")
    plain_names = all(PLAIN_ID.match(str(r)) for r in c.measurement_tuples)
    if plain_names:
        batch.check(label + ":print", f"res_eqb (list_eqb tok_eqb) (print_qasm' {dC}) (OK {dT})", spec)
    try:
        with warnings.catch_warnings():
            warnings.simplefilter("ignore")
            c2 = Circuit.from_qasm(text)
    except Exception as e:
        if type(e).__name__ == "QASM3ParsingError":      # rejected by the real lexer/parser: the model's must reject too
            batch.check(label + ":parse", f"is_err EValueError (parse_qasm' {dT})", spec)
        elif type(e).__name__ in ERRS:
            batch.check(label + ":read", f"is_err {ERRS[type(e).__name__]} (rbind (parse_qasm' {dT}) read')", spec)
        return
    batch.check(label + ":parse", f"res_eqb (list_eqb stmt_eqb) (parse_qasm' {dT}) (write' {dC})", spec)
    try:
        C2 = enc.circuit(c2)
    except Exception:
        return
    batch.check(label + ":read", f"res_eqb circuit_eqb (rbind (parse_qasm' {dT}) read') (OK {C2})", spec)


PLAIN_ID = re.compile(r"^[A-Za-z_][A-Za-z0-9_]*$")


def placement(k, variant=0):
    base = ([2, 0, 3, 1, 4], [0, 1, 2, 3, 4], [4, 2, 1, 3, 0], [1, 4, 0, 2, 3])[variant % 4]
    return base[:k]


def class_specs(tier):
    """one single-gate circuit per concrete class x parameter kind (x placement in the thorough tier)"""
    out = []
    variants = (0, 2) if tier == "thorough" else (0,)
    for name in sorted(namespace()):
        if name in ABSTRACT or name in ("M", "FusedGate"):
            continue
        k = arity(name)
        nparams = len([f for f in formals_of(namespace()[name])])
        for kind, vals in KINDS.items():
            for v in variants:
                rot = (v + len(name)) % len(vals)
                ps = [pspec(x) for x in (vals[rot:] + vals[:rot])]
                if name == "MS":   # theta is restricted to [0, pi/2]
                    th = next((x for x in vals if isinstance(x, (int, float, np.floating)) and 0 <= float(x) <= PI / 2), 0.5)
                    ps = ps[:2] + [pspec(th)]
                out.append({"n": 5, "adds": [{"cls": name, "q": placement(k, v), "p": ps}]})
            if not any(f.name not in QUBIT_ARGS and f.kind != f.VAR_POSITIONAL and f.name != "trainable"
                       for f in formals_of(namespace()[name])):
                break   # no parameters: one kind is enough
    return out


GOOD_NAMES = ["a", "b", "reg", "m0", "out_1", "zz9", "c", "register7", "q", "é"]
BAD_NAMES = ["1a", "a b", "measure", "creg", "a-b", "qreg", "gate", "a.b", "if", "a[0]", "pi2;", "Abc", "_", "", "X", "a\tb"]


def register_specs(tier, rng):
    """register layouts: several registers, permuted and non-contiguous qubits, measurements in the middle,
    default names, awkward names, collapsing measurements (explicit and implicit), noisy/rotated measurements"""
    out = []
    M = lambda q, **kw: {"cls": "M", "q": list(q), "kw": kw}
    H = lambda q: {"cls": "H", "q": [q]}
    out.append({"n": 4, "adds": [H(0), M([2, 0], register_name="a"), M([3], register_name="b")]})
    out.append({"n": 5, "adds": [M([4, 1, 2], register_name="a"), H(0), M([3], register_name="b"), {"cls": "X", "q": [0]}]})
    out.append({"n": 6, "adds": [M([5], register_name="c"), M([0, 3], register_name="a"), M([4, 1, 2], register_name="b")]})
    out.append({"n": 3, "adds": [M([2, 0]), M([1])]})
    out.append({"n": 3, "adds": [M([2, 0], register_name="register1"), M([1])]})
    out.append({"n": 3, "adds": [M([1], register_name="register1"), M([2, 0])]})
    out.append({"n": 3, "adds": [M([0], register_name="a"), M([0], register_name="b")]})
    out.append({"n": 4, "adds": [H(0), M([2, 0], register_name="a", collapse=True), H(2)]})
    out.append({"n": 4, "adds": [H(0), M([2, 0], register_name="a"), H(2), M([1], register_name="b")]})
    out.append({"n": 4, "adds": [M([2, 0], collapse=True), M([2, 0], register_name="a")]})
    out.append({"n": 3, "adds": [M([2, 0], register_name="a", basis="cls:X")]})
    out.append({"n": 3, "adds": [M([2, 0], register_name="a", basis=["cls:Y", "cls:Z"])]})
    out.append({"n": 3, "adds": [M([2, 0], register_name="a", p0=0.125)]})
    out.append({"n": 3, "adds": [M([], register_name="a")]})
    out.append({"n": 1, "adds": []})
    out.append({"n": 3, "dm": True, "adds": [H(1), M([1], register_name="a")]})
    out.append({"n": 3, "wires": ["x", "y", "z"], "adds": [H(1), M([1, 2], register_name="a")]})
    for nm in GOOD_NAMES + BAD_NAMES:
        out.append({"n": 3, "adds": [H(1), M([2, 0], register_name=nm)]})
    return out


def labelled_classes():
    out = []
    for name in sorted(namespace()):
        if name in ABSTRACT or name == "M":
            continue
        try:
            g, _ = build(name, placement(arity(name)), [0.5])
            g.qasm_label
            out.append(name)
        except Exception:
            pass
    return out


def random_gate_spec(rng, n, classes):
    name = rng.choice(classes)
    k = arity(name)
    if k > n:
        return None
    qs = rng.sample(range(n), k)
    vals = KINDS[rng.choice(list(KINDS))]
    ps = [pspec(rng.choice(vals)) for _ in range(4)]
    if name == "MS":
        ps[2] = pspec(rng.choice([0.5, 1, PI / 2, 0.0, 1e-300]))
    return {"cls": name, "q": qs, "p": ps}


def random_circuit_specs(tier, rng):
    lab = labelled_classes()
    allc = [n for n in sorted(namespace()) if n not in ABSTRACT and n not in ("M", "FusedGate", "CallbackGate")]
    N = 400 if tier == "thorough" else 90
    out = []
    for i in range(N):
        n = rng.randint(1, 6)
        mode = rng.random()
        adds, names = [], rng.sample(GOOD_NAMES[:-1], 6)
        free = list(range(n))
        rng.shuffle(free)
        for _ in range(rng.randint(0, 9)):
            r = rng.random()
            if r < 0.72:
                g = random_gate_spec(rng, n, lab)
                # in the clean mode gates stay off the qubits that are already measured
                if g and not (mode < 0.7 and any(q not in free for q in g["q"])):
                    adds.append(g)
            elif r < 0.9 and free:
                k = rng.randint(1, min(3, len(free)))
                qs, free = free[:k], free[k:]
                kw = {}
                if rng.random() < 0.8:
                    kw["register_name"] = names.pop()
                if mode >= 0.85 and rng.random() < 0.4:
                    kw["collapse"] = True
                adds.append({"cls": "M", "q": qs, "kw": kw})
            elif mode >= 0.7:
                g = random_gate_spec(rng, n, allc)
                if g:
                    if rng.random() < 0.3 and len(g["q"]) < n:
                        g["ctrl"] = [q for q in range(n) if q not in g["q"]][:rng.randint(1, 2)]
                    adds.append(g)
        out.append({"n": n, "adds": adds})
    return out


def suite_qasm(run, rng, T):
    batch = CoqBatch(run, "qasm")
    specs = [("class", s) for s in class_specs(run.tier)] + [("layout", s) for s in register_specs(run.tier, rng)] \
        + [("random", s) for s in random_circuit_specs(run.tier, rng)]
    stats = {}
    for i, (origin, spec) in enumerate(specs):
        cat, detail, objs = qasm_outcome(spec)
        stats[cat] = stats.get(cat, 0) + 1
        if cat == "unbuildable":
            continue
        if cat in ("ok", "differs", "import_rejects") and objs and objs[0] is not None:
            for m in objs[0].measurements:
                tq = list(m.target_qubits)
                if len(tq) >= 2 and tq != sorted(tq):
                    stats["nonascending_registers_exported"] = stats.get("nonascending_registers_exported", 0) + 1
        run.case(["qasm", spec], nontrivial=bool(spec["adds"]))
        if i % 97 == 0 or (origin == "layout" and i % 11 == 0):
            run.sample({"suite": "qasm", "spec": spec, "outcome": cat, "text": objs[1].split("\n")[3:] if objs and objs[1] else None})
        if cat in ("import_rejects", "differs"):
            key, small = qasm_key(spec, cat, objs)
            c2, d2, o2 = qasm_outcome(small)
            run.find(key, f"to_qasm() output is {'rejected by' if cat == 'import_rejects' else 'read differently by'} from_qasm(): {d2 or detail}",
                     {"suite": "qasm", "spec": small, "category": cat, "detail": d2 or detail,
                      "text": o2[1] if o2 and isinstance(o2[1], str) else None})
        try:
            ascii_ok = all(ord(ch) < 127 and ord(ch) >= 32 for g in spec["adds"] for ch in str(g.get("kw", {}).get("register_name") or ""))
            if ascii_ok:
                qasm_model_checks(batch, f"q{i}", spec)
        except Exception as e:   # the encoder met something it cannot express: real round trip only
            run.notes.setdefault("model_skipped", []).append(f"q{i}: {type(e).__name__}: {e}"[:200])
    res = batch.flush()
    T["qasm_stats"] = stats
    run.oblige("the real QASM round trip covers non-ascending multi-qubit registers (compared structurally, independent of the model)",
               stats.get("nonascending_registers_exported", 0) >= 10, "coverage")
    return batch, res


# =====================================================================================
# suite 2: gate dictionaries  (Gate.raw / to_json -> Gate.from_dict, M.load)
# =====================================================================================
def gate_variants(tier):
    """gate specs: every class x parameter kinds, plus controlled / dagger / updated-parameter /
    non-trainable variants and the measurement gate in all its keyword forms"""
    out = []
    for name in sorted(namespace()):
        if name in ABSTRACT or name in ("M", "FusedGate"):
            continue
        k = arity(name)
        has_params = any(f.name not in QUBIT_ARGS and f.kind != f.VAR_POSITIONAL and f.name != "trainable"
                         for f in formals_of(namespace()[name]))
        kinds = list(KINDS.items()) if has_params else list(KINDS.items())[:1]
        for ki, (kind, vals) in enumerate(kinds):
            rot = len(name) % len(vals)
            ps = [pspec(x) for x in (vals[rot:] + vals[:rot])]
            if name == "MS":
                th = next((x for x in vals if 0 <= float(x) <= PI / 2), 0.5)
                ps = ps[:2] + [pspec(th)]
            base = {"cls": name, "q": placement(k, ki), "p": ps}
            out.append(("plain", base))
            if ki == 0 or tier == "thorough":
                free = [q for q in range(8) if q not in base["q"]]
                for nc in (1, 2, 3):
                    out.append((f"ctrl{nc}", dict(base, ctrl=free[:nc][::-1])))
                out.append(("dagger", dict(base, dagger=True)))
                out.append(("nontrainable", dict(base, trainable=False)))
                if has_params and name not in ("Unitary", "GeneralizedfSim", "Align"):
                    cls = namespace()[name]
                    try:
                        g0 = make_gate(base)
                        npar = len(g0.parameters)
                        up = [pspec(x) for x in (0.8125, 0.40625, 0.203125)[:npar]]
                        out.append(("updated", dict(base, update=up)))
                    except Exception:
                        pass
    M = lambda q, **kw: {"cls": "M", "q": list(q), "kw": kw}
    ms = [M([2, 0]), M([1], register_name="a"), M([3, 1, 2], register_name="Reg_X", collapse=True),
          M([2, 0], basis="cls:X"), M([2, 0], basis=["cls:X", "cls:Y"]), M([2, 0], basis="Y"), M([2, 0, 1], basis=["Z", "X", "Y"]),
          M([2, 0], p0=0.125), M([2, 0], p0=[0.125, 0.25], p1=0.375), M([2, 0], p0=[0.125, 0.25], p1=[0.5, 0.0625]),
          M([2, 0], p0={"2": 0.125, "0": 0.25}), M([2, 0], p1={"0": 0.25}), M([0, 1, 2, 3, 4, 5], register_name="all"), M([])]
    out += [("M", m) for m in ms]
    f = {"cls": "FusedGate", "q": [2, 0], "inner": [{"cls": "H", "q": [2]}, {"cls": "CNOT", "q": [2, 0]}]}
    out += [("fused", f), ("fused_empty", {"cls": "FusedGate", "q": [1, 0], "inner": []})]
    return out


def dict_outcome(spec, via):
    """real Gate.raw (via='raw') or to_json + json.loads (via='json') followed by Gate.from_dict"""
    from qibo.gates.abstract import Gate
    try:
        g = make_gate(spec)
    except Exception as e:
        return "unbuildable", f"{type(e).__name__}: {e}", None
    try:
        if via == "raw":
            d = g.raw
        elif via == "json":
            d = json.loads(g.to_json())
        else:   # M.load on the json text
            d = g.to_json()
    except Exception as e:
        return "export_raises", type(e).__name__, (g, None, None)
    try:
        with warnings.catch_warnings():
            warnings.simplefilter("ignore")
            g2 = Gate.from_dict(d) if via != "load" else qg().M.load(d)
    except Exception as e:
        return "import_rejects", f"{type(e).__name__}: {str(e)[:140]}", (g, d, e)
    a, b = gview(g), gview(g2)
    if a != b:
        diff = [f"{x!r} != {y!r}" for x, y in zip(a, b) if x != y]
        return "differs", "; ".join(diff)[:300], (g, d, g2)
    return "ok", "", (g, d, g2)


def dict_variant_tag(variant, spec):
    if variant == "M":
        kw = spec.get("kw", {})
        tags = [k + ("dict" if isinstance(v, dict) else "") for k, v in sorted(kw.items()) if k in ("p0", "p1", "basis", "collapse")]
        return "M" + ("." + ".".join(tags) if tags else "") + ("" if spec["q"] else ".noqubits")
    return spec["cls"]


def suite_gate_dict(run, rng, T):
    batch = CoqBatch(run, "gdict")
    stats, lossy = {}, {}
    base_fail = set()
    variants = gate_variants(run.tier)
    for i, (variant, spec) in enumerate(variants):
        for via in ("raw", "json") + (("load",) if spec["cls"] == "M" else ()):
            cat, detail, objs = dict_outcome(spec, via)
            stats[f"{via}:{cat}"] = stats.get(f"{via}:{cat}", 0) + 1
            if cat == "unbuildable":
                continue
            run.case(["gate_dict", via, variant, spec])
            if i % 61 == 0 and via == "json":
                run.sample({"suite": "gate_dict", "via": via, "variant": variant, "spec": spec, "outcome": cat,
                            "dict": json.loads(json.dumps(objs[1], default=str)) if objs and objs[1] is not None and not isinstance(objs[1], str) else None})
            if cat in ("import_rejects", "differs"):
                tag = dict_variant_tag(variant, spec)
                v = via if via != "load" else "json"
                key = f"{v}:{cat}:{tag}"
                if variant not in ("plain", "M", "fused", "fused_empty") and (v, cat, spec["cls"]) not in base_fail:
                    key += "." + variant     # only the variant fails, the plain gate is fine
                else:
                    base_fail.add((v, cat, spec["cls"]))
                what = ("Gate.raw" if via == "raw" else "Gate.to_json()") + " output is " + \
                       ("rejected by" if cat == "import_rejects" else "read differently by") + f" Gate.from_dict: {detail}"
                run.find(key, what, {"suite": "gate_dict", "via": via, "variant": variant, "spec": spec, "category": cat, "detail": detail})
            if cat == "ok":   # fields outside the property text (not the operator) that do not survive
                g, _, g2 = objs
                for k in set(g.init_kwargs) | set(g2.init_kwargs):
                    a, b = g.init_kwargs.get(k), g2.init_kwargs.get(k)
                    if not isinstance(a, np.ndarray) and not isinstance(b, np.ndarray) and type(a) in (bool, str, type(None)) and a != b:
                        lossy[f"{spec['cls']}.{k}"] = f"{a!r} -> {b!r}"
        # ---- model vs implementation (raw dict, from_dict of the raw dict and of its json image)
        try:
            gate_dict_model_checks(batch, f"g{i}", spec)
        except Exception as e:
            run.notes.setdefault("model_skipped", []).append(f"g{i}: {type(e).__name__}: {e}"[:200])
    T["gate_dict_stats"] = stats
    T["fields_not_preserved_but_outside_property_text"] = lossy
    res = batch.flush()
    return batch, res


def gate_dict_model_checks(batch, label, spec):
    from qibo.gates.abstract import Gate
    enc = Enc()
    g = make_gate(spec)
    if type(g).__name__ == "FusedGate":
        return
    G = enc.gate(g, samples=True)
    batch.begin()
    dG = batch.define(G)
    try:
        d = g.raw
    except Exception:
        return
    dW = batch.define(enc.raw(d))
    batch.check(label + ":raw", f"graw_eqb (raw' {dG}) {dW}", spec)
    batch.check(label + ":keys", "list_eqb String.eqb (gate_raw_keys required_fields "
                + ("true" if type(g).__name__ == "M" else "false") + ") " + clist([cstr(k) for k in d.keys()]), spec)
    images = [("raw", d)]
    try:
        images.append(("json", json.loads(json.dumps(d))))
    except Exception:
        pass
    for via, dd in images:
        try:
            W = enc.raw(dd)
        except Exception:
            continue
        try:
            with warnings.catch_warnings():
                warnings.simplefilter("ignore")
                g2 = Gate.from_dict(dd)
        except Exception as e:
            if type(e).__name__ in ERRS:
                batch.check(label + f":from_dict:{via}",
                            f"let r := from_dict' {W} in is_err {ERRS[type(e).__name__]} r || is_err EUnmodelled r", spec)
            continue
        G2 = enc.gate(g2, samples=True)
        batch.check(label + f":from_dict:{via}",
                    f"let r := from_dict' {W} in res_eqb gate_eqb r (OK {G2}) || is_err EUnmodelled r", spec)
        batch.check(label + f":modelled:{via}", f"negb (is_err EUnmodelled (from_dict' {W}))", spec)


# =====================================================================================
# suite 3: circuit dictionaries  (Circuit.raw [-> json] -> Circuit.from_dict)
# =====================================================================================
def circuit_dict_specs(tier, rng):
    out = []
    M = lambda q, **kw: {"cls": "M", "q": list(q), "kw": kw}
    H = lambda q: {"cls": "H", "q": [q]}
    allc = [n for n in sorted(namespace()) if n not in ABSTRACT and n not in ("M", "FusedGate")]
    # every class once, between two other gates, with a trailing measurement
    for name in allc:
        k = arity(name)
        vals = KINDS["digits"]
        out.append({"n": 5, "adds": [H(1), {"cls": name, "q": placement(k, 0), "p": [pspec(v) for v in vals]},
                                     {"cls": "CNOT", "q": [4, 1]}, M([3, 0], register_name="Out")]})
    out += [s for s in register_specs(tier, rng) if all(len(g["q"]) or g["cls"] != "M" for g in s["adds"])]
    out.append({"n": 4, "adds": [H(0), M([2, 0], register_name="a", basis="cls:X"), M([1], register_name="b", basis="cls:Y")]})
    out.append({"n": 4, "adds": [M([2, 0], register_name="a", basis=["cls:Z", "cls:X"])]})
    out.append({"n": 4, "adds": [{"cls": "RX", "q": [3], "p": [pspec(0.5)], "ctrl": [1, 0]},
                                 {"cls": "SWAP", "q": [3, 0], "ctrl": [2]}, {"cls": "X", "q": [3], "ctrl": [0, 1, 2]}]})
    out.append({"n": 4, "adds": [{"cls": "FusedGate", "q": [2, 0], "inner": [H(2), {"cls": "CNOT", "q": [2, 0]}]}, H(1)]})
    out.append({"n": 3, "dm": True, "wires": ["a", "b", "c"], "adds": [H(0), {"cls": "CZ", "q": [2, 0]}, M([1, 2])]})
    N = 300 if tier == "thorough" else 60
    for _ in range(N):
        n = rng.randint(1, 6)
        adds, names = [], rng.sample(GOOD_NAMES[:-1] + ["Big", "X_1"], 6)
        for _ in range(rng.randint(0, 8)):
            r = rng.random()
            if r < 0.75:
                g = random_gate_spec(rng, n, allc if rng.random() < 0.15 else [c for c in allc if "Channel" not in c and c not in ("Align", "GeneralizedfSim", "CallbackGate")])
                if g:
                    if rng.random() < 0.2 and len(g["q"]) < n:
                        g["ctrl"] = [q for q in range(n) if q not in g["q"]][:rng.randint(1, 3)]
                    adds.append(g)
            else:
                qs = rng.sample(range(n), rng.randint(1, min(3, n)))
                kw = {}
                if rng.random() < 0.7:
                    kw["register_name"] = names.pop()
                if rng.random() < 0.2:
                    kw["collapse"] = True
                elif rng.random() < 0.15:
                    kw["p0"] = 0.125
                adds.append({"cls": "M", "q": qs, "kw": kw})
        out.append({"n": n, "dm": rng.random() < 0.2, "adds": adds})
    return out


def circuit_dict_outcome(spec, via):
    from qibo import Circuit
    try:
        c, _ = make_circuit(spec)
        if spec.get("fuse"):
            c = c.fuse()
        if spec.get("execute"):
            np.random.seed(spec["execute"])
            r = c(nshots=spec.get("nshots", 3))
            if spec.get("sample"):
                r.samples()
    except Exception as e:
        return "unbuildable", f"{type(e).__name__}: {e}", None
    try:
        d = c.raw
        if via == "json":
            d = json.loads(json.dumps(d))
    except Exception as e:
        return "export_raises", type(e).__name__, (c, None, None)
    try:
        with warnings.catch_warnings():
            warnings.simplefilter("ignore")
            c2 = Circuit.from_dict(d)
    except Exception as e:
        return "import_rejects", f"{type(e).__name__}: {str(e)[:140]}", (c, d, e)
    a, b = cview(c), cview(c2)
    why = [k for k in a if a[k] != b[k]]
    if list(c.wire_names) != list(c2.wire_names):
        why.append("wire_names")
    if why:
        det = "; ".join(why)
        if "queue" in why:
            det += f": {len(a['queue'])} gates became {len(b['queue'])}" if len(a["queue"]) != len(b["queue"]) else \
                ": " + "; ".join(f"{x} != {y}" for x, y in zip(a["queue"], b["queue"]) if x != y)[:200]
        return "differs", det, (c, d, c2)
    return "ok", "", (c, d, c2)


def circuit_dict_key(spec, via, cat):
    small = shrink(spec, lambda s: circuit_dict_outcome(s, via), cat)
    sigs = []
    for g in small["adds"]:
        if g["cls"] == "M":
            kw = g.get("kw", {})
            b = kw.get("basis")
            names = {x.replace("cls:", "") for x in (b if isinstance(b, list) else [b])} - {None, "Z"} if b else set()
            sigs.append("M" + (".basis" if names else "") + ("." + ".".join(k + ("dict" if isinstance(kw[k], dict) else "") for k in ("p0", "p1") if k in kw) if any(k in kw for k in ("p0", "p1")) else ""))
        else:
            sigs.append(g["cls"])
    if spec.get("fuse"):
        sigs = ["FusedGate"]
    return f"circuit_{via}:{cat}:" + ("+".join(sorted(set(sigs))) or "empty") + (".executed" if spec.get("execute") else "") + (".fuse" if spec.get("fuse") else ""), small


def suite_circuit_dict(run, rng, T):
    batch = CoqBatch(run, "cdict")
    stats = {}
    specs = circuit_dict_specs(run.tier, rng)
    specs.append({"n": 3, "adds": [{"cls": "H", "q": [0]}, {"cls": "CNOT", "q": [0, 2]}, {"cls": "RX", "q": [1], "p": [pspec(0.3)]}], "fuse": True})
    specs.append({"n": 3, "adds": [{"cls": "H", "q": [0]}, {"cls": "M", "q": [2, 0], "kw": {"register_name": "a"}}], "execute": 7, "sample": True})
    specs.append({"n": 3, "adds": [{"cls": "H", "q": [0]}, {"cls": "M", "q": [0], "kw": {"collapse": True}}, {"cls": "M", "q": [2, 0], "kw": {"register_name": "a"}}], "execute": 7})
    for i, spec in enumerate(specs):
        for via in ("raw", "json"):
            cat, detail, objs = circuit_dict_outcome(spec, via)
            stats[f"{via}:{cat}"] = stats.get(f"{via}:{cat}", 0) + 1
            if cat == "unbuildable":
                continue
            run.case(["circuit_dict", via, spec], nontrivial=bool(spec["adds"]))
            if i % 53 == 0 and via == "raw":
                run.sample({"suite": "circuit_dict", "via": via, "spec": spec, "outcome": cat})
            if cat in ("import_rejects", "differs"):
                key, small = circuit_dict_key(spec, via, cat)
                c2, d2, _ = circuit_dict_outcome(small, via)
                run.find(key, f"Circuit.raw{' (through json)' if via == 'json' else ''} is "
                         + ("rejected by" if cat == "import_rejects" else "read differently by") + f" Circuit.from_dict: {d2 or detail}",
                         {"suite": "circuit_dict", "via": via, "spec": small, "category": cat, "detail": d2 or detail})
        if not spec.get("fuse") and not spec.get("execute"):
            try:
                circuit_dict_model_checks(batch, f"c{i}", spec)
            except Exception as e:
                run.notes.setdefault("model_skipped", []).append(f"c{i}: {type(e).__name__}: {e}"[:200])
    T["circuit_dict_stats"] = stats
    return batch, batch.flush()


def circuit_dict_model_checks(batch, label, spec):
    from qibo import Circuit
    enc = Enc()
    c, pre = make_circuit(spec, enc)
    if any(type(g).__name__ == "FusedGate" for g in c.queue):
        return
    C = enc.circuit(c)
    batch.begin()
    dC = batch.define(C)
    dm = "true" if spec.get("dm") else "false"
    if all(p is not None for p in pre):
        batch.check(label + ":add", f"res_eqb circuit_eqb (build' {cz(spec['n'])} {dm} {clist(pre)}) (OK {dC})", spec)
    d = c.raw
    W = "(" + cz(d["nqubits"]) + ", " + ("true" if d["density_matrix"] else "false") + ", " + clist([enc.raw(g) for g in d["queue"]]) + ")"
    dW = batch.define(W, "(Z * bool * list graw)%type")
    batch.check(label + ":keys", "list_eqb String.eqb circuit_raw_keys " + clist([cstr(k) for k in d.keys()])
                + " && keys_subset circuit_from_dict_reads circuit_raw_keys", spec)
    batch.check(label + ":craw", f"let '(n, dm, q) := craw' {dC} in let '(n2, dm2, q2) := {dW} in (n =? n2) && Bool.eqb dm dm2 && list_eqb graw_eqb q q2", spec)
    try:
        with warnings.catch_warnings():
            warnings.simplefilter("ignore")
            c2 = Circuit.from_dict(d)
    except Exception as e:
        if type(e).__name__ in ERRS:
            batch.check(label + ":cfrom_dict", f"let r := cfrom_dict' {dW} in is_err {ERRS[type(e).__name__]} r || is_err EUnmodelled r", spec)
        return
    C2 = enc.circuit(c2)
    batch.check(label + ":cfrom_dict", f"let r := cfrom_dict' {dW} in res_eqb circuit_eqb r (OK {C2}) || is_err EUnmodelled r", spec)
    batch.check(label + ":modelled", f"negb (is_err EUnmodelled (cfrom_dict' {dW}))", spec)


# =====================================================================================
# suite 4: python call binding (the constructor call made by both importers)
# =====================================================================================
def suite_bind(run, rng, T):
    """cls( *pos, **kw) for many splits of the arguments into positional / keyword, and malformed
    calls (missing, surplus, unknown keyword, duplicate, repeated qubits): model `construct` against
    the real constructor (same gate, or the same exception class)."""
    batch = CoqBatch(run, "bind")
    n_cases = 0
    for name in sorted(namespace()):
        if name in ABSTRACT or name in ("FusedGate",):
            continue
        cls = namespace()[name]
        try:
            _, env = marker_env(name, 1)
        except Unbuildable:
            continue
        fs = formals_of(cls)
        if name == "M":
            env = {"q": (2, 0), "register_name": "a", "collapse": False, "basis": ["X", "Z"], "p0": None, "p1": None}
        calls = []
        pos_all, star = [], False
        for f in fs:
            if f.kind == f.VAR_POSITIONAL:
                pos_all += list(env[f.name])
                star = True
            elif f.kind == f.POSITIONAL_OR_KEYWORD and not star and f.name in env:
                pos_all.append(("F", f.name))
        plain = [f for f in fs if f.kind == f.POSITIONAL_OR_KEYWORD and f.name in env]
        # all prefixes positional, the rest by keyword
        for cut in range(len(plain) + 1):
            if any(f.kind == f.VAR_POSITIONAL for f in fs) and cut < len([f for f in plain if fs.index(f) < [g.kind for g in fs].index(inspect.Parameter.VAR_POSITIONAL)]):
                continue
            pos, kw = [], {}
            for j, f in enumerate(fs):
                if f.kind == f.VAR_POSITIONAL:
                    pos += list(env[f.name])
                elif f.name not in env:
                    continue
                elif f.kind == f.POSITIONAL_OR_KEYWORD and plain.index(f) < cut and not any(g.kind == g.VAR_POSITIONAL for g in fs[:j]):
                    pos.append(env[f.name])
                else:
                    kw[f.name] = env[f.name]
            calls.append((pos, kw))
        base_pos, base_kw = calls[-1] if calls else ([], {})
        # malformed calls
        if base_pos:
            calls.append((base_pos[:-1], dict(base_kw)))                       # one positional missing
        calls.append((list(base_pos) + [0.75], dict(base_kw)))                  # surplus positional
        calls.append((list(base_pos), dict(base_kw, bogus=1)))                  # unknown keyword
        if plain and base_pos and not any(f.kind == f.VAR_POSITIONAL for f in fs):
            calls.append((list(base_pos), dict(base_kw, **{plain[0].name: env[plain[0].name]})))   # given twice
        defaults_dropped = {k: v for k, v in base_kw.items() if next(f for f in fs if f.name == k).default is inspect._empty}
        calls.append((list(base_pos), defaults_dropped))                        # optional keywords omitted
        qf = [f.name for f in fs if f.name in QUBIT_ARGS and f.kind != f.VAR_POSITIONAL]
        if len(qf) >= 2:                                                        # a qubit given twice
            e2 = dict(env)
            e2[qf[1]] = e2[qf[0]]
            calls.append(([e2[f.name] for f in plain], {}))
        for ci, (pos, kw) in enumerate(calls):
            enc = Enc()
            try:
                P = clist([f"({enc.val(v)})" for v in pos])
                K = enc.kw(kw)
            except Exception:
                continue
            try:
                g = cls(*pos, **kw)
                exp = f"res_eqb gate_eqb r (OK {enc.gate(g)})"
                outcome = "ok"
            except Exception as e:
                if type(e).__name__ not in ERRS:
                    continue
                exp = f"is_err {ERRS[type(e).__name__]} r"
                outcome = type(e).__name__
            batch.begin()
            lab = f"b:{name}:{ci}"
            batch.check(lab, f"let r := construct' row_{name} {P} {K} in {exp} || is_err EUnmodelled r", {"cls": name, "call": ci, "outcome": outcome})
            batch.check(lab + ":modelled", f"negb (is_err EUnmodelled (construct' row_{name} {P} {K}))", {"cls": name, "call": ci})
            run.case(["bind", name, ci, outcome])
            n_cases += 1
    T["bind_cases"] = n_cases
    return batch, batch.flush()


# =====================================================================================
# suite 5: QASM programs written by hand / generated: several registers, parameter expressions,
#          custom gate definitions.  import -> export -> import must be stable (or export raises)
# =====================================================================================
def program_texts(rng, tier):
    H2 = 'OPENQASM 2.0;\ninclude "qelib1.inc";\n'
    out = []
    out.append(("multi_qreg", H2 + "qreg a[2];\nqreg b[3];\ncreg c[2];\ncreg d[1];\ncx a[1],b[2];\nu3(0.1,0.2,0.3) b[0];\n"
                "measure b[1] -> c[1];\nmeasure a[0] -> c[0];\nmeasure b[2] -> d[0];"))
    out.append(("expr_simple", H2 + "qreg q[2];\nrx(pi/2) q[0];\nry(-pi/4) q[1];\nrz(2*pi/3) q[0];\nu1(3*pi) q[1];\nrx(-0.5) q[0];\n"
                "rx(1e-3) q[0];\nrx(.5) q[1];\nrx(3) q[0];\nu2(pi, -pi) q[1];\nrx(2**3) q[0];"))
    out.append(("expr_paren", H2 + "qreg q[1];\nrx(2*(pi+1)) q[0];\nrx(-(1+2)) q[0];\nrx(2/(3*4)) q[0];\nrx(1-(2-3)) q[0];"))
    out.append(("expr_fn", H2 + "qreg q[1];\nrx(sin(1)) q[0];"))
    out.append(("custom_plain", H2 + "qreg q[3];\ngate foo a,b { h a; cx a,b; }\nfoo q[2],q[0];\nfoo q[0],q[1];"))
    out.append(("custom_param", H2 + "qreg q[3];\ngate foo(t) a,b { rx(t) a; cx a,b; }\nfoo(0.5) q[2],q[0];\nfoo(pi/2) q[0],q[1];"))
    out.append(("custom_param_expr", H2 + "qreg q[3];\ngate foo(t) a,b { rx(t/2) a; cx a,b; }\nfoo(0.5) q[2],q[0];"))
    out.append(("custom_nested", H2 + "qreg q[3];\ngate foo(t,s) a,b { u2(s,t) a; cx b,a; }\ngate bar(x) a,b,c { foo(x,0.25) c,a; h b; }\n"
                "bar(0.5) q[2],q[0],q[1];\nh q[0];"))
    out.append(("custom_shadow", H2 + "qreg q[2];\ngate rx(t) a { h a; }\nrx(0.1) q[0];"))
    out.append(("custom_iswap", H2 + "qreg q[2];\ngate iswap a,b { h a; }\niswap q[0],q[1];"))
    out.append(("qasm3", "OPENQASM 3.0;\nqubit[3] q;\nbit[2] c;\nh q[0];\nU(0.1,0.2,0.3) q[1];\nc[0] = measure q[1];\nc[1] = measure q[0];"))
    out.append(("measure_middle", H2 + "qreg q[3];\ncreg c[2];\nmeasure q[1] -> c[0];\nh q[0];\nmeasure q[2] -> c[1];"))
    out.append(("partial_register", H2 + "qreg q[3];\ncreg c[3];\nmeasure q[1] -> c[0];\nmeasure q[2] -> c[2];"))
    out.append(("aliases", H2 + "qreg q[3];\nu(0.1,0.2,0.3) q[0];\nid q[0];\nccx q[0],q[1],q[2];\ncu1(0.1) q[0],q[1];\ncu3(0.1,0.2,0.3) q[0],q[1];\n"
                "u1(0.3) q[0];\nsx q[0];\nsxdg q[0];\nms(0.1,0.2,0.3) q[0],q[1];"))
    # every labelled class through its own label with expression arguments, on two quantum registers
    exprs = ["pi/2", "-pi/4", "0.1234567890123456", "3*pi/8", "1e-3"]
    for name in labelled_classes():
        g, _ = build(name, placement(arity(name)), [0.5])
        k, npar = len(g.qubits), (len(g.parameters) if g.parameters and not isinstance(g.parameters[0], np.ndarray) else 0)
        if name == "MS":
            args = ["pi/2", "-pi/4", "pi/8"]
        else:
            args = exprs[:npar]
        regs = ["b[1]", "a[0]", "b[0]", "a[1]"][:k]
        out.append((f"label_{name}", H2 + "qreg a[2];\nqreg b[2];\n" + g.qasm_label + (f"({','.join(args)})" if args else "") + " " + ",".join(regs) + ";"))
    return out


EXPR_NAMES = {"pi": math.pi}


def suite_programs(run, rng, T):
    from qibo import Circuit
    stats, observations = {}, []
    for label, text in program_texts(rng, run.tier):
        try:
            with warnings.catch_warnings():
                warnings.simplefilter("ignore")
                c = Circuit.from_qasm(text)
        except Exception as e:
            stats["import_raises"] = stats.get("import_raises", 0) + 1
            observations.append({"program": label, "import": f"{type(e).__name__}: {str(e)[:100]}"})
            continue
        run.case(["program", label, text])
        # what the importer understood, against python's own reading of each parameter expression
        for g in c.queue:
            for sub in (g.gates if type(g).__name__ == "FusedGate" else [g]):
                for p in sub.parameters:
                    if not isinstance(p, (int, float, np.floating, np.integer)):
                        observations.append({"program": label, "gate": type(sub).__name__, "parameter_read_as": repr(p)[:60]})
        if label == "expr_paren":
            want = [2 * (math.pi + 1), -(1 + 2), 2 / (3 * 4), 1 - (2 - 3)]
            got = [float(g.parameters[0]) for g in c.queue]
            if want != got:
                observations.append({"program": label, "expected_by_python_arithmetic": want, "read_by_from_qasm": got})
        if label.startswith("label_"):
            name = label[6:]
            if type(c.queue[0]).__name__ != name:
                run.find(f"qasm:label_resolves_to:{name}", f"the label of {name} is imported as {type(c.queue[0]).__name__}",
                         {"suite": "program", "label": label, "text": text})
        try:
            t2 = c.to_qasm()
        except Exception as e:
            stats["export_raises"] = stats.get("export_raises", 0) + 1
            continue
        try:
            with warnings.catch_warnings():
                warnings.simplefilter("ignore")
                c2 = Circuit.from_qasm(t2)
        except Exception as e:
            stats["import_rejects"] = stats.get("import_rejects", 0) + 1
            run.find(f"qasm:program:import_rejects:{label}", f"re-export of an imported program is rejected: {type(e).__name__}: {str(e)[:100]}",
                     {"suite": "program", "label": label, "text": text, "exported": t2})
            continue
        why = qasm_equiv(c, c2)
        if why:
            stats["differs"] = stats.get("differs", 0) + 1
            run.find(f"qasm:program:differs:{label}", "re-export of an imported program reads differently: " + "; ".join(why),
                     {"suite": "program", "label": label, "text": text, "exported": t2})
        else:
            stats["ok"] = stats.get("ok", 0) + 1
            if label in ("multi_qreg", "expr_simple"):
                run.sample({"suite": "program", "label": label, "text": text.split("\n")[2:], "re_exported": t2.split("\n")[3:]})
    T["program_stats"] = stats
    T["importer_observations_outside_property_text"] = observations


# =====================================================================================
# suite 6: results  (to_dict/from_dict, dump/load, load_result)
# =====================================================================================
def result_specs(tier, rng):
    out = []
    M = lambda q, **kw: {"cls": "M", "q": list(q), "kw": kw}
    H = lambda q: {"cls": "H", "q": [q]}
    base = [H(0), {"cls": "CNOT", "q": [0, 2]}, {"cls": "RX", "q": [1], "p": [pspec(0.7)]}, {"cls": "U3", "q": [3], "p": [pspec(0.3), pspec(1.1), pspec(-0.4)]}]
    layouts = [[M([2, 0], register_name="a"), M([1], register_name="b")],
               [M([3, 1, 0], register_name="Big")],
               [M([1]), M([3, 0]), M([2])],
               [M([0, 1, 2, 3])],
               [M([3], register_name="z"), M([0], register_name="a")]]
    for dm in (False, True):
        out.append({"kind": "state", "circuit": {"n": 4, "dm": dm, "adds": base}})
    out.append({"kind": "state", "circuit": {"n": 1, "adds": []}})
    for li, lay in enumerate(layouts):
        for after in ("none", "samples", "frequencies", "both"):
            out.append({"kind": "circuit_result", "after": after, "nshots": 17 + li,
                        "circuit": {"n": 4, "dm": li % 2 == 1, "adds": base + lay}})
    for noise in ({"p0": 0.125}, {"p0": [0.125, 0.25], "p1": 0.375}, {"p0": {"2": 0.125, "0": 0.25}}):
        for after in ("none", "samples"):
            out.append({"kind": "circuit_result", "after": after, "nshots": 12,
                        "circuit": {"n": 4, "adds": base + [M([2, 0], register_name="a", **noise)]}})
    # results of repeated execution (collapse / noise channels on a state vector): outcomes only
    out.append({"kind": "outcomes_exec", "nshots": 9, "circuit": {"n": 3, "adds": [H(0), M([0], collapse=True), H(0), M([2, 0], register_name="a"), M([1], register_name="b")]}})
    out.append({"kind": "outcomes_exec", "nshots": 9, "circuit": {"n": 3, "adds": [H(0), {"cls": "PauliNoiseChannel", "q": [0]}, M([2, 0], register_name="a"), M([1], register_name="b")]}})
    # MeasurementOutcomes built directly
    for li, lay in enumerate(layouts[:3]):
        out.append({"kind": "outcomes_samples", "nshots": 6, "gates": lay, "seed": li})
        out.append({"kind": "outcomes_probs", "nshots": 11, "gates": lay, "after": "none"})
        out.append({"kind": "outcomes_probs", "nshots": 11, "gates": lay, "after": "frequencies"})
        out.append({"kind": "outcomes_probs", "nshots": 11, "gates": lay, "after": "samples"})
    return out


def make_result(spec):
    import qibo
    from qibo.result import MeasurementOutcomes
    qibo.set_backend("numpy")
    be = qibo.backends.construct_backend("numpy")
    np.random.seed(1234)
    kind = spec["kind"]
    if kind in ("state", "circuit_result", "outcomes_exec"):
        c, _ = make_circuit(spec["circuit"])
        r = c(nshots=spec.get("nshots", 10))
    else:
        ms = [make_gate(g) for g in spec["gates"]]
        nq = sum(len(m.target_qubits) for m in ms)
        if kind == "outcomes_samples":
            rs = np.random.RandomState(spec["seed"])
            r = MeasurementOutcomes(ms, backend=be, samples=rs.randint(0, 2, size=(spec["nshots"], nq)), nshots=spec["nshots"])
        else:
            p = np.arange(1, 2 ** nq + 1, dtype=float)
            r = MeasurementOutcomes(ms, backend=be, probabilities=p / p.sum(), nshots=spec["nshots"])
    after = spec.get("after", "none")
    if after in ("frequencies", "both"):
        r.frequencies()
    if after in ("samples", "both"):
        r.samples()
    return r


def arr_view(a):
    if a is None:
        return None
    a = np.asarray(a)
    return (str(a.dtype), a.shape, hashlib.sha1(np.ascontiguousarray(a).tobytes()).hexdigest())


def result_view(r):
    """everything the property lists, read without triggering any new sampling"""
    from qibo.result import QuantumState, MeasurementOutcomes
    v = {"type": type(r).__name__}
    if isinstance(r, QuantumState):
        v["state"] = arr_view(r.state())
    if isinstance(r, MeasurementOutcomes):
        v["registers"] = [(m.register_name, tuple(m.target_qubits)) for m in r.measurements]
        v["noise"] = [bitflip_view(m) for m in r.measurements]
        v["nshots"] = r.nshots
        v["stored_samples"] = arr_view(r._samples)
        v["stored_frequencies"] = None if r._frequencies is None else tuple(sorted((int(k), int(f)) for k, f in r._frequencies.items()))
        v["stored_probabilities"] = arr_view(r._probs)
        v["repeated"] = None if r._repeated_execution_frequencies is None else tuple(sorted(r._repeated_execution_frequencies.items()))
    return v


def result_compare(r, r2):
    """r: original (as it was when exported), r2: re-imported"""
    from qibo.result import QuantumState, MeasurementOutcomes
    a, b = result_view(r), result_view(r2)
    why = []
    for k in ("type", "state", "registers", "noise", "nshots"):
        if a.get(k) != b.get(k):
            why.append(f"{k}: {a.get(k)} != {b.get(k)}")
    if isinstance(r, MeasurementOutcomes) and not why:
        if a["stored_samples"] is not None:
            if arr_view(np.asarray(r2.samples()))[1:] != a["stored_samples"][1:] and not np.array_equal(np.asarray(r._samples), np.asarray(r2.samples())):
                why.append("samples differ")
            elif not np.array_equal(np.asarray(r._samples), np.asarray(r2.samples())):
                why.append("samples differ")
            if dict(r.frequencies()) != dict(r2.frequencies()):
                why.append("frequencies differ")
            s1, s2 = r.samples(registers=True), r2.samples(registers=True)
            if list(s1) != list(s2) or any(not np.array_equal(np.asarray(s1[k]), np.asarray(s2[k])) for k in s1):
                why.append("per-register samples differ")
        elif a["stored_frequencies"] is not None:
            f2 = tuple(sorted((int(k), int(f)) for k, f in r2.frequencies(binary=False).items()))
            if f2 != a["stored_frequencies"]:
                why.append(f"frequencies that the original had computed {a['stored_frequencies']} are re-sampled {f2}")
        elif a["stored_probabilities"] is not None:
            if isinstance(r, QuantumState):
                pass    # a CircuitResult recomputes them from the state, which was compared above
            elif b["stored_probabilities"] != a["stored_probabilities"]:
                why.append("probabilities differ")
    return why


def result_outcome(spec, via, tmpdir):
    from qibo import result as R
    try:
        r = make_result(spec)
    except Exception as e:
        return "unbuildable", f"{type(e).__name__}: {e}", None
    fn = os.path.join(tmpdir, "r.npy")
    try:
        if via == "dict":
            payload = r.to_dict()
        else:
            r.dump(fn)
    except Exception as e:
        return "export_raises", type(e).__name__, (r, None)
    va = result_view(r)
    try:
        with warnings.catch_warnings():
            warnings.simplefilter("ignore")
            if via == "dict":
                payload = dict(payload)
                payload.pop("dtype", None)
                r2 = type(r).from_dict(payload)
            elif via == "load":
                r2 = type(r).load(fn)
            else:
                r2 = R.load_result(fn)
    except Exception as e:
        return "import_rejects", f"{type(e).__name__}: {str(e)[:140]}", (r, e)
    vb = result_view(r2)
    why = result_compare(r, r2)
    if why:
        return "differs", "; ".join(why)[:400], (r, r2, va, vb)
    return "ok", "", (r, r2, va, vb)


def result_key(spec, cat, detail):
    gates = spec.get("gates") or spec["circuit"]["adds"]
    tags = []
    for g in gates:
        if g["cls"] == "M":
            for k in ("p0", "p1"):
                if isinstance(g.get("kw", {}).get(k), dict):
                    tags.append(k + "dict")
    if cat == "differs" and "re-sampled" in detail:
        tags.append("frequencies_only")
    if cat == "differs" and "registers:" in detail and "(None," in detail:
        tags.append("default_register_names")
    return f"result:{cat}:{spec['kind']}" + ("." + ".".join(sorted(set(tags))) if tags else "")


def suite_results(run, rng, T):
    batch = CoqBatch(run, "results")
    stats = {}
    tmp = tempfile.mkdtemp(prefix="c13_")
    try:
        for i, spec in enumerate(result_specs(run.tier, rng)):
            for via in ("load_result", "load", "dict"):
                cat, detail, objs = result_outcome(spec, via, tmp)
                stats[f"{via}:{cat}"] = stats.get(f"{via}:{cat}", 0) + 1
                if cat == "unbuildable":
                    run.notes.setdefault("result_unbuildable", []).append(detail[:150])
                    continue
                run.case(["result", via, spec])
                if via == "load_result" and i % 9 == 0:
                    run.sample({"suite": "result", "via": via, "spec": spec, "outcome": cat, "view": json.loads(json.dumps(objs[2] if len(objs) > 2 else None, default=str))})
                if cat in ("import_rejects", "differs"):
                    run.find(result_key(spec, cat, detail), f"result {'dump()' if via != 'dict' else 'to_dict()'} is "
                             + ("rejected by" if cat == "import_rejects" else "read differently by") + f" {via}: {detail}",
                             {"suite": "result", "via": via, "spec": spec, "category": cat, "detail": detail})
                if via == "dict" and cat in ("ok", "differs") and spec["kind"] != "state":
                    r, r2, a, b = objs
                    o = lambda x: "None" if x is None else '(Some "x")'
                    batch.begin()
                    orig = f'(mkMO string string string [] {o(a["stored_probabilities"])} {o(a["stored_samples"])} {a["nshots"]} {o(a["stored_frequencies"])})'
                    if a["type"] == "MeasurementOutcomes":
                        model = f"(mo_from_dict _ _ _ (mo_to_dict _ _ _ {orig}))"
                        term = (f"let m := {model} in option_eqb String.eqb (mo_probs _ _ _ m) {o(b['stored_probabilities'])} && "
                                f"option_eqb String.eqb (mo_samples _ _ _ m) {o(b['stored_samples'])} && (mo_nshots _ _ _ m =? {b['nshots']}) && "
                                f"option_eqb String.eqb (mo_freq _ _ _ m) {o(b['stored_frequencies'])}")
                    else:
                        model = f'(cr_from_dict string string string string (fun _ _ => "x") ("s", mo_to_dict _ _ _ {orig}))'
                        term = (f"match {model} with Some c => let m := cr_mo _ _ _ _ c in option_eqb String.eqb (mo_probs _ _ _ m) {o(b['stored_probabilities'])} && "
                                f"option_eqb String.eqb (mo_samples _ _ _ m) {o(b['stored_samples'])} && (mo_nshots _ _ _ m =? {b['nshots']}) && "
                                f"option_eqb String.eqb (mo_freq _ _ _ m) {o(b['stored_frequencies'])} | None => false end")
                    batch.check(f"r{i}", term, spec)
    finally:
        shutil.rmtree(tmp, ignore_errors=True)
    T["result_stats"] = stats
    return batch, batch.flush()


# =====================================================================================
# table theorems proved on every run over the generated tables (finite, exhaustive)
# =====================================================================================
def fixed_arity_vars(r):
    """for a modelled row without *args: ([(coq var, type)], positional argument terms) in constructor order"""
    vs, pos = [], []
    qf = {f for k, f in r["targets"] + r["controls"] if k == "one"}
    lf = {f for k, f in r["targets"] + r["controls"] if k == "list"}
    for n, kind, d in r["formals"]:
        if kind != "FPos":
            return None
        v = "v_" + n
        if n in qf:
            vs.append((v, "Z"))
            pos.append(f"VA (AInt {v})")
        elif n in lf:
            return None
        else:
            vs.append((v, "val"))
            pos.append(v)
    return vs, pos


def table_theorems(run, tab, sweep_findings):
    """name_table_ok (+ _partial/_refuted) and raw_roundtrip_<Class> (+ _refuted) over Gen.v"""
    rows = tab["rows"]
    # ---------- triage by evaluation: which rows satisfy the boolean table checks
    items = []
    for n, r in rows.items():
        if r["label"] is not None:
            items.append((f"label:{n}", f"label_row_ok rows specials row_{n}"))
    tri, _ = run.coq_bools("tables_triage.v", HEADER + "From QV Require Import C13.Proofs C13.TextProofs C13.Props C13.Trainable.\n", items)
    if tri is None:
        run.oblige("tables_triage", False, "generated")
        run.find("tables:triage", "the table checks do not compile against the generated tables", {"log": run.notes.get("coq_errors")}, concrete=False)
        return
    bad_labels = sorted(k.split(":")[1] for k, v in tri.items() if not v)
    good_labels = sorted(k.split(":")[1] for k, v in tri.items() if v)
    thms = []
    nm = lambda xs: clist([cstr(x) for x in xs])
    # per labelled class: its label resolves to the class and the constructor takes (controls, targets,
    # parameters) in the order the writer prints them -- universally quantified facts about the model
    for n in good_labels:
        thms.append((f"label_class_{n}", f"class_fact rows bases specials row_{n}", "class_fact_tac."))
    script = ["intros r Hin H."]
    for n in sorted(rows):
        script.append("destruct Hin as [<-|Hin]. { " + (f"exact label_class_{n}." if n in good_labels else "vm_compute in H; discriminate H.") + " }")
    script.append("destruct Hin.")
    thms.append(("required_has_M_keys", "forallb (fun k => mem_str k required_kw) M_keys = true", "vm_compute; reflexivity."))
    thms.append(("tables_M_ok", "M_tables_ok rows bases rotation",
                 "split; [exists row_M; repeat split; reflexivity | split; [reflexivity | intro q; reflexivity]]."))
    thms.append(("all_class_facts", "forall r, In r rows -> label_row_ok rows specials r = true -> class_fact rows bases specials r",
                 "\n  ".join(script)))
    thms.append(("qasm_roundtrip_generated_tables",
                 "forall c mt s, qasm_exportable rows specials c mt -> write' c = OK s -> "
                 "exists c' gs', read' s = OK c' /\\ cn c' = cn c /\\ cqueue c' = (gs' ++ map MG mt)%list "
                 "/\\ cmeas c' = seq (length gs') (length mt) "
                 "/\\ Forall2 gate_equiv (filter nonM (cqueue c)) gs' /\\ Forall (fun g => is_M g = false) gs' "
                 "/\\ measurement_tuples c' = measurement_tuples c",
                 "exact (qasm_roundtrip_checked rows bases specials rotation tables_M_ok all_class_facts)."))
    lab_script = ("intros r l Hin Hl. repeat (destruct Hin as [<-|Hin]; [try discriminate Hl; injection Hl as <-; reflexivity|]). destruct Hin.")
    thms.append(("text_keywords_reserved", "forallb (fun k => mem_str k reserved) grammar_keywords = true", "vm_compute; reflexivity."))
    thms.append(("text_q_is_a_name", "name_ok reserved \"q\" = true", "vm_compute; reflexivity."))
    thms.append(("text_labels_are_names", "forall r l, In r rows -> rlabel r = Some l -> name_ok reserved l = true", lab_script))
    thms.append(("qasm_text_roundtrip_generated_tables",
                 "forall c mt toks, qasm_exportable rows specials c mt -> text_exportable reserved c -> print_qasm' c = OK toks -> "
                 "exists s c' gs', parse_qasm' toks = OK s /\\ read' s = OK c' /\\ cn c' = cn c /\\ cqueue c' = (gs' ++ map MG mt)%list "
                 "/\\ cmeas c' = seq (length gs') (length mt) "
                 "/\\ Forall2 gate_equiv (filter nonM (cqueue c)) gs' /\\ Forall (fun g => is_M g = false) gs' "
                 "/\\ measurement_tuples c' = measurement_tuples c",
                 "exact (qasm_text_roundtrip_partial reserved rows bases specials rotation text_keywords_reserved text_q_is_a_name "
                 "text_labels_are_names tables_M_ok all_class_facts)."))
    thms.append(("dict_keys_read_are_written_generated",
                 "forall is_m, keys_subset (from_dict_reads is_m) (gate_raw_keys required_fields is_m) = true",
                 "apply dict_keys_read_are_written; vm_compute; reflexivity."))
    thms.append(("name_table_ok_partial",
                 f"forallb (fun r => match rlabel r with None => true | Some _ => label_row_ok rows specials r || mem_str (rname r) {nm(bad_labels)} end) rows = true",
                 "vm_compute; reflexivity."))
    if bad_labels:
        w = bad_labels[0]
        thms.append(("name_table_ok_refuted",
                     "exists r, In r rows /\\ (exists l, rlabel r = Some l) /\\ label_row_ok rows specials r = false",
                     f"exists row_{w}; split; [vm_compute; tauto | split; [eexists; reflexivity | vm_compute; reflexivity]]."))
        run.refuted.append("name_table_ok")
        run.not_proved.append("name_table_ok (full): false for " + ", ".join(bad_labels) + " -- see name_table_ok_refuted; name_table_ok_partial excludes exactly these classes")
        for w in bad_labels:
            if not any(k in (f"qasm:import_rejects:{w}", f"qasm:differs:{w}") for k in sweep_findings):
                run.find(f"name_table:{w}", f"label of {w} does not pass the table check but the real round trip of {w} did not fail", {"class": w}, concrete=False)
    else:
        thms.append(("name_table_ok", "forallb (fun r => match rlabel r with None => true | Some _ => label_row_ok rows specials r end) rows = true", "vm_compute; reflexivity."))
    # ---------- raw round trip per class
    enc = Enc()
    tri_items, insts = [], {}
    for n, r in rows.items():
        if n in ABSTRACT or n in ("M", "FusedGate"):
            continue
        try:
            g, _ = build(n, placement(arity(n)), [0.4375, 0.21875, 0.09375, 3])
            G = enc.gate(g)
            insts[n] = G
            tri_items.append((n, f"match from_dict' (raw' {G}) with OK g' => gate_view_eqb g' {G} | Err _ => false end"))
        except Exception:
            continue
    tri2, _ = run.coq_bools("raw_triage.v", HEADER, tri_items)
    if tri2 is None:
        run.oblige("raw_triage", False, "generated")
        run.find("tables:raw_triage", "raw triage does not compile", {}, concrete=False)
        tri2 = {}
    raw_bad = []
    for n, ok in sorted(tri2.items()):
        r = rows[n]
        fv = fixed_arity_vars(r) if r["modelled"] else None
        if ok and fv:
            vs, pos = fv
            binders = " ".join(f"({v} : {t})" for v, t in vs)
            tpos = [i for i, (fn, _, _) in enumerate(r["formals"]) if fn == "trainable"]
            # the exporter compares the (arbitrary) value passed for `trainable` with the class default: case analysis on it
            script = ("intros; destruct v_trainable as [a|l]; [destruct a; try (match goal with b : bool |- _ => destruct b end)|]; raw_rt_tac."
                      if tpos else "raw_rt_tac.")
            thms.append((f"raw_roundtrip_{n}",
                         f"forall {binders} (g : gate), construct' row_{n} {clist(pos)} [] = OK g -> raw_rt_ok (from_dict' (raw' g)) g",
                         script))
            if tpos and n != "Align":
                # the same with trainable=False passed to the constructor: the import is again a non-trainable gate
                vs2 = [x for i, x in enumerate(vs) if i != tpos[0]]
                pos2 = [("VA (ABool false)" if i == tpos[0] else x) for i, x in enumerate(pos)]
                b2 = " ".join(f"({v} : {t})" for v, t in vs2)
                thms.append((f"raw_roundtrip_{n}_nontrainable",
                             f"forall {b2} (g : gate), construct' row_{n} {clist(pos2)} [] = OK g -> "
                             f"raw_rt_nt_ok (from_dict' (raw' g)) g",
                             "raw_rt_nt_tac."))
        elif ok:
            # variadic constructors / list-valued qubit arguments: proved per arity, labelled as bounded
            thms.append((f"raw_roundtrip_{n}_instance", f"match from_dict' (raw' {insts[n]}) with OK g' => gate_view_eqb g' {insts[n]} | Err _ => false end = true",
                         "vm_compute; reflexivity."))
            run.not_proved.append(f"raw_roundtrip_{n}: only checked on instances (constructor takes *args or qubit lists); the sweep covers arities 1..6")
        else:
            raw_bad.append(n)
            thms.append((f"raw_roundtrip_{n}_refuted",
                         f"match from_dict' (raw' {insts[n]}) with OK g' => gate_view_eqb g' {insts[n]} | Err _ => false end = false",
                         "vm_compute; reflexivity."))
            run.refuted.append(f"raw_roundtrip_{n}")
            if not any(k.startswith("raw:") and k.split(":")[2].split(".")[0] == n for k in sweep_findings):
                run.find(f"raw_table:{n}", f"model says Gate.raw of {n} does not round trip but the real run did not fail", {"class": n}, concrete=False)
    T_ok, out = run.coq_theorems("table_theorems.v", HEADER + "From QV Require Import C13.Proofs C13.TextProofs C13.Props C13.Trainable.\n", thms, timeout=900)
    if T_ok:
        for t in thms:
            run.oblige(t[0], True, "generated-table-theorem")
    else:
        # find which ones fail: each theorem alone, preceded by the (passing) theorems it uses
        by_name = {t[0]: t for t in thms}
        deps = {"all_class_facts": [f"label_class_{n}" for n in good_labels],
                "qasm_roundtrip_generated_tables": [f"label_class_{n}" for n in good_labels] + ["tables_M_ok", "all_class_facts"],
                "qasm_text_roundtrip_generated_tables": [f"label_class_{n}" for n in good_labels] + ["tables_M_ok", "all_class_facts", "text_keywords_reserved", "text_q_is_a_name", "text_labels_are_names"]}
        status = {}
        for t in thms:
            need = deps.get(t[0], [])
            if any(not status.get(d, False) for d in need):
                status[t[0]] = False
                run.oblige(t[0], False, "generated-table-theorem")
                continue
            ok1, _ = run.coq_theorems(f"thm_{t[0]}.v", HEADER + "From QV Require Import C13.Proofs C13.TextProofs C13.Props C13.Trainable.\n", [by_name[d] for d in need] + [t], timeout=300)
            status[t[0]] = ok1
            run.oblige(t[0], ok1, "generated-table-theorem")
            if not ok1:
                run.find(f"theorem:{t[0]}", f"generated theorem {t[0]} is no longer provable: {t[1][:300]}", {"statement": t[1]}, concrete=False)
    run.notes["labels_failing_table_check"] = bad_labels
    run.notes["classes_failing_raw_roundtrip_in_model"] = raw_bad


# =====================================================================================
# main / replay
# =====================================================================================
RULE = ("cases are JSON specs executed against the real qibo: (qasm) one circuit per gate class x 8 parameter kinds "
        "(python ints, -0.0, 1e-300/denormals, 1e300/max float, 16-digit floats, pi multiples, numpy floats, mixed) on "
        "non-ascending qubits, 40+ register layouts/names, seeded random circuits; (gate_dict) every class x kinds x "
        "{plain, 1-3 controls, dagger, updated parameters, non-trainable} through raw and through json text, M in all keyword "
        "forms; (circuit_dict) every class inside a circuit + layouts + random circuits; (bind) constructor calls with every "
        "positional/keyword split and malformed calls; (program) QASM programs with several registers, expressions and custom "
        "gates; (custom_gate) generated programs with user-defined gates -- nested definitions, forwarded parameters, literal "
        "arguments 0, 0.0, -0.0, pi, -pi/2, pi-pi, ... -- whose import is compared with the expansion known to the generator; "
        "(hist_circuit / hist_gate) one object driven through a history generated from a grammar {execute, sample, set_parameters, gate.parameters=, "
        "set_parameters through copy / fuse / invert / deep copy aliases, add, wire_names, intermediate export}: every export (raw, json, qasm) against "
        "the export of a from-scratch object in the same state, intermediate exports are snapshots, exports do not change the source, imports do not "
        "change the dictionary, two imports are independent; (opt) options crossed (1-3 controls x trainable x updated x density_matrix x wire_names x "
        "measurement options x same gate object twice) compared directly incl. trainable/get_parameters; (hist_result) one circuit executed several times "
        "with accessor calls and parameter updates in between, one result dumped: loaded result against the dumped one and against the load of a single "
        "from-scratch execution; (text) re-formatted programs and parameter expressions; (result) state / outcomes / both x what was computed before the dump x 3 import paths. A case counts as "
        "non-trivial when the circuit has at least one gate; distinct = distinct spec (sha1 of the canonical JSON).")


def run_all(run):
    rng = random.Random(run.seed)
    T = {}
    run.trusted += ["Coq 8.16.1 kernel, vm_compute", "harness/c13.py introspection that regenerates the class table, the label table, "
                    "REQUIRED_FIELDS_INIT_KWARGS and the _qibo_gate_name cases from /repo on every run",
                    "QASM text: modelled as the token stream of a generic lexer (harness lex_qasm; identifiers, integer / float / string literals, punctuation); the model printer must emit exactly the tokens of the real to_qasm() text and the model parser must accept/reject like openqasm3 on these texts (compared on every export of the run). Characters inside a token (float repr digits, decimal integers) and json / np.save / np.load are NOT modelled (exercised by the real round trips only)",
                    "reserved words: keyword literals read from openqasm3's ANTLR lexer on every run",
                    "the Python encoder of real objects into Coq terms (Enc) used for the model-vs-implementation comparisons"]
    run.assumptions += ["a float is identified with its binary64 bit pattern; printing and re-parsing a float is the identity (checked on every exported parameter of the sweep, not proved)",
                        "constructor value constraints (MS theta range, bit-flip dictionaries) are outside the model",
                        "circuits are well formed: all qubits < nqubits (Circuit.add does not check control qubits)"]
    tab = gen_tables(run)
    run.oblige("Gen.v (tables regenerated from /repo) type-checks against C13/Model.v", tab["ok"], "generated")
    if not tab["ok"]:
        run.find("tables:gen", "generated tables do not type-check: " + tab["log"][-400:], {}, concrete=False)
        return T
    same_ns = set(namespace()) <= from_dict_lookup_names()
    run.oblige("every class of the table is resolvable by Gate.from_dict's own lookup (gates, measurements modules)", same_ns, "generated")
    if not same_ns:
        run.find("tables:namespace", "Gate.from_dict looks classes up in a different namespace than the table", {"missing": sorted(set(namespace()) - from_dict_lookup_names())}, concrete=False)
    unm = sorted(n for n, r in tab["rows"].items() if not r["modelled"] and n not in ABSTRACT)
    T["classes"] = len(tab["rows"])
    T["classes_outside_constructor_model"] = {n: tab["rows"][n]["why"] for n in unm}
    suites = [("qasm", suite_qasm), ("gate_dict", suite_gate_dict), ("circuit_dict", suite_circuit_dict),
              ("bind", suite_bind), ("results", suite_results)]
    suite_programs(run, rng, T)
    suite_custom_gates(run, random.Random(run.seed * 7919 + 13), T)
    from harness import c13_hist
    c13_hist.run_streams(run, T)
    for name, fn in suites:
        batch, res = fn(run, rng, T)
        bad = [k for k, v in res.items() if v is False and "modelled" not in k]
        broken = [k for k, v in res.items() if v is None]
        unmod = [k for k, v in res.items() if v is False and "modelled" in k]
        T[f"{name}_model_comparisons"] = {"total": len(res), "agree": sum(1 for v in res.values() if v is True) - 0,
                                          "model_declines": len(unmod), "disagree": len(bad), "not_evaluated": len(broken)}
        run.oblige(f"model == implementation on all {name} cases", not bad and not broken, "correspondence")
        for k in bad[:5]:
            run.find(f"model_mismatch:{name}:{k}", f"Coq model and implementation disagree on {k}", {"suite": name, "label": k, "spec": batch.meta.get(k)}, concrete=False)
        if name == "results" and (bad or broken):
            # the field-level model of to_dict/from_dict broke: search the history space (execute / sample /
            # set_parameters / execute / dump / load on ONE circuit object) for a concrete failing input
            n0 = len(run.findings)
            c13_hist.suite_hist_result(run, random.Random(run.seed * 31 + 5), T, extra=150 if run.tier == "quick" else 400)
            run.notes["result_history_search_after_model_mismatch"] = {"histories": 150 if run.tier == "quick" else 400, "concrete_findings": len(run.findings) - n0}
        if broken:
            run.find(f"model_eval:{name}", f"{len(broken)} model comparisons could not be evaluated", {"suite": name}, concrete=False)
    table_theorems(run, tab, {f.key for f in run.findings})
    # static theorems
    ok, ass = vcore.static_assumptions("C13/Props")
    names = vcore.props_theorems("C13/Props.v")
    for t in names:
        run.oblige(t, ok, "static-theorem")
        if "_refuted" in t:
            run.refuted.append(t.split("_refuted")[0] + " (full statement; witness: " + t + ")")
    if not ok:
        run.find("static:C13/Props", "Print Assumptions over C13/Props.vo failed (static development does not build)", {}, concrete=False)
    else:
        for t, a in ass.items():
            if not a.startswith("Closed"):
                run.axioms.add(a[:120])
        T["static_print_assumptions"] = {t: a[:80] for t, a in ass.items()}
    # history models (C13/History.v): results of a circuit object executed several times, circuits over a heap of gate objects
    for th in ("C13/PropsHistory", "C13/PropsTrainable"):
        okh, assh = vcore.static_assumptions(th)
        for t in vcore.props_theorems(th + ".v"):
            run.oblige(t, okh, "static-theorem")
            if "_refuted" in t and not t.startswith("historical_"):      # historical_*: statements about the pre-repair exporter
                run.refuted.append(t.split("_refuted")[0] + " (full statement; witness: " + t + ")")
        if not okh:
            run.find("static:" + th, f"Print Assumptions over {th}.vo failed (static development does not build)", {}, concrete=False)
        else:
            for t, a in assh.items():
                if not a.startswith("Closed"):
                    run.axioms.add(a[:120])
            T["static_print_assumptions_" + th.split("Props")[1].lower()] = {t: a[:80] for t, a in assh.items()}
    if run.tier == "thorough":
        rc, out = vcore.sh("timeout 1200 coqchk -silent -o -Q theories QV QV.C13.Props", cwd=vcore.COQ, timeout=1300)
        run.checker_cmds.append("coqchk -silent -o -Q theories QV QV.C13.Props")
        good = rc == 0 and "Axioms: <none>" in out
        run.oblige("coqchk QV.C13.Props (kernel re-check, no axioms)", good, "coqchk")
        if not good:
            run.find("static:coqchk", "coqchk failed or reported axioms: " + out[-400:], {}, concrete=False)
    T["differences_outside_the_property_text_not_counted"] = [
        "through QASM: density_matrix flag, wire_names, bit-flip probabilities (p0/p1) of M, M basis (its rotations are exported as gates), python int parameters become floats, order of control qubits (sorted), position of non-collapsing measurements (moved to the end)",
        "through dictionaries: Unitary name/check_unitary (trainable=False -> True is now COUNTED: finding trainable_dropped:*)",
        "importer behaviour on hand-written programs (parenthesised expressions, expressions of formal parameters inside `gate` bodies, partially measured registers): see importer_observations_outside_property_text",
        "ill-formed inputs: control qubits >= nqubits are accepted by Circuit.add and exported; non-finite parameters (inf/nan) are exported as `rx(inf)` and read back as the string 'inf'"]
    run.notes.update(T)
    for k in ("model_skipped",):
        if k in run.notes:
            run.notes[k] = {"count": len(run.notes[k]), "first": run.notes[k][:6],
                            "why": "cases whose variant cannot be built (e.g. controlled_by on a channel): no model comparison, the real round trip still ran where possible"}
    return T


def main(run):
    run_all(run)
    run.not_proved += ["qasm_roundtrip (full): refuted by collapsing measurements (qasm_roundtrip_refuted) and by the iSWAP label; proved: qasm_roundtrip_partial",
                       "circuit_dict_roundtrip (full): refuted by measurement bases other than Z (circuit_dict_roundtrip_refuted); proved: circuit_dict_roundtrip_partial (per-gate hypothesis discharged by raw_roundtrip_<C> / M_raw_dict_roundtrip)",
                       "result_roundtrip (full): refuted when only frequencies were computed (result_roundtrip_refuted)",
                       "history streams: dump_load_function_of_result / export_current_state_only are proved of the field-level models of C13/History.v; input non-mutation, snapshot stability of exported dictionaries and object independence of two imports are properties of Python object identity with no counterpart in a functional model: exercised by the real runs only (hist_circuit, hist_gate, hist_result, result_payload)",
                       "below the token level (digits of float repr / integers; the openqasm3 lexer itself), json and numpy files, custom gate definitions and parameter expressions: exercised by the real round trips, not proved; the token-level text round trip is proved (qasm_text_roundtrip_partial, refuted for non-identifier register names)"]
    return run.finish(level="proof", rule=RULE)


def replay(run, data):
    rp = data.get("replay", {})
    suite = rp.get("suite")
    key = data["key"]
    again = None
    if suite == "qasm":
        cat, detail, _ = qasm_outcome(rp["spec"])
        again = cat in ("import_rejects", "differs")
    elif suite == "gate_dict":
        cat, detail, _ = dict_outcome(rp["spec"], rp["via"])
        again = cat in ("import_rejects", "differs")
    elif suite == "circuit_dict":
        cat, detail, _ = circuit_dict_outcome(rp["spec"], rp["via"])
        again = cat in ("import_rejects", "differs")
    elif suite == "result":
        tmp = tempfile.mkdtemp(prefix="c13_")
        try:
            cat, detail, _ = result_outcome(rp["spec"], rp["via"], tmp)
        finally:
            shutil.rmtree(tmp, ignore_errors=True)
        again = cat in ("import_rejects", "differs")
    elif suite == "custom_gate":
        cat, detail, _ = cg_outcome(rp["program"])
        again = cat != "ok"
    elif suite in ("hist_circuit", "hist_gate", "hist_result", "opt", "result_payload", "text", "text_expr"):
        from harness import c13_hist
        again, detail = c13_hist.replay_case(rp)
        if again is None:
            again = False
    elif suite == "program":
        from qibo import Circuit
        try:
            c = Circuit.from_qasm(rp["text"])
            c2 = Circuit.from_qasm(c.to_qasm())
            detail = "; ".join(qasm_equiv(c, c2))
            again = bool(detail)
        except Exception as e:
            detail, again = f"{type(e).__name__}: {e}", True
    else:
        run_all(run)
        return run.finish(level="proof", rule="full re-run (the recorded item has no single input)")
    run.case(["replay", rp])
    run.sample({"replayed": rp, "reproduces": again, "detail": detail})
    run.oblige("replayed case executed", True, "replay")
    if again:
        run.find(key, data.get("what", "") + " [replayed: " + str(detail)[:200] + "]", rp)
    return run.finish(level="proof", rule="replay of one recorded case against the real implementation")


# =====================================================================================
# suite 7: user-defined QASM gates (`gate name(params) qubits { ... }`): the imported circuit against the
#          expansion of the definitions that the generator knows (independent of the Coq model)
# =====================================================================================
CG_LITERALS = [("0", 0), ("0.0", 0.0), ("-0.0", -0.0), ("pi", PI), ("-pi/2", -PI / 2), ("pi-pi", 0.0), ("0.9", 0.9),
               ("3", 3), ("1e-300", 1e-300), ("2*pi/3", 2 * PI / 3), ("0.1234567890123456", 0.1234567890123456), ("pi/4", PI / 4)]
CG_PARAM_NAMES = ["a", "b", "theta", "lam", "x0", "t", "beta", "w"]     # never a name that eval() could resolve, never containing "pi"
CG_QUBIT_NAMES = ["q0", "q1", "q2", "r", "s"]
# Adversarial formal-parameter / qubit-argument names.  By the documented grammar every identifier that is not a
# reserved word and not exactly `pi` is a legal formal name, so the reader must treat all of these as plain
# placeholders: names equal to / containing constants (tau, euler, e, pi2, xpi, phi, inf, nan, gamma) and names that
# exist in the python scope in which QASMParser._get_gate calls eval() (np, arg, max).  Nothing here is decided by
# probing the implementation: a name the reader mishandles is a finding (qasm:custom_gate:*:formal_name=<name>).
CG_ADVERSARIAL = ["tau", "euler", "e", "pi2", "phi", "theta", "lambda_", "np", "inf", "nan", "gamma", "tau1", "xpi", "arg", "max"]


def cg_builtin_table():
    """label -> (class name, number of qubits, number of parameters) for fixed-arity labelled classes"""
    out = {}
    for name in labelled_classes():
        g, _ = build(name, placement(arity(name)), [0.5])
        if name in ("I",) or (g.parameters and isinstance(g.parameters[0], np.ndarray)):
            continue
        out[g.qasm_label] = (name, len(g.qubits), len(g.parameters))
    return out


def cg_arg_text(a):
    return a["lit"] if "lit" in a else a["fwd"]


def cg_program_text(prog):
    lines = ["OPENQASM 2.0;", 'include "qelib1.inc";']
    for d in prog["defs"]:
        body = " ".join(it["gate"] + (("(" + ",".join(cg_arg_text(a) for a in it["args"]) + ")") if it["args"] else "")
                        + " " + ",".join(it["q"]) + ";" for it in d["body"])
        lines.append(f"gate {d['name']}" + (("(" + ",".join(d["params"]) + ")") if d["params"] else "") + " " + ",".join(d["qubits"]) + " { " + body + " }")
    lines.append(f"qreg q[{prog['n']}];")
    for c in prog["calls"]:
        lines.append(c["gate"] + (("(" + ",".join(cg_arg_text(a) for a in c["args"]) + ")") if c["args"] else "")
                     + " " + ",".join(f"q[{i}]" for i in c["q"]) + ";")
    return "\n".join(lines)


def cg_literal(text):
    """value of a literal argument: the table above, or a plain python number"""
    m = dict(CG_LITERALS)
    return m[text] if text in m else ast.literal_eval(text)


def cg_value(a, env):
    if "fwd" in a:
        return env[a["fwd"]]
    return cg_literal(a["lit"])


def cg_expand(prog, item, qmap, env, table):
    """OpenQASM meaning of one call: flat list of (class, qubits, parameter values)"""
    defs = {d["name"]: d for d in prog["defs"]}
    qs = [qmap[x] if not isinstance(x, int) else x for x in item["q"]]
    vals = [cg_value(a, env) for a in item["args"]]
    if item["gate"] in defs:
        d = defs[item["gate"]]
        qm, en = dict(zip(d["qubits"], qs)), dict(zip(d["params"], vals))
        out = []
        for it in d["body"]:
            out += cg_expand(prog, it, qm, en, table)
        return out
    return [(table[item["gate"]][0], tuple(qs), tuple(vals))]


def cg_outcome(prog):
    """import the program with the real reader and compare every top-level statement with its expansion"""
    from qibo import Circuit
    table = cg_builtin_table()
    text = cg_program_text(prog)
    try:
        with warnings.catch_warnings():
            warnings.simplefilter("ignore")
            c = Circuit.from_qasm(text)
    except Exception as e:
        return "import_rejects", f"{type(e).__name__}: {str(e)[:140]}", text
    if len(c.queue) != len(prog["calls"]) or c.nqubits != prog["n"]:
        return "differs", f"{len(prog['calls'])} statements became {len(c.queue)} gates", text
    defs = {d["name"] for d in prog["defs"]}
    for call, g in zip(prog["calls"], c.queue):
        want = []
        for cls, qs, vals in cg_expand(prog, call, {}, {}, table):
            want.append(gview(namespace()[cls](*qs, *vals), as_float=True))
        got = [gview(x, as_float=True) for x in (g.gates if type(g).__name__ == "FusedGate" else [g])]
        if call["gate"] in defs and (type(g).__name__ != "FusedGate" or tuple(g.target_qubits) != tuple(sorted(call["q"]))):
            return "differs", f"call of {call['gate']} on {call['q']} imported as {type(g).__name__} on {tuple(g.target_qubits)}", text
        if want != got:
            bad = next(((w, h) for w, h in zip(want, got) if w != h), (len(want), len(got)))
            return "differs", f"call {call['gate']}({','.join(cg_arg_text(a) for a in call['args'])}) on {call['q']}: expected {bad[0]} but imported {bad[1]}", text
    return "ok", "", text


def cg_fixed_programs():
    L = lambda t: {"lit": t}
    F = lambda n: {"fwd": n}
    bob = {"name": "bob", "params": ["theta", "alpha"], "qubits": ["q0", "q1"],
           "body": [{"gate": "h", "args": [], "q": ["q1"]}, {"gate": "cx", "args": [], "q": ["q0", "q1"]},
                    {"gate": "rz", "args": [F("theta")], "q": ["q1"]}, {"gate": "rx", "args": [F("alpha")], "q": ["q0"]}]}
    alice = {"name": "alice", "params": ["theta"], "qubits": ["q0", "q1"],
             "body": [{"gate": "bob", "args": [L("0"), F("theta")], "q": ["q0", "q1"]}, {"gate": "x", "args": [], "q": ["q0"]}]}
    carol = {"name": "carol", "params": ["a", "b"], "qubits": ["r", "s", "q2"],
             "body": [{"gate": "alice", "args": [F("b")], "q": ["q2", "r"]}, {"gate": "u3", "args": [F("a"), L("0.0"), F("b")], "q": ["s"]},
                      {"gate": "bob", "args": [F("a"), L("pi-pi")], "q": ["s", "q2"]}, {"gate": "ccx", "args": [], "q": ["s", "q2", "r"]}]}
    plain = {"name": "bell", "params": [], "qubits": ["q0", "q1"],
             "body": [{"gate": "h", "args": [], "q": ["q0"]}, {"gate": "cx", "args": [], "q": ["q0", "q1"]}]}
    out = []
    for t1, t2 in (("0.4", "0.9"), ("0", "0.9"), ("0.9", "0"), ("0.0", "-0.0"), ("pi", "-pi/2"), ("pi-pi", "3")):
        out.append((f"direct_{t1}_{t2}", {"n": 2, "defs": [bob], "calls": [{"gate": "bob", "args": [L(t1), L(t2)], "q": [1, 0]}]}))
    for t in ("0.7", "0", "pi", "-pi/2", "0.0"):
        out.append((f"nested_{t}", {"n": 3, "defs": [bob, alice], "calls": [{"gate": "alice", "args": [L(t)], "q": [2, 0]},
                                                                           {"gate": "h", "args": [], "q": [1]}]}))
    for t1, t2 in (("0.3", "0.6"), ("0", "0.6"), ("0.3", "0"), ("0", "0.0")):
        out.append((f"nested2_{t1}_{t2}", {"n": 4, "defs": [bob, alice, carol, plain],
                                            "calls": [{"gate": "carol", "args": [L(t1), L(t2)], "q": [3, 0, 2]},
                                                      {"gate": "bob", "args": [L(t2), L(t1)], "q": [1, 3]},
                                                      {"gate": "bell", "args": [], "q": [2, 1]}]}))
    for nm in CG_ADVERSARIAL:
        drift = {"name": "drift", "params": [nm, "alpha"], "qubits": ["a", "b"],
                 "body": [{"gate": "rz", "args": [F(nm)], "q": ["a"]}, {"gate": "rx", "args": [F("alpha")], "q": ["b"]},
                          {"gate": "cx", "args": [], "q": ["a", "b"]}]}
        wrap = {"name": "wrap", "params": ["alpha", nm], "qubits": ["b", "a"],
                "body": [{"gate": "drift", "args": [F(nm), L("0.9")], "q": ["a", "b"]}, {"gate": "u1", "args": [F(nm)], "q": ["b"]}]}
        out.append((f"formal_{nm}", {"n": 3, "defs": [drift, wrap],
                                     "calls": [{"gate": "drift", "args": [L("0.3"), L("-1.25")], "q": [1, 0]},
                                               {"gate": "wrap", "args": [L("0.5"), L("0.75")], "q": [2, 1]}]}))
        qd = {"name": "onq", "params": ["t"], "qubits": [nm, "b"],
              "body": [{"gate": "ry", "args": [F("t")], "q": [nm]}, {"gate": "cz", "args": [], "q": ["b", nm]}]}
        out.append((f"qubitname_{nm}", {"n": 2, "defs": [qd], "calls": [{"gate": "onq", "args": [L("0.3")], "q": [1, 0]}]}))
    out.append(("no_params", {"n": 3, "defs": [plain], "calls": [{"gate": "bell", "args": [], "q": [2, 0]}, {"gate": "bell", "args": [], "q": [0, 1]}]}))
    return out


def cg_random_program(rng, table):
    # `ms` is left out of definition bodies: MS.__init__ range-checks theta, which fails on the placeholder string
    # of a forwarded parameter at definition time (importer limitation on the clean tree, recorded as an observation)
    labels = sorted(l for l, (_, nq, _) in table.items() if nq <= 3 and l != "ms")
    defs = []
    for di in range(rng.randint(1, 4)):
        nq = rng.randint(1, 3)
        pool = CG_PARAM_NAMES + (CG_ADVERSARIAL if rng.random() < 0.5 else [])
        params = rng.sample(pool, rng.randint(0, 3))
        qpool = [x for x in CG_QUBIT_NAMES + (CG_ADVERSARIAL if rng.random() < 0.3 else []) if x not in params]
        qubits = rng.sample(qpool, nq)
        body = []
        for _ in range(rng.randint(1, 4)):
            cands = [d for d in defs if len(d["qubits"]) <= nq]
            if cands and rng.random() < 0.45:
                d = rng.choice(cands)
                name, k, npar = d["name"], len(d["qubits"]), len(d["params"])
            else:
                name = rng.choice([l for l in labels if table[l][1] <= nq])
                _, k, npar = table[name]
            args = []
            for j in range(npar):
                if params and rng.random() < 0.55:
                    args.append({"fwd": rng.choice(params)})
                else:
                    lits = [t for t, v in CG_LITERALS if not (name == "ms" and j == 2 and not 0 <= float(v) <= PI / 2)]
                    args.append({"lit": rng.choice(lits[:6] if rng.random() < 0.6 else lits)})
            body.append({"gate": name, "args": args, "q": rng.sample(qubits, k)})
        defs.append({"name": f"g{di}", "params": params, "qubits": qubits, "body": body})
    n = rng.randint(3, 5)
    calls = []
    for _ in range(rng.randint(1, 4)):
        d = rng.choice(defs)
        lits = [t for t, v in CG_LITERALS]
        calls.append({"gate": d["name"], "args": [{"lit": rng.choice(lits[:6] if rng.random() < 0.6 else lits)} for _ in d["params"]],
                      "q": rng.sample(range(n), len(d["qubits"]))})
    return {"n": n, "defs": defs, "calls": calls}


def cg_ms_safe(prog, table):
    """MS restricts its third parameter to [0, pi/2]: drop programs whose expansion violates it (constructor constraint, not the reader)"""
    try:
        for call in prog["calls"]:
            for cls, qs, vals in cg_expand(prog, call, {}, {}, table):
                namespace()[cls](*qs, *vals)
        return True
    except Exception:
        return False


def cg_rename(prog, di, old, new, what):
    """the same program with one formal parameter (what='param') or qubit argument (what='qubit') of definition di renamed"""
    p = json.loads(json.dumps(prog))
    d = p["defs"][di]
    if what == "param":
        d["params"] = [new if x == old else x for x in d["params"]]
        for it in d["body"]:
            for a in it["args"]:
                if a.get("fwd") == old:
                    a["fwd"] = new
    else:
        d["qubits"] = [new if x == old else x for x in d["qubits"]]
        for it in d["body"]:
            it["q"] = [new if x == old else x for x in it["q"]]
    return p


def cg_rename_all(prog, names):
    p = prog
    for di, d in enumerate(prog["defs"]):
        for nm in names:
            if nm in d["params"]:
                p = cg_rename(p, di, nm, "zz_" + nm, "param")
            if nm in d["qubits"]:
                p = cg_rename(p, di, nm, "zz_" + nm, "qubit")
    return p


def cg_culprit_name(prog, cat):
    """is the failure caused by the NAME of a formal parameter / qubit argument?  Renaming names to neutral ones does
    not change the meaning of a program: if the failure goes away when all adversarial names are renamed, a name is the
    cause; the culprit is a name that alone (all others renamed) still makes the program fail."""
    used = sorted({nm for d in prog["defs"] for nm in d["params"] + d["qubits"] if nm in CG_ADVERSARIAL})
    if not used or cg_outcome(cg_rename_all(prog, used))[0] != "ok":
        return None
    for nm in used:
        alone = cg_rename_all(prog, [x for x in used if x != nm])
        if cg_outcome(alone)[0] != "ok":
            as_param = any(nm in d["params"] for d in prog["defs"])
            if as_param and cg_outcome(cg_rename_all(alone, []))[0] != "ok":
                # parameter or qubit role?  rename only the parameter occurrences
                p2 = alone
                for di, d in enumerate(alone["defs"]):
                    if nm in d["params"]:
                        p2 = cg_rename(p2, di, nm, "zz_" + nm, "param")
                return ("formal_name=" if cg_outcome(p2)[0] == "ok" else "qubit_name=") + nm
            return "qubit_name=" + nm
    return "formal_name=" + "+".join(used)


def cg_key(prog, cat):
    """shrink to one top-level call, then name the failure by whether a zero-valued argument is involved"""
    small = prog
    for call in prog["calls"]:
        cand = dict(prog, calls=[call])
        if cg_outcome(cand)[0] == cat:
            small = cand
            break
    culprit = cg_culprit_name(small, cat)
    if culprit:
        return f"qasm:custom_gate:{cat}:{culprit}", small
    table = cg_builtin_table()
    zero = False

    def walk(item, env):
        nonlocal zero
        defs = {d["name"]: d for d in small["defs"]}
        vals = [cg_value(a, env) for a in item["args"]]
        if item["gate"] in defs:
            if any(v == 0 for v in vals):
                zero = True
            d = defs[item["gate"]]
            for it in d["body"]:
                walk(it, dict(zip(d["params"], vals)))
    for call in small["calls"]:
        walk(call, {})
    return f"qasm:custom_gate:{cat}:" + ("zero_valued_argument" if zero else "general"), small


def suite_custom_gates(run, rng, T):
    table = cg_builtin_table()
    progs = list(cg_fixed_programs())
    N = 250 if run.tier == "thorough" else 60
    tries = 0
    while len(progs) < len(cg_fixed_programs()) + N and tries < 20 * N:
        tries += 1
        p = cg_random_program(rng, table)
        if cg_ms_safe(p, table):
            progs.append((f"random{len(progs)}", p))
    stats = {}
    zero_calls = 0
    for i, (label, prog) in enumerate(progs):
        cat, detail, text = cg_outcome(prog)
        stats[cat] = stats.get(cat, 0) + 1
        run.case(["custom_gate", prog])
        zero_calls += sum(1 for c in prog["calls"] for a in c["args"] if cg_literal(a["lit"]) == 0)
        if i in (1, 7, 12) or i == len(progs) - 1:
            run.sample({"suite": "custom_gate", "label": label, "program": text.split("\n")[2:], "outcome": cat})
        if cat != "ok":
            key, small = cg_key(prog, cat)
            c2, d2, t2 = cg_outcome(small)
            run.find(key, "a program with user-defined gates is " + ("rejected by" if cat == "import_rejects" else "read differently by")
                     + f" from_qasm than its OpenQASM expansion: {d2 or detail}",
                     {"suite": "custom_gate", "program": small, "text": t2, "category": cat, "detail": d2 or detail})
    T["custom_gate_stats"] = dict(stats, programs=len(progs), top_level_arguments_equal_to_zero=zero_calls)
    T["custom_gate_generator_exclusions"] = ["`ms` with a forwarded parameter inside a gate body: MS.__init__ range-checks the placeholder string -> 'Invalid gate declaration' on the clean tree. Decision: NOT a C13 violation -- Circuit.to_qasm never writes `gate` definitions, so no exported text can contain it (hand-written QASM is outside the export->import rule); recorded here as an importer limitation and left out of the generator",
                                             "expressions of formal parameters inside bodies (kept as strings by the importer, see importer_observations_outside_property_text)",
                                             "formal names that python's eval() resolves inside QASMParser._get_gate (gate, arg, qubits, ...) or that contain 'pi'"]
    run.oblige("user-defined gate programs (nested definitions, forwarded parameters, zero-valued arguments) were imported and compared with their expansion",
               len(progs) >= 20 and zero_calls >= 10, "coverage")
