"""C05  Dagger, control and relabelling are exact operations on gates and circuits.

Per gate class (finite, enumerated from /repo's gates.py on every run) and per
operation, the real method is executed on a gate with *symbolic* parameters
(lib/symtrace), the matrices of the original and of the returned gate are traced
through the real NumpyMatrices code, and a Coq obligation
      forall th,  operator(result) = expected(operator(original))
is generated and proved by the reflexive checker Base/TrigMat.mcheck_eq_sound
(kernel-checked, all real parameter values).  Circuit-level operations
(invert, +, copy, on_qubits) are covered by the static theorems of
Proofs/CircuitOps.v plus traced instances.
"""
STATIC = ["Base/TrigMat", "C05/Props", "C05/InstMat", "Base/SemProps", "C05/PropsComp", "C05/PropsMeas"]
import itertools
import math
import random

import numpy as np

from lib import qtrace, symtrace as st
from harness import c05_comp, c05_meas
from lib.qtrace import nat_list
from lib.symtrace import TraceError, Lin, PI
from fractions import Fraction

HEADER = qtrace.COQ_HEADER


# ------------------------------------------------------------------ gate recipes
def gate_specs():
    """[(label, nqubits, nparams, maker(qubits, params) -> gate)]"""
    specs = []
    gg = qtrace.mod("qibo.gates.gates")
    for name, nq, ps in qtrace.catalogue():
        specs.append((name, nq, len(ps), (lambda qs, pr, _n=name: qtrace.make_gate(_n, qs, pr))))
    for (a, b) in ((1, 1), (2, 1)):
        specs.append((f"GeneralizedRBS_{a}_{b}", a + b, 2,
                      (lambda qs, pr, _a=a: gg.GeneralizedRBS(list(qs[:_a]), list(qs[_a:]), *pr))))
    U1 = np.array([[1 + 2j, 3 - 1j], [-2j, 4 + 1j]])
    U2 = np.array([[1, 2j, 0, -1], [3, 1 - 1j, 2, 0], [0, 1j, -2, 1 + 1j], [2 - 1j, 0, 1, 3j]])
    specs.append(("Unitary_1q", 1, 0, (lambda qs, pr: gg.Unitary(U1.copy(), *qs, check_unitary=False))))
    specs.append(("Unitary_2q", 2, 0, (lambda qs, pr: gg.Unitary(U2.copy(), *qs, check_unitary=False))))
    W = np.array([[0.5, -0.5j], [0.25j, 2.0]])
    specs.append(("GeneralizedfSim", 2, 1, (lambda qs, pr: gg.GeneralizedfSim(*qs, W.copy(), *pr))))
    specs.append(("I_2q", 2, 0, (lambda qs, pr: gg.I(*qs))))
    return specs


def sym_vars(k):
    return [st.var(j) for j in range(k)]


def init_vals(k):
    """initial (to be overwritten) parameter values: distinct rational multiples of pi"""
    return [PI * Fraction(1, 3 + 2 * j) for j in range(k)]


def setup_witness(k):
    st.WITNESS.clear()
    for j in range(k):
        st.WITNESS[j] = 0.3 + 0.17 * j
    st.VARNAMES.clear()
    for j in range(k):
        st.VARNAMES[j] = f"(avar {j})"


def gate_lit(g):
    """Coq mexpr literal of the matrix the real backend returns for this gate instance"""
    return f"(MLit {qtrace.gate_symmat(g).coq()})"


def op_coq(g, n):
    M = gate_lit(g)
    if g.is_controlled_by:
        return f"(MCEmbed {n}%nat {nat_list(g.control_qubits)} {nat_list(g.target_qubits)} {M})"
    return f"(MEmbed {n}%nat {nat_list(g.qubits)} {M})"


def set_params(g, vals):
    if type(g).__name__ == "GeneralizedfSim":
        g.parameters = (g.parameters[0], vals[0])
    elif type(g).__name__ == "Unitary":
        g.parameters = (np.array(g.parameters[0]).T.copy() * 2,)
    elif len(vals) == 1:
        g.parameters = vals[0]
    else:
        g.parameters = tuple(vals)


def build(spec, qubits, params, update):
    label, nq, npar, maker = spec
    if update:
        symbolic = any(isinstance(p, st.Sym) for p in params)
        g = maker(qubits, init_vals(npar) if symbolic else [0.25 + 0.125 * j for j in range(npar)])
        set_params(g, params)
    else:
        g = maker(qubits, params)
        if update is None:   # "fresh" reference for an updated Unitary: same final matrix
            set_params(g, params)
    return g


# a recipe is (op, label, qubits, extra, qmap, update)
def perform(spec, recipe, params):
    """run the real operation; returns (result gate, expected-operator description)
    expected = ('dag', fresh gate) | ('ctrl', fresh gate, controls) | ('same', fresh gate on mapped qubits)"""
    op, label, qubits, extra, qmap, update = recipe
    g = build(spec, qubits, params, update)
    isU = spec[0].startswith("Unitary")
    fresh = build(spec, qubits, params, None if (update and isU) else False)
    if op == "dagger":
        if extra:
            g = g.controlled_by(*extra)
            fresh = fresh.controlled_by(*extra)
        return g.dagger(), ("dag", fresh)
    if op == "controlled_by":
        r = g.controlled_by(*extra)
        return r, ("ctrl", fresh, tuple(extra))
    if op == "on_qubits":
        if extra:
            g = g.controlled_by(*extra)
        r = g.on_qubits(qmap)
        mq = [qmap[q] for q in qubits]
        fresh2 = build(spec, mq, params, None if (update and isU) else False)
        if extra:
            fresh2 = fresh2.controlled_by(*[qmap[q] for q in extra])
        return r, ("same", fresh2)
    raise ValueError(op)


def expected_coq(exp, n):
    if exp[0] == "dag":
        return f"(MDag {op_coq(exp[1], n)})"
    if exp[0] == "ctrl":
        f = exp[1]
        return f"(MCEmbed {n}%nat {nat_list(sorted(exp[2]))} {nat_list(f.target_qubits)} {gate_lit(f)})"
    return op_coq(exp[1], n)


def full_unitary(g, n):
    from qibo import Circuit
    c = Circuit(n)
    c.add(g)
    return np.asarray(c.unitary())


def expected_num(exp, n):
    if exp[0] == "dag":
        return full_unitary(exp[1], n).conj().T
    if exp[0] == "ctrl":
        f = exp[1]
        U = full_unitary(f, n)
        out = np.eye(2 ** n, dtype=complex)
        for r in range(2 ** n):
            if all((r >> (n - 1 - c)) & 1 for c in exp[2]):
                out[r] = U[r]
        return out
    return full_unitary(exp[1], n)


def recipes(spec, tier, rng):
    label, nq, npar, maker = spec
    n = nq + 3
    out = []
    perms = [list(range(nq))[::-1], list(range(nq))] if nq > 1 else [[0]]   # non-ascending targets first
    place = [[(1, 3, 0, 4, 2, 5)[i] for i in p] for p in perms]  # non-ascending, non-adjacent
    probe = maker(list(range(nq)), [0.1] * npar if label != "MS" else [0.1, 0.1, 0.1])
    has_ctrl = bool(probe.control_qubits)
    special_on = False
    for update in ((False, True) if npar or label.startswith("Unitary") else (False,)):
        for qs in place[: (2 if tier == "thorough" else 1)] + ([list(range(nq))] if tier == "thorough" else []):
            free = [q for q in range(n) if q not in qs]
            out.append(("dagger", label, qs, (), None, update))
            if not has_ctrl:
                out.append(("dagger", label, qs, (free[1], free[0]), None, update))
                for k in (1, 2, 3):
                    out.append(("controlled_by", label, qs, tuple(free[:k][::-1]), None, update))
            keys = list(range(n))
            rng.shuffle(keys)          # dict iteration order must not matter
            qmap = {q: p for q, p in zip(keys, rng.sample(range(n), n))}
            out.append(("on_qubits", label, qs, (), qmap, update))
            if not has_ctrl:
                out.append(("on_qubits", label, qs, (free[2], free[0]), qmap, update))
    return n, out


def circuit_instances():
    """Coq terms for invert / + / copy / on_qubits of a circuit with symbolic parameters"""
    from qibo import Circuit
    gg = qtrace.mod("qibo.gates.gates")
    th = qtrace.setup_vars(3)

    def mk():
        c = Circuit(3)
        c.add(gg.CRX(2, 0, th[0]))
        c.add(gg.U3(1, th[0], th[1], th[2]))
        c.add(gg.fSim(0, 2, th[1], th[2]))
        c.add(gg.RY(1, th[2]).controlled_by(2, 0))
        c.add(gg.SX(0))
        c.add(gg.T(2))
        c.add(gg.RXX(1, 0, th[1]))
        return c
    out = []
    c = mk()
    inv = c.invert()
    out.append(("circuit_invert", f"mcheck_eq {qtrace.circ_coq(list(c.queue) + list(inv.queue), 3)} (MId 3%nat)"))
    c1, c2 = mk(), mk().invert()
    s = c1 + c2
    out.append(("circuit_add", f"mcheck_eq {qtrace.circ_coq(list(s.queue), 3)} "
                f"(MMul {qtrace.circ_coq(list(c2.queue), 3)} {qtrace.circ_coq(list(c1.queue), 3)})"))
    out.append(("circuit_copy_deep", f"mcheck_eq {qtrace.circ_coq(list(mk().copy(deep=True).queue), 3)} {qtrace.circ_coq(list(mk().queue), 3)}"))
    big = Circuit(4)
    big.add(mk().on_qubits(3, 0, 2))
    ref = Circuit(4)
    for g in mk().queue:
        ref.add(g.on_qubits({0: 3, 1: 0, 2: 2}))
    # expected: every gate acts on the mapped qubits -> build the reference from fresh gates on mapped qubits
    exp = []
    m = {0: 3, 1: 0, 2: 2}
    exp.append(gg.CRX(m[2], m[0], th[0])); exp.append(gg.U3(m[1], th[0], th[1], th[2])); exp.append(gg.fSim(m[0], m[2], th[1], th[2]))
    exp.append(gg.RY(m[1], th[2]).controlled_by(m[2], m[0])); exp.append(gg.SX(m[0])); exp.append(gg.T(m[2])); exp.append(gg.RXX(m[1], m[0], th[1]))
    out.append(("circuit_on_qubits", f"mcheck_eq {qtrace.circ_coq(list(big.queue), 4)} {qtrace.circ_coq(exp, 4)}"))
    return out


def flat_queue(c):
    out = []
    for g in c.queue:
        out += list(g.gates) if type(g).__name__ == "FusedGate" else [g]
    return out


def composed_instances():
    """kernel-checked instances (all parameter values) of COMPOSED circuit operations on a circuit whose members mix
    dedicated controlled classes, generic controlled_by members (one and two controls), a trainable=False gate and a
    gate updated after construction; FusedGates are read as their member lists (C05/PropsComp.fused_queue_is_its_member_list)"""
    from qibo import Circuit
    gg = qtrace.mod("qibo.gates.gates")
    th = qtrace.setup_vars(3)

    def mk(m=None, ctrl=True):
        m = m or {0: 0, 1: 1, 2: 2}
        c = Circuit(max(m.values()) + 1)
        cb = (lambda g, *qs: g.controlled_by(*qs)) if ctrl else None
        c.add(gg.H(m[1]).controlled_by(m[0]))
        c.add(gg.RX(m[2], th[0], trainable=False))
        g = gg.fSim(m[1], m[2], PI * Fraction(1, 5), PI * Fraction(1, 7))
        g.parameters = (th[1], th[2])               # updated after construction, then controlled
        c.add(g.controlled_by(m[0]))
        c.add(gg.CRZ(m[2], m[0], th[2]))
        c.add(gg.SX(m[0]).controlled_by(m[2], m[1]))
        c.add(gg.U3(m[1], th[0], th[1], th[2]).controlled_by(m[2]))
        c.add(gg.T(m[2]))
        return c
    n = 3
    cc = lambda gs, k=3: qtrace.circ_coq(list(gs), k)
    out = []
    c = mk()
    out.append(("composed_fuse_invert", f"mcheck_eq {cc(flat_queue(c.fuse(max_qubits=3).invert()))} (MDag {cc(mk().queue)})"))
    out.append(("composed_fuse2_invert", f"mcheck_eq {cc(flat_queue(mk().fuse(max_qubits=2).invert()))} (MDag {cc(mk().queue)})"))
    out.append(("composed_invert_fuse", f"mcheck_eq {cc(flat_queue(mk().invert().fuse(max_qubits=3)))} (MDag {cc(mk().queue)})"))
    fgs = [g for g in mk().fuse(max_qubits=3).queue if type(g).__name__ == "FusedGate"]
    for i, fg in enumerate(fgs[:2]):
        out.append((f"composed_fusedgate_dagger_{i}", f"mcheck_eq {cc(fg.dagger().gates)} (MDag {cc(fg.gates)})"))
    c1, c2 = mk(), mk().invert()
    out.append(("composed_add_invert", f"mcheck_eq {cc((c1 + c2).invert().queue)} (MMul (MDag {cc(mk().queue)}) (MDag {cc(mk().invert().queue)}))"))
    out.append(("composed_copy_deep_invert", f"mcheck_eq {cc(mk().copy(deep=True).invert().queue)} (MDag {cc(mk().queue)})"))
    big = Circuit(4)
    big.add(mk().on_qubits(3, 0, 2))
    out.append(("composed_on_qubits_invert", f"mcheck_eq {cc(big.invert().queue, 4)} (MDag {cc(mk({0: 3, 1: 0, 2: 2}).queue, 4)})"))
    out.append(("composed_on_qubits_fuse_invert", f"mcheck_eq {cc(flat_queue(big.fuse(max_qubits=3).invert()), 4)} (MDag {cc(mk({0: 3, 1: 0, 2: 2}).queue, 4)})"))
    return out


def compositions(run, rng, ncases):
    """random sequences (length 2-4) of invert / + / copy / on_qubits / fuse on mixed circuits, against the Coq model
    C05/CompModel.eval (structure, exact) and the prescribed operator (numpy, per member and whole circuit)"""
    from lib import vcore
    for t in vcore.props_theorems("C05/PropsComp.v"):
        run.oblige(t, True, "static-theorem")
    okpa, pa = vcore.static_assumptions("C05/PropsComp")
    run.notes["print_assumptions_comp"] = pa
    cases, exprs, pending, nfound = [], [], [], 0
    seen = set()

    def report(case, kind, detail, what):
        nonlocal nfound
        key = f"compose:{c05_comp.chain(case['expr'])}:{kind}" + (f":{detail}" if detail else "")
        if key in seen or nfound >= 8:
            return
        seen.add(key)
        nfound += 1
        run.refuted.append("composition_" + key)
        run.find(key, what, {"compose": case})
    for i in range(ncases):
        case = c05_comp.make_case(rng, i)
        txt, probs, shape = c05_comp.run_case(case)
        run.case(["compose", c05_comp.chain(case["expr"]), [[(s["cls"], len(s["controls"]), s["trainable"], s["updated"]) for s in sp] for sp in case["specs"]]])
        if i % 25 == 0:
            run.sample({"composition": c05_comp.chain(case["expr"]), "sources": [[s["cls"] + (".controlled_by" if s["controls"] else "") for s in sp] for sp in case["specs"]]})
        for kind, detail, what in probs:
            report(case, kind, detail, what)
        if txt is not None:
            exprs.append(f"show {txt}")
            pending.append((case, shape))
    vals = run.coq_eval("C05_comp.v", c05_comp.MODEL_HEADER, exprs, timeout=600)
    if vals is None:
        run.oblige("correspondence_composed_circuit_operations", False, "correspondence")
        run.find("coq:C05_comp", "model evaluation of the composed operations does not compile", concrete=False)
        return
    for (case, shape), v in zip(pending, vals):
        for kind, detail, what in c05_comp.compare_structure(v, shape):
            report(case, kind, detail, what)
    run.oblige("correspondence_composed_circuit_operations", nfound == 0, "correspondence")
    run.notes["compositions"] = len(cases) or ncases


def key_of(recipe):
    op, label, qubits, extra, qmap, update = recipe
    return f"{op}:{label}" + (":ctrl" if extra and op != "controlled_by" else "") + (":updated" if update else "")


SPECIAL = [0.0, math.pi, -math.pi, math.pi / 2, 2 * math.pi, math.pi / 4]


def numeric_search(spec, recipe, n, rng, trials=12, special=False):
    """look for concrete parameters on which the implementation contradicts the expected operator"""
    label, nq, npar, maker = spec
    cands = []
    if special and npar:
        cands = [[sp] * npar for sp in SPECIAL]
        for sp in SPECIAL[:3]:
            v = [round(rng.uniform(0.05, 1.5), 3) for _ in range(npar)]
            v[rng.randrange(npar)] = sp
            cands.append(v)
    cands += [[round(rng.uniform(0.05, 1.5), 3) for _ in range(npar)] for _ in range(trials)]
    for vals in cands:
        if label.startswith("MS") and npar == 3 and not 0.0 <= vals[2] <= math.pi / 2:
            continue
        try:
            r, exp = perform(spec, recipe, vals)
            got = full_unitary(r, n)
            want = expected_num(exp, n)
        except Exception as e:
            return {"params": vals, "error": f"{type(e).__name__}: {e}"}
        d = float(np.abs(got - want).max())
        if d > 1e-9:
            return {"params": vals, "max_abs_diff": d}
    return None


def main(run):
    rng = random.Random(run.seed)
    run.trusted += [
        "Coq 8.16.1 kernel, vm_compute",
        "Base/TrigNF.v + Base/TrigMat.v soundness theorems (static, proved)",
        "lib/symtrace.py symbolic tracer (cross-checked numerically against gate.matrix() on every run)",
        "meaning of 'operator of a gate': Base/Mat.v embed/cembed (qubit 0 most significant)",
    ]
    run.assumptions += ["exact real arithmetic (floating-point rounding not modelled)"]
    from lib import vcore
    for t in vcore.props_theorems("C05/Props.v"):
        run.oblige(t, True, "static-theorem")
    okpa, pa = vcore.static_assumptions("C05/Props")
    run.notes["print_assumptions_static"] = pa
    # matrix-level instances (C05/InstMat.v, proved from Base/Sem*.v): invert, +, on_qubits on real matrices
    for t in vcore.props_theorems("C05/InstMat.v"):
        run.oblige(t, True, "static-theorem")
    okpa2, pa2 = vcore.static_assumptions("C05/InstMat")
    run.notes["print_assumptions_instmat"] = pa2
    for t in ("embed_dagger", "cembed_dagger", "cembed_dagger_left_inverse_ok", "embed_relabel", "cembed_relabel"):
        run.oblige("Base.SemProps." + t, True, "static-theorem")
    specs = gate_specs()
    items = []      # (name, coq bool term)
    meta = {}       # name -> (spec, recipe, n)
    raised = []
    with qtrace.patched():
        qtrace.fresh_sym_backend()
        for spec in specs:
            label, nq, npar, maker = spec
            setup_witness(npar)
            n, recs = recipes(spec, run.tier, rng)
            for i, rec in enumerate(recs):
                name = f"{rec[0]}_{label}_{i}"
                try:
                    r, exp = perform(spec, rec, sym_vars(npar))
                    lhs, rhs = op_coq(r, n), expected_coq(exp, n)
                except TraceError as e:
                    run.oblige(name, False, "untranslatable")
                    run.find(f"trace:{key_of(rec)}", f"symbolic tracing failed: {e}",
                             {"recipe": rec[:4]}, concrete=False)
                    continue
                except Exception as e:
                    raised.append((spec, rec, n, f"{type(e).__name__}: {e}"))
                    continue
                items.append((name, f"mcheck_eq {lhs} {rhs}"))
                meta[name] = (spec, rec, n)
                run.case([rec[0], label, rec[2], rec[3], rec[5]])
                run.sample({"obligation": name, "op": rec[0], "class": label, "qubits": rec[2],
                            "extra_controls": rec[3], "updated_after_construction": rec[5]})
    # ---- circuit-level instances (invert, +, copy, on_qubits) on a mixed symbolic circuit
    with qtrace.patched():
        qtrace.fresh_sym_backend()
        for nm, term in circuit_instances() + composed_instances():
            items.append((nm, term))
            meta[nm] = None
            run.case(["circuit-op", nm])
    # ---- compositions of circuit-level operations (Coq model + prescribed operator; concrete inputs)
    compositions(run, random.Random(run.seed + 505), 260 if run.tier == "quick" else 2500)
    # ---- measurement gates through the relabelling / copying operations (every representation of p0 / p1, bases, orders)
    c05_meas.stream(run, random.Random(run.seed + 515), 240 if run.tier == "quick" else 2400)
    # ---- translator cross-check (numeric): traced matrices vs real gate.matrix()
    tr_bad = crosscheck_tracer(run, rng)
    # ---- operations that raised on gates documented to accept them
    seen = set()
    for spec, rec, n, err in raised:
        k = "raises:" + key_of(rec)
        if k in seen:
            continue
        seen.add(k)
        run.refuted.append("total_" + key_of(rec))
        run.find(k, f"{rec[0]} on {rec[1]} raises {err}", {"recipe": rec[:4], "error": err})
    # ---- float path = symbolic path: the theorems below are about the path the SYMBOLIC execution took;
    # type- or value-dependent branches (isinstance(theta, float), theta == 0 ...) are tied by executing the
    # real float code at special values (multiples of pi/4) and a random point (test level, concrete input)
    swept, seen_fp = 0, set()
    for n_, m in meta.items():
        if m is None:
            continue
        spec, rec, n = m
        w = numeric_search(spec, rec, n, rng, trials=1, special=True)
        swept += 1
        if w and key_of(rec) not in seen_fp:
            seen_fp.add(key_of(rec))
            run.refuted.append("float_path_" + n_)
            run.find(key_of(rec), f"{rec[0]} of {rec[1]}: float execution is not the expected operator",
                     {"recipe": list(rec[:4]) + [rec[5]], "n": n, **w})
    run.notes["float_path_sweeps"] = swept
    # ---- triage by one vm_compute, then kernel-checked theorems for the passing ones
    res, okc = run.prove_bools("C05", HEADER, items, timeout=1500)
    if res is None:
        run.find("coq:C05_triage", "generated obligations do not compile", concrete=False)
        return run.finish(rule=RULE)
    bad = [(n_, t) for (n_, t) in items if not res[n_]]
    seen = set()
    for n_, _ in bad:
        if meta[n_] is None:
            run.oblige(n_, False)
            run.find("circuit_op:" + n_, f"circuit-level obligation {n_} fails for the symbolic test circuit", {"obligation": n_}, concrete=False)
            continue
        spec, rec, n = meta[n_]
        k = key_of(rec)
        if k in seen:
            continue
        seen.add(k)
        w = numeric_search(spec, rec, n, rng)
        if w is None:
            run.oblige(n_, False)
            run.find("unproved:" + k, f"obligation {n_} no longer checks", {"obligation": n_, "recipe": rec[:4]}, concrete=False)
        else:
            run.refuted.append(n_)
            run.find(k, f"{rec[0]} of {rec[1]} is not the expected operator", {"recipe": list(rec[:4]) + [rec[5]], "n": n, **w})
    run.notes["operations"] = {"dagger": sum(1 for n_, _ in items if n_.startswith("dagger")),
                               "controlled_by": sum(1 for n_, _ in items if n_.startswith("controlled_by")),
                               "on_qubits": sum(1 for n_, _ in items if n_.startswith("on_qubits"))}
    run.notes["classes"] = len(specs)
    return run.finish(rule=RULE)


RULE = ("one case per (gate class x operation x placement x controls x updated-after-construction); every class of "
        "gates.py is enumerated; placements are non-ascending and non-adjacent; distinct = distinct recipe; "
        "compositions: 10 fixed + random sequences of 2-4 circuit operations (invert, +, copy, on_qubits, fuse) on two source "
        "circuits of 3-6 gates (every class, generic controls, trainable=False, updated, Unitary), distinct = distinct (sequence, sources); "
        "measurements: 24 fixed + random gates.M on 1-3 of 2-5 qubits (non-ascending / cyclic target orders) x 9 representations of p0 and p1 "
        "(None, float, list, tuple, dictionary full / sorted / shuffled / partial / integer-valued) x bases (class, string, per-qubit lists) x "
        "collapse x register name, through 1-3 of M.on_qubits / Circuit.on_qubits / light_cone / copy(deep) / copy / invert / +, exact vs the "
        "relabelled description, vs C05/MeasModel.run and (probabilities 0/1, eigenstates) vs sampled frequencies of a fresh circuit")


def crosscheck_tracer(run, rng):
    """numeric comparison of the traced symbolic matrix with the real gate.matrix()"""
    bad = 0
    setup_witness(4)
    res, fail = qtrace.trace_matrices()
    for name, why in fail.items():
        run.oblige(f"trace_{name}", False, "translator")
        run.find(f"trace:{name}", f"matrix of {name} is outside the traced fragment: {why}", concrete=False)
    for name, (nq, ps, M) in res.items():
        # random point and special values (float path of matrix_parametrized = traced symbolic path)
        d, vals = 0.0, {}
        for cand in [None] + ([[sp] * len(ps) for sp in SPECIAL] if ps else []):
            v = {j: (rng.uniform(0.05, 1.5) if cand is None else cand[j]) for j in range(len(ps))}
            if name == "MS" and not 0.0 <= v[2] <= math.pi / 2:
                continue
            g = qtrace.make_gate(name, list(range(nq)), [v[j] for j in range(len(ps))])
            dv = float(np.abs(np.asarray(g.matrix()) - M.num(v)).max())
            if dv >= d:
                d, vals = dv, v
        okk = d < 1e-12
        run.oblige(f"tracer_matches_{name}", okk, "translator-crosscheck")
        if not okk:
            bad += 1
            run.find(f"tracer:{name}", "symbolic trace and gate.matrix() disagree", {"class": name, "params": vals, "diff": d}, concrete=False)
    return bad


def replay(run, data):
    rp = data["replay"]
    if "meas" in rp:
        probs = c05_meas.replay_case(run, rp["meas"])
        for kind, what in probs:
            print("replay:", kind, what)
        if probs:
            run.find(data["key"], probs[0][1], rp)
        return run.finish(rule="replay of one recorded measurement case")
    if "compose" in rp:
        case = rp["compose"]
        txt, probs, shape = c05_comp.run_case(case)
        if txt is not None:
            vals = run.coq_eval("C05_comp_replay.v", c05_comp.MODEL_HEADER, [f"show {txt}"])
            if vals:
                probs = probs + c05_comp.compare_structure(vals[0], shape)
        for kind, detail, what in probs:
            print("replay:", kind, detail, what)
        if probs:
            run.find(data["key"], probs[0][2], rp)
        return run.finish(rule="replay of one recorded composition")
    rec = rp.get("recipe")
    rng = random.Random(0)
    specs = {s[0]: s for s in gate_specs()}
    if not rec or rec[1] not in specs:
        print("replay: nothing to re-run for", data.get("key"))
        return 0
    spec = specs[rec[1]]
    n = rp.get("n", spec[1] + 3)
    recipe = (rec[0], rec[1], rec[2], tuple(rec[3]), None, bool(rec[4]) if len(rec) > 4 else False)
    if recipe[0] == "on_qubits":
        recipe = recipe[:4] + ({q: q for q in range(n)}, recipe[5])
    w = None
    if "params" in rp:
        try:
            r, exp = perform(spec, recipe, rp["params"])
            d = float(np.abs(full_unitary(r, n) - expected_num(exp, n)).max())
            w = {"params": rp["params"], "max_abs_diff": d} if d > 1e-9 else None
        except Exception as e:
            w = {"error": str(e)}
    if w:
        run.find(data["key"], data["what"], {**rp, **w})
    return run.finish(rule="replay of one recorded case")
