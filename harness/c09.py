"""C09  Routing output is executable and equals the input up to the reported layout.

Three layers, all on every run:

1. static Coq theorems (C09/Props.v): the router is a nondeterministic transition system
   (exec block / swap / undo); for EVERY guarded transition sequence the maps stay mutually
   inverse bijections, every emitted two-qubit gate is on an edge, un-routing the emitted list
   gives back the executed blocks, the executed blocks are a dependency-respecting
   linearisation (trace-equivalent to the input) and  run(out) = P_layout . run(in)  for every
   permutation-equivariant interpretation of gates; swap_guard_<Router> statements (Sabre
   candidates, Sabre shortest-path fallback, ShortestPaths._add_swaps);
   StarConnectivityRouter as a deterministic refinement; blocks_equiv for all circuits
   (block_decomposition only exchanges gates on disjoint qubits) + verified reorder checker.
2. correspondence: CircuitMap.update / undo / execute_block are wrapped at run time; the
   decision trace of the real router is replayed through the Coq step function (vm_compute)
   and every intermediate layout, the emitted circuit and the final layout are compared;
   block_decomposition's output is checked with the verified reorder checker.
3. spec-level output checks independent of the model: (a) every two-qubit gate on an edge,
   (b) final layout bijective, (c) operator  out = P . in  by exact integer simulation
   (Gaussian-integer Unitary gates + exact named gates), (d) wire names kept, final
   measurements on the same logical qubits / registers.
4. histories (long-lived objects; C09/PropsAttrs.v): (a) circuits whose wire names were set / reset (constructor,
   setter, None) and that were copied / deep-copied / added before routing: the attribute state is compared with
   the Coq model "history = fresh circuit with the last assigned names" (live names and the names of
   Circuit(**init_kwargs)) and the routed output with the live names; (b) ONE router object reused, with the
   connectivity re-assigned (must behave like a fresh router) and NOT re-assigned (default-ordered names proved and
   checked harmless; after permuted names = known finding reused_no_reassign); (c) deep snapshots of every input
   (circuit attributes, init_kwargs, gate objects, graph) before / after each call, outputs of earlier calls
   re-compared after later calls.
5. round 5.  (family F, C09/PropsGraphRepr.v) the connectivity graph in another REPRESENTATION: in every stream ~65 % of the
   graphs are handed over as nx.Graph / a user subclass / a symmetric nx.DiGraph, nodes and edges inserted in random
   order and orientation, with edge attributes (`weight` in {0.25, 0.5, 0.75, 1, 2, 3}: weighted and unweighted
   distances differ, NON-adjacent nodes at weighted distance exactly 1; length, fidelity, distance, name, layer ...),
   node attributes (weight, layer, pos ...) and graph attributes; plus a deterministic weighted corpus (8 weight
   profiles x 6 shapes x label styles x cyclic wire order x all routers).  The spec-level checks are unchanged:
   executability is about the EDGES of the user's graph.  (family D) deterministic corpus of control-sharing /
   target-sharing triples of two-qubit blocks (CNOT, CZ, CY, CRX, CRY, CRZ, CU1, SWAP, iSWAP, FSWAP, RXX in both
   orientations, optional one-qubit gate on the shared qubit) + random controlled-gate circuits; new spec-level check
   `blocks_operator`: the gates of block_decomposition(c) in block order implement c's operator (exact).
   Router calls run under a time limit that cannot be swallowed (BaseException, re-firing) and shrinks after repeated
   time-outs.
"""
STATIC = ["C09/Props", "C09/ModelCheck", "C09/ModelDag", "C09/InstMat", "C09/PropsAttrs", "C09/PropsGraphRepr"]
import itertools
import json
import os
import random
import signal
import time

import networkx as nx
import numpy as np

from lib import vcore

LIM = 2 ** 50


# ------------------------------------------------------------------ timeouts
class RouterTimeout(BaseException):
    """BaseException: a time limit must not be swallowed by an `except Exception` somewhere below the router
    (networkx / qibo internals); the timer also re-fires every 50 ms until the call has been left"""


def _alarm(signum, frame):
    raise RouterTimeout()


def with_timeout(seconds, fn, *a, **k):
    old = signal.signal(signal.SIGALRM, _alarm)
    signal.setitimer(signal.ITIMER_REAL, seconds, 0.05)
    try:
        return fn(*a, **k)
    finally:
        signal.setitimer(signal.ITIMER_REAL, 0)
        signal.signal(signal.SIGALRM, old)


# ------------------------------------------------------------------ graphs
def _relabel(g, labels):
    nodes = sorted(g.nodes())
    m = dict(zip(nodes, labels))
    h = nx.Graph()
    h.add_nodes_from(m[v] for v in nodes)
    h.add_edges_from((m[a], m[b]) for a, b in g.edges())
    return h


def base_graphs(nmax, rng, nrandom):
    out = []
    for n in range(2, nmax + 1):
        out.append((f"line{n}", nx.path_graph(n)))
        if n >= 3:
            out.append((f"ring{n}", nx.cycle_graph(n)))
            out.append((f"star{n}", nx.star_graph(n - 1)))
    for (a, b) in ((2, 2), (2, 3), (2, 4), (3, 3)):
        if a * b <= nmax:
            out.append((f"grid{a}x{b}", nx.convert_node_labels_to_integers(nx.grid_2d_graph(a, b))))
    for k in range(nrandom):
        n = rng.randint(3, nmax)
        g = nx.Graph()
        g.add_nodes_from(range(n))
        order = list(range(n))
        rng.shuffle(order)
        for i in range(1, n):
            g.add_edge(order[i], order[rng.randrange(i)])
        for _ in range(rng.randint(0, n // 2)):
            a, b = rng.sample(range(n), 2)
            g.add_edge(a, b)
        out.append((f"rand{n}_{k}", g))
    return out


def label_variants(g, rng, how):
    n = g.number_of_nodes()
    if how == "id":
        return g
    if how == "perm":
        lab = list(range(n))
        rng.shuffle(lab)
        return _relabel(g, lab)
    if how == "sparse":
        lab = rng.sample(range(0, 3 * n + 2), n)
        return _relabel(g, lab)
    if how == "str":
        lab = [f"q{c}" for c in rng.sample(range(0, 2 * n), n)]
        return _relabel(g, lab)
    if how == "mixed":
        lab = [f"A{i}" if rng.random() < 0.5 else 100 + i for i in range(n)]
        rng.shuffle(lab)
        return _relabel(g, lab)
    raise ValueError(how)


# ------------------------------------------------------------------ circuits (serialisable specs)
NAMED1 = ["X", "Y", "Z", "S", "SDG"]
NAMED2 = ["CNOT", "CZ", "CY", "SWAP", "iSWAP", "FSWAP"]


def rand_gi_matrix(rng, k):
    """generalised permutation matrix with entries in {+-1, +-i} plus one extra unit entry:
    growth <= 2 per gate, not symmetric under qubit exchange"""
    d = 2 ** k
    units = [(1, 0), (-1, 0), (0, 1), (0, -1)]
    perm = list(range(d))
    rng.shuffle(perm)
    m = [[(0, 0)] * d for _ in range(d)]
    for r in range(d):
        m[r][perm[r]] = rng.choice(units)
    r, c = rng.randrange(d), rng.randrange(d)
    if m[r][c] == (0, 0):
        m[r][c] = rng.choice(units)
    return [[list(e) for e in row] for row in m]


def gen_gates(rng, n, ngates, p2=0.55, pmid=0.0, style="mixed"):
    gs = []
    hot = rng.sample(range(n), min(n, 3))
    for _ in range(ngates):
        r = rng.random()
        if r < pmid:
            gs.append(["M", [rng.randrange(n)], {}])
            continue
        if n >= 2 and rng.random() < p2:
            if style == "far":
                a, b = (0, n - 1) if rng.random() < 0.5 else tuple(rng.sample(range(n), 2))
            elif style == "hot":
                a = rng.choice(hot)
                b = rng.choice([q for q in range(n) if q != a])
            else:
                a, b = rng.sample(range(n), 2)
            if rng.random() < 0.5:
                gs.append(["U", [a, b], {"m": rand_gi_matrix(rng, 2)}])
            else:
                gs.append([rng.choice(NAMED2), [a, b], {}])
        else:
            q = rng.randrange(n)
            if rng.random() < 0.6:
                gs.append(["U", [q], {"m": rand_gi_matrix(rng, 1)}])
            else:
                gs.append([rng.choice(NAMED1), [q], {}])
    return gs


def gen_trailing(rng, n):
    """trailing measurement registers: disjoint qubit groups in permuted order, some named"""
    k = rng.randint(0, n)
    qs = rng.sample(range(n), k)
    out = []
    i = 0
    r = 0
    while i < len(qs):
        w = rng.randint(1, 3)
        grp = qs[i:i + w]
        i += w
        kw = {}
        if rng.random() < 0.6:
            kw["register_name"] = f"r{r}"
        r += 1
        out.append(["M", grp, kw])
    return out


def np_matrix(m):
    return np.array([[complex(e[0], e[1]) for e in row] for row in m])


def build_gate(g):
    from qibo import gates
    kind, qs, kw = g
    if kind == "U":
        if "m0" in kw:       # constructed with m0, parameters updated to m afterwards
            gate = gates.Unitary(np_matrix(kw["m0"]), *qs, check_unitary=False)
            gate.parameters = np_matrix(kw["m"])
            return gate
        return gates.Unitary(np_matrix(kw["m"]), *qs, check_unitary=False)
    if kind == "M":
        k2 = dict(kw)
        if "basis" in k2:
            k2["basis"] = getattr(gates, k2["basis"])
        return gates.M(*qs, **k2)
    if "theta" in kw:        # parametrised named gates (CRX, CRY, CRZ, CU1, RXX ...): operator compared to 1e-9
        return getattr(gates, kind)(*qs, kw["theta"])
    return getattr(gates, kind)(*qs)


def is_approx(spec):
    return any("theta" in g[2] for g in spec["gates"])


def _new_circuit(n, attr):
    from qibo import Circuit
    return Circuit(n, wire_names=None if attr["ctor"] is None else list(attr["ctor"]),
                   density_matrix=bool(attr.get("dm", False)))


def _apply_history(c, attr, gs, mk=None):
    """gates interleaved with the wire-name assignments [pos, names|None] (pos = number of gates
    added before the assignment)"""
    ops = sorted(attr["ops"], key=lambda o: o[0])
    j = 0
    for i, g in enumerate(gs):
        while j < len(ops) and ops[j][0] <= i:
            c.wire_names = None if ops[j][1] is None else list(ops[j][1])
            j += 1
        c.add((mk or build_gate)(g))
    while j < len(ops):
        c.wire_names = None if ops[j][1] is None else list(ops[j][1])
        j += 1
    return c


def build_circuit(spec, raw=None, mk=None):
    """spec["attr"] (optional) = history of attribute operations on the circuit object before it is
    routed: {"ctor": names|None, "dm": bool, "ops": [[pos, names|None], ...], "derive": None|"copy"|
    "deepcopy"|"add"}; the live wire names after the history are spec["wire_names"].
    raw: list receiving the circuit objects that carry the history (before derive)"""
    from qibo import Circuit
    attr = spec.get("attr")
    n = spec["n"] if "n" in spec else spec["k"]
    mk = mk or build_gate
    if not attr:
        c = Circuit(n, wire_names=list(spec["wire_names"]))
        for g in spec["gates"]:
            c.add(mk(g))
        return c
    gs = spec["gates"]
    derive = attr.get("derive")
    if derive == "add":
        h = attr.get("split", len(gs) // 2)
        c1 = _apply_history(_new_circuit(n, attr), attr, gs[:h], mk)
        c2 = _apply_history(_new_circuit(n, attr), attr, gs[h:], mk)
        if raw is not None:
            raw += [c1, c2]
        c = c1 + c2
    else:
        c0 = _apply_history(_new_circuit(n, attr), attr, gs, mk)
        if raw is not None:
            raw.append(c0)
        c = c0 if not derive else c0.copy(deep=(derive == "deepcopy"))
    return c


def gate_full_canon(g):
    """structural snapshot of one gate object (everything a caller can observe)"""
    from qibo import gates
    ps = []
    for x in getattr(g, "parameters", ()) or ():
        a = np.asarray(x)
        ps.append((str(a.dtype), a.shape, a.tobytes()))
    kw = json.dumps({k: v for k, v in g.init_kwargs.items()}, sort_keys=True, default=str)
    extra = ()
    if isinstance(g, gates.M):
        extra = (g.register_name, bool(g.collapse), tuple(b.__name__ if isinstance(b, type) else str(b) for b in (g.basis_gates if hasattr(g, "basis_gates") else ())))
    if isinstance(g, gates.Unitary):
        a0 = np.asarray(g.init_args[0])
        extra = (a0.tobytes(),)
    return (type(g).__name__, g.name, tuple(g.qubits), tuple(g.control_qubits), tuple(g.target_qubits), tuple(ps), kw, extra)


def circ_snapshot(c):
    """deep structural snapshot of a circuit: attributes, init_kwargs, the gate objects (identity and content)"""
    return dict(n=c.nqubits, wires=list(c.wire_names), dm=bool(c.density_matrix),
                kw={k: (list(v) if isinstance(v, list) else v) for k, v in c.init_kwargs.items()},
                ids=[id(g) for g in c.queue], queue=[gate_full_canon(g) for g in c.queue],
                meas=[(id(m), m.register_name, tuple(m.qubits)) for m in c.measurements])


def snapshot_diff(a, b):
    return [k for k in a if a[k] != b[k]]


def graph_snapshot(g):
    """deep (values serialised) snapshot: class, graph attributes, nodes in insertion order with their data,
    edges in iteration order with their data"""
    fz = lambda d: json.dumps(d, sort_keys=True, default=str)
    return (type(g).__name__, fz(g.graph), [(repr(v), fz(d)) for v, d in g.nodes(data=True)],
            [(repr(a), repr(b), fz(d)) for a, b, d in g.edges(data=True)])


class DeviceGraph(nx.Graph):
    """a user-defined subclass of networkx.Graph (family F: the same graph in another representation)"""
    vendor = "harness"


GRAPH_CLASSES = {"Graph": nx.Graph, "Sub": DeviceGraph, "DiGraph": nx.DiGraph}


def build_graph(spec):
    """spec["gattr"] (optional, family F) = REPRESENTATION of the same connectivity graph: class (nx.Graph, a
    user subclass, a symmetric nx.DiGraph), node insertion order, edge insertion order / orientation, edge
    attributes (`weight` and others), node attributes, graph attributes.  The mathematical graph (node set,
    edge set) is spec["nodes"] / spec["edges"] in every case."""
    ga = spec.get("gattr")
    if not ga:
        g = nx.Graph()
        g.add_nodes_from(spec["nodes"])
        g.add_edges_from(tuple(e) for e in spec["edges"])
        return g
    g = GRAPH_CLASSES[ga.get("cls", "Graph")]()
    g.graph.update(ga.get("graph", {}))
    nodes, edges = spec["nodes"], spec["edges"]
    nattr = ga.get("nattr") or [{}] * len(nodes)
    eattr = ga.get("eattr") or [{}] * len(edges)
    flip = ga.get("flip") or [False] * len(edges)
    for i in ga.get("node_order") or range(len(nodes)):
        g.add_node(nodes[i], **nattr[i])
    for j in ga.get("edge_order") or range(len(edges)):
        a, b = edges[j]
        if flip[j]:
            a, b = b, a
        g.add_edge(a, b, **eattr[j])
        if ga.get("cls") == "DiGraph":
            g.add_edge(b, a, **eattr[j])
    return g


WEIGHT_PROFILES = ("none", "half", "quarters", "two", "three", "one", "rand", "partial")
WEIGHT_VALUES = (0.25, 0.5, 0.75, 1, 2, 3, 1.0, 2.0)


def graph_representation(spec, rng, profile=None, cls=None):
    """a random representation of spec's graph: the weights are chosen so that weighted and unweighted distances
    differ (0.5+0.5 and 0.25+0.75 make NON-adjacent nodes sit at weighted distance exactly 1; 2 / 3 put adjacent
    nodes at a distance != 1)"""
    ne, nn = len(spec["edges"]), len(spec["nodes"])
    profile = profile or rng.choice(WEIGHT_PROFILES)
    eattr = [{} for _ in range(ne)]
    for j in range(ne):
        w = {"none": None, "half": 0.5, "quarters": (0.25, 0.75)[j % 2], "two": 2, "three": 3.0, "one": 1,
             "rand": rng.choice(WEIGHT_VALUES), "partial": rng.choice((None, 0.5, 0.5, 0.25, 0.75))}[profile]
        if w is not None:
            eattr[j]["weight"] = w
        for name, val in (("length", rng.choice((0.5, 1, 2.5))), ("fidelity", 0.99), ("distance", rng.choice((0, 1, 7))),
                          ("cost", 0.5), ("name", f"coupler{j}"), ("layer", j), ("qubits", [j, j + 1])):
            if rng.random() < 0.2:
                eattr[j][name] = val
    nattr = [{} for _ in range(nn)]
    for i in range(nn):
        for name, val in (("weight", rng.choice((0.5, 2))), ("layer", rng.randrange(3)), ("pos", [i, -i]), ("t1", 12.5 + i),
                          ("name", f"Q{i}"), ("qubits", [i])):
            if rng.random() < 0.2:
                nattr[i][name] = val
    if cls is None:
        r = rng.random()
        cls = "Graph" if r < 0.65 else ("Sub" if r < 0.88 else "DiGraph")
    if spec["router"][0] == "StarConnectivityRouter" and cls == "DiGraph":
        cls = "Sub"          # the star router counts degrees: a symmetric DiGraph is not a star for it
    return {"cls": cls, "profile": profile, "graph": rng.choice(({}, {"name": "device"}, {"weight": 0.5, "layer": 1})),
            "node_order": rng.sample(range(nn), nn), "edge_order": rng.sample(range(ne), ne),
            "flip": [rng.random() < 0.5 for _ in range(ne)], "eattr": eattr, "nattr": nattr}


def decorate(specs, rng, p=0.65):
    """family F applied to EVERY stream: each case's graph is handed over in a random representation with
    probability p (the spec-level checks do not change: executability is about the EDGES of the user's graph)"""
    k = 0
    for sp in specs:
        if "gattr" not in sp and rng.random() < p:
            sp["gattr"] = graph_representation(sp, rng)
            k += 1
    return k


def build_router(spec, graph):
    from qibo.transpiler import router as R
    name, kw = spec["router"]
    return getattr(R, name)(graph, **kw)


# ------------------------------------------------------------------ exact simulation
MARK = np.array([[1, 0], [0, 2]], dtype=complex)   # opaque, position-sensitive stand-in for M


def apply_mat(T, M, qs, n):
    k = len(qs)
    M = np.asarray(M, dtype=complex).reshape((2,) * (2 * k))
    T = np.tensordot(M, T, axes=(list(range(k, 2 * k)), list(qs)))
    # result axes: k new axes first, then the remaining axes in order
    rest = [a for a in range(n + 1) if a not in qs]
    cur = list(qs) + rest
    return np.transpose(T, [cur.index(a) for a in range(n + 1)])


def gate_matrix(g):
    from qibo import gates
    if isinstance(g, gates.Unitary):
        return np.asarray(g.parameters[0])
    return np.asarray(g.matrix())


def exact_operator(queue, n):
    """full 2^n x 2^n operator of a gate list as an exact complex128 tensor (n+1 axes)"""
    from qibo import gates
    T = np.eye(2 ** n, dtype=complex).reshape((2,) * n + (2 ** n,))
    for g in queue:
        if isinstance(g, gates.M):
            for q in g.qubits:
                T = apply_mat(T, MARK, (q,), n)
        else:
            T = apply_mat(T, gate_matrix(g), tuple(g.qubits), n)
        if not (np.abs(T.real).max() < LIM and np.abs(T.imag).max() < LIM):
            raise OverflowError("integer range exceeded")
    return T


def is_integral(T):
    return bool(np.all(T.real == np.round(T.real)) and np.all(T.imag == np.round(T.imag)))


def permuted(T, l2p, n):
    """P . T where P sends logical qubit i to physical position l2p[i]"""
    p2l = [0] * n
    for i, p in enumerate(l2p):
        p2l[p] = i
    return np.transpose(T, p2l + [n])


# ------------------------------------------------------------------ canonical forms
def gate_canon(g):
    from qibo import gates
    if isinstance(g, gates.M):
        return ["M", list(g.qubits), g.register_name, bool(g.collapse)]
    if isinstance(g, gates.Unitary):
        m = np.asarray(g.parameters[0])
        return ["U", list(g.qubits), [[int(x.real), int(x.imag)] for x in m.ravel()]]
    return [type(g).__name__, list(g.qubits)]


def queue_canon(c):
    return [gate_canon(g) for g in c.queue]


# ------------------------------------------------------------------ tracing the real router
class Tracer:
    """wraps CircuitMap.update / undo / execute_block at run time (no source hooks)"""

    def __init__(self):
        from qibo.transpiler import router as R
        self.R = R
        self.events = []
        self.saved = {}

    def __enter__(self):
        CM = self.R.CircuitMap
        ev = self.events
        for name in ("update", "undo", "execute_block"):
            self.saved[name] = getattr(CM, name)
        s_update, s_undo, s_exec = self.saved["update"], self.saved["undo"], self.saved["execute_block"]

        def update(self_, logical_swap):
            r = s_update(self_, logical_swap)
            ev.append((id(self_), "swap", tuple(int(x) for x in logical_swap), list(self_._l2p), list(self_._p2l)))
            return r

        def undo(self_):
            r = s_undo(self_)
            ev.append((id(self_), "undo", (), list(self_._l2p), list(self_._p2l)))
            return r

        def execute_block(self_, block):
            nm = block.name
            r = s_exec(self_, block)
            ev.append((id(self_), "exec", (nm,), list(self_._l2p), list(self_._p2l)))
            return r

        CM.update, CM.undo, CM.execute_block = update, undo, execute_block
        # the DAG and every front layer the routers compute
        self.dags = []
        self.saved_dag = self.R._create_dag
        s_dag = self.saved_dag

        def create_dag(pairs):
            d = s_dag(pairs)
            self.dags.append(([list(p) for p in pairs], sorted((int(a), int(b)) for a, b in d.edges)))
            return d

        self.R._create_dag = create_dag
        self.saved_front = {}
        for cls in (self.R.Sabre, self.R.ShortestPaths):
            orig = cls._update_front_layer
            self.saved_front[cls] = orig

            def upd(self_, _orig=orig):
                r = _orig(self_)
                if self_.circuit_map is not None:
                    ev.append((id(self_.circuit_map), "front", tuple(int(x) for x in self_._front_layer), None, None))
                return r

            cls._update_front_layer = upd
        return self

    def __exit__(self, *a):
        for name, f in self.saved.items():
            setattr(self.R.CircuitMap, name, f)
        self.R._create_dag = self.saved_dag
        for cls, f in self.saved_front.items():
            cls._update_front_layer = f

    def trace_of(self, circuit_map):
        return [e[1:] for e in self.events if e[0] == id(circuit_map)]


TIMEOUTS = [0]      # router calls that hit the time limit in this process: after 3 of them the limit drops to 2 s, after
                    # 10 to 0.5 s, after 30 to 0.15 s (a changed router that loops on a whole family of inputs must not
                    # stall the check; a normal call on <= 8 qubits takes milliseconds)


def _time_limit(timeout):
    k = TIMEOUTS[0]
    return timeout if k < 3 else min(timeout, 2.0 if k < 10 else (0.5 if k < 30 else 0.15))


def run_router(spec, timeout=20.0, router=None, reassign=True):
    """returns dict with routed circuit, final layout, trace, initial blocks (None for star).
    router = an existing router object to REUSE: its connectivity is (re)assigned before the call,
    exactly as Passes.__call__ / a user switching devices does (reassign=False: the router object
    is simply called again, it keeps whatever connectivity attribute the previous call left)"""
    from qibo.transpiler import router as R
    graph = build_graph(spec)
    raw = []
    circuit = build_circuit(spec, raw=raw)
    before = queue_canon(circuit)
    if router is None:
        router = build_router(spec, graph)
    elif reassign:
        router.connectivity = graph
    info = {"circuit": circuit, "graph": graph, "router": router, "before": before, "raw": raw}
    info["snap_before"] = circ_snapshot(circuit)
    info["raw_before"] = [circ_snapshot(c) for c in raw]
    info["graph_before"] = graph_snapshot(graph)
    captured = {}
    orig_init = R.CircuitMap.__init__

    def init(self_, circuit=None, blocks=None, temp=False):
        orig_init(self_, circuit, blocks, temp)
        if not temp and blocks is None and "cm" not in captured:
            captured["cm"] = self_
            captured["q_objs"] = list(circuit.queue)
            captured["block_objs"] = [(b.name, tuple(b.qubits), list(b.gates)) for b in self_.circuit_blocks()]

    R.CircuitMap.__init__ = init
    try:
        with Tracer() as tr:
            try:
                routed, layout = with_timeout(_time_limit(timeout), router, circuit)
                info["routed"], info["layout"] = routed, layout
            except RouterTimeout:
                info["timeout"] = True
                TIMEOUTS[0] += 1
            except Exception as e:  # noqa
                info["error"] = f"{type(e).__name__}: {e}"
        if "cm" in captured:
            info["trace"] = tr.trace_of(captured["cm"])
            info["dag"] = tr.dags[0] if tr.dags else None
            info["q_objs"] = captured["q_objs"]
            info["block_objs"] = captured["block_objs"]
            info["finals"] = list(getattr(router, "_final_measurements", None) or [])
    finally:
        R.CircuitMap.__init__ = orig_init
    info["after"] = queue_canon(circuit)
    info["snap_after"] = circ_snapshot(circuit)
    info["raw_after"] = [circ_snapshot(c) for c in raw]
    info["graph_after"] = graph_snapshot(graph)
    if "routed" in info:
        info["out_snap"] = (circ_snapshot(info["routed"]), sorted((repr(k), v) for k, v in info["layout"].items())
                            if isinstance(info["layout"], dict) else repr(info["layout"]))
    return info


def output_changed(info):
    """the routed circuit / final layout returned by an EARLIER call must not change afterwards"""
    if "out_snap" not in info:
        return None
    now = (circ_snapshot(info["routed"]), sorted((repr(k), v) for k, v in info["layout"].items())
           if isinstance(info["layout"], dict) else repr(info["layout"]))
    if now != info["out_snap"]:
        d = snapshot_diff(info["out_snap"][0], now[0]) + (["final_layout"] if now[1] != info["out_snap"][1] else [])
        return d
    return None


# ------------------------------------------------------------------ spec-level checks (a)-(d)
def spec_checks(spec, info):
    """returns list of (key, what, extra) violations of the property text"""
    from qibo import gates
    bad = []
    rname = spec["router"][0]
    circuit, graph = info["circuit"], info["graph"]
    n = spec["n"]
    if info.get("timeout"):
        return [(f"timeout:{rname}", "router did not terminate within the time limit", {})]
    if "error" in info:
        key = f"raises:{rname}"
        if rname == "StarConnectivityRouter" and any(g[0] == "M" and len(g[1]) > 2 for g in spec["gates"]) \
                and "more than 2 qubits" in info["error"]:
            key = f"meas3_raises:{rname}"
        return [(key, f"router raised {info['error']}", {"error": info["error"]})]
    routed, layout = info["routed"], info["layout"]
    wn = list(circuit.wire_names)
    # inputs must not be mutated (deep snapshot: attributes, init_kwargs, gate objects, the graph)
    if info["before"] != info["after"]:
        bad.append((f"mutates_input:{rname}", "the router changed the input circuit's queue", {}))
    elif "snap_before" in info:
        d = snapshot_diff(info["snap_before"], info["snap_after"])
        for b_, a_ in zip(info.get("raw_before", []), info.get("raw_after", [])):
            d += snapshot_diff(b_, a_)
        if d:
            bad.append((f"mutates_input:{rname}", f"the router changed the input circuit (fields {sorted(set(d))})", {"fields": sorted(set(d))}))
    if info.get("graph_before") != info.get("graph_after"):
        bad.append((f"mutates_graph:{rname}", "the router changed the connectivity graph object it was given", {}))
    if bool(routed.density_matrix) != bool(circuit.density_matrix):
        # not part of the property text (the operator is unaffected): recorded, not reported
        info["dm_flag_dropped"] = True
    # (d) wire names kept
    if list(routed.wire_names) != wn or routed.nqubits != n:
        bad.append((f"wire_names:{rname}", f"wire names changed: {wn} -> {routed.wire_names}", {}))
    # (b) final layout bijective, keyed by wire names
    ok_layout = (isinstance(layout, dict) and set(layout.keys()) == set(wn) and len(layout) == n
                 and sorted(layout.values()) == list(range(n)))
    if not ok_layout:
        bad.append((f"layout:{rname}", f"final layout is not a bijection wire name -> position: {layout}", {"layout": str(layout)}))
        return bad
    l2p = [int(layout[w]) for w in wn]
    # (a) every two-qubit gate on an edge
    for g in routed.queue:
        if isinstance(g, gates.M):
            continue
        if len(g.qubits) > 2:
            bad.append((f"arity:{rname}", f"{g.name} on {g.qubits}", {}))
        if len(g.qubits) == 2:
            a, b = wn[g.qubits[0]], wn[g.qubits[1]]
            if not graph.has_edge(a, b):
                what = "swap" if isinstance(g, gates.SWAP) else "gate"
                bad.append((f"nonadjacent_{what}:{rname}",
                            f"{g.name} on positions {g.qubits} = nodes ({a!r},{b!r}) which is not an edge",
                            {"gate": g.name, "positions": list(g.qubits), "nodes": [str(a), str(b)]}))
                break
    # block decomposition judged by the operator: the blocks in order implement the (measurement-detached) input
    if info.get("block_objs") is not None and info.get("q_objs") is not None and n <= 6:
        try:
            flat = [g for (_, _, gl) in info["block_objs"] for g in gl]
            UB, UQ = exact_operator(flat, n), exact_operator(info["q_objs"], n)
            if not (np.array_equal(UB, UQ) if (is_integral(UB) and is_integral(UQ)) else np.allclose(UB, UQ, atol=1e-9)) \
                    and classify(spec) not in ("mid_multi_meas",):
                bad.append(("blocks_operator", "the gates of block_decomposition(circuit), in block order, do not implement the circuit's "
                            "operator: [" + "; ".join(f"{b_[0]}:" + ",".join(f"{g.name}{tuple(g.qubits)}" for g in b_[2]) for b_ in info["block_objs"])
                            + "] vs queue [" + ", ".join(f"{g.name}{tuple(g.qubits)}" for g in info["q_objs"]) + "]", {}))
        except OverflowError:
            pass
    # (c) operator  out = P . in  (exact)
    try:
        U = exact_operator(circuit.queue, n)
        V = exact_operator(routed.queue, n)
        exact = is_integral(U) and is_integral(V)
        if not exact and classify(spec) != "meas_basis" and not is_approx(spec):
            bad.append((f"inexact:{rname}", "simulation left the integers (harness problem)", {}))
        elif (not np.array_equal(V, permuted(U, l2p, n))) if exact else (not np.allclose(V, permuted(U, l2p, n), atol=1e-9)):
            key = f"{classify(spec) or 'operator'}:{rname}"
            bad.append((key, "routed circuit is not P.U for the reported final layout (exact integer operator comparison)",
                        {"l2p": l2p}))
    except OverflowError:
        pass
    # cross-check of the harness simulator against the real numpy backend (measurement-free circuits)
    try:
        if not any(isinstance(g, gates.M) for g in routed.queue) and n <= 6 and not routed.density_matrix:
            from qibo.backends import NumpyBackend
            rs = np.random.RandomState(len(routed.queue) * 7919 + n)
            psi = (rs.randint(-3, 4, 2 ** n) + 1j * rs.randint(-3, 4, 2 ** n)).astype(complex)
            got = np.asarray(NumpyBackend().execute_circuit(routed, initial_state=psi.copy()).state())
            mine = exact_operator(routed.queue, n).reshape(2 ** n, 2 ** n) @ psi
            if not (np.allclose(got, mine, atol=1e-9) if is_approx(spec) else np.array_equal(got, mine)):
                bad.append((f"backend_vs_harness:{rname}", "real numpy backend and the harness simulator disagree on the routed circuit", {}))
            info["backend_checked"] = True
    except OverflowError:
        pass
    # (d) final measurements: same registers, same logical qubits, same order
    want = [(m.register_name, tuple(l2p[q] for q in m.qubits)) for m in circuit.measurements]
    got = [(m.register_name, tuple(m.qubits)) for m in routed.measurements]
    if want != got:
        key = f"{classify(spec) or 'measurements'}:{rname}"
        bad.append((key, f"final measurement registers differ: expected {want}, got {got}", {"want": str(want), "got": str(got)}))
    else:
        rin = {m.register_name: m for m in circuit.measurements}
        for m in routed.measurements:
            o = rin[m.register_name]
            kin = {k: v for k, v in o.init_kwargs.items() if k != "register_name"}
            kout = {k: v for k, v in m.init_kwargs.items() if k != "register_name"}
            if kin != kout:
                bad.append((f"measurement_kwargs:{rname}", f"measurement {m.register_name}: {kin} -> {kout}", {}))
                break
    return bad


def _is_mid(gs, i):
    return any(g[0] != "M" for g in gs[i + 1:])


# ------------------------------------------------------------------ Coq encoding
HEADER = ("From Coq Require Import List Arith Bool.\nImport ListNotations.\n"
          "From QV Require Import C09.Trace C09.ModelRouter C09.ModelBlocks C09.ModelStar C09.ModelCheck C09.ModelDag.\n")


def nl(xs):
    return "[" + "; ".join(str(int(x)) for x in xs) + "]"


def cgate(kind, tag, qs):
    return f"(mkG {kind} {tag} {nl(qs)})"


def cgates(gs):
    return "[" + "; ".join(gs) + "]"


def kind_of(g):
    from qibo import gates
    return "KM" if isinstance(g, gates.M) else "KU"


def payload(g):
    """everything that identifies a gate except its qubits"""
    from qibo import gates
    if isinstance(g, gates.M):
        kw = {k: v for k, v in g.init_kwargs.items() if k != "register_name"}
        return ("M", json.dumps(kw, sort_keys=True, default=str), g.init_kwargs.get("register_name"))
    if isinstance(g, gates.Unitary):
        return ("U", np.asarray(g.parameters[0]).tobytes())
    return (type(g).__name__, json.dumps(g.init_kwargs, sort_keys=True, default=str))


def parse_coq(v):
    """Coq value made of tuples / lists / nats / bools -> Python"""
    t = v.replace(";", ",").replace("true", "True").replace("false", "False")
    return eval(t, {"__builtins__": {}}, {})


def positions(spec):
    return {w: i for i, w in enumerate(spec["wire_names"])}


def cgraph(spec):
    pos = positions(spec)
    return "[" + "; ".join(f"({pos[_k(a)]}, {pos[_k(b)]})" for a, b in spec["edges"]) + "]"


def _k(x):
    return x


def model_terms(spec, info):
    """Coq terms for one traced Sabre / ShortestPaths run; None if not applicable"""
    if "trace" not in info or "routed" not in info:
        return None
    n = spec["n"]
    q_objs = info["q_objs"]
    uid = {id(g): i + 1 for i, g in enumerate(q_objs)}
    objs = {i + 1: g for i, g in enumerate(q_objs)}
    finals = info["finals"]
    for j, g in enumerate(finals):
        uid[id(g)] = len(q_objs) + 1 + j
        objs[len(q_objs) + 1 + j] = g
    split = False
    items = []
    for (name, qs, gl) in info["block_objs"]:
        enc = []
        for g in gl:
            if id(g) not in uid:
                split = True
                # a measurement produced by _split_multi_qubit_measurements: find its parent
                par = [u for u, o in objs.items() if kind_of(o) == "KM" and len(o.qubits) > 1 and g.qubits[0] in o.qubits]
                enc.append(cgate("KM", par[0] if par else 0, g.qubits))
            else:
                enc.append(cgate(kind_of(g), uid[id(g)], g.qubits))
        items.append(f"(mkI {int(name)} {nl(qs)} {cgates(enc)})")
    ops, logged = [], []
    executed, snaps = [], []
    for (what, args, l2p, p2l) in info["trace"]:
        if what == "front":
            snaps.append(f"({nl(executed)}, {nl(args)})")
            continue
        if what == "exec":
            executed.append(int(args[0]))
        if what == "swap":
            ops.append(f"(OSwap {args[0]} {args[1]})")
        elif what == "undo":
            ops.append("OUndo")
        else:
            ops.append(f"(OExec {int(args[0])})")
        logged.append(f"({nl(l2p)}, {nl(p2l)})")
    body = cgates([cgate(kind_of(g), uid[id(g)], g.qubits) for g in q_objs])
    fin = cgates([cgate("KM", uid[id(g)], g.qubits) for g in finals])
    its = "[" + "; ".join(items) + "]"
    t_replay = f"replay {n} {cgraph(spec)} {its} {fin} {cgates(ops)} {cgates(logged)}"
    t_blocks = f"blocks_check {n} {body} {its}"
    t_dag = None
    if info.get("dag"):
        pairs, edges = info["dag"]
        t_dag = ("dag_check [" + "; ".join(nl(p) for p in pairs) + "] [" + "; ".join(f"({a}, {b})" for a, b in edges) + "] "
                 + nl(executed) + " [" + "; ".join(snaps) + "]")
    return {"replay": t_replay, "blocks": t_blocks, "dag": t_dag, "nsnaps": len(snaps), "objs": objs, "split": split,
            "nops": len(ops), "nblocks": len(items), "nundo": sum(1 for o in ops if o == "OUndo")}


def compare_model_out(model_out, real_queue, objs):
    """model_out: [(kindnat, tag, qubits)] ; returns None or a description of the first difference"""
    from qibo import gates
    if len(model_out) != len(real_queue):
        return f"length {len(model_out)} (model) vs {len(real_queue)} (implementation)"
    for i, ((k, tag, qs), g) in enumerate(zip(model_out, real_queue)):
        if list(qs) != list(g.qubits):
            return f"gate {i}: qubits {qs} (model) vs {g.name}{g.qubits} (implementation)"
        if tag == 0:
            if not isinstance(g, gates.SWAP):
                return f"gate {i}: inserted SWAP (model) vs {g.name} (implementation)"
        elif payload(objs[tag]) != payload(g):
            return f"gate {i}: different gate content, {objs[tag].name} (model) vs {g.name}"
    return None


def star_terms(spec, info):
    circuit = info["circuit"]
    n = spec["n"]
    pos = positions(spec)
    graph = info["graph"]
    mids = [v for v in graph.nodes if graph.degree(v) == n - 1]
    if n != 5 or len(mids) != 1:
        return None
    q = list(circuit.queue)
    objs = {i + 1: g for i, g in enumerate(q)}
    body = cgates([cgate(kind_of(g), i + 1, g.qubits) for i, g in enumerate(q)])
    return {"star": f"star_check {n} {pos[mids[0]]} {cgraph(spec)} {body}", "objs": objs}


# ------------------------------------------------------------------ case generation
def sabre_kw(rng):
    return dict(lookahead=rng.choice([0, 1, 2, 3]), decay_lookahead=rng.choice([0.0, 0.6, 1.0]),
                delta=rng.choice([0.001, 0.2]), swap_threshold=rng.choice([0.5, 1.5, 3.0]),
                seed=rng.randrange(1000))


def fix_mid_measurements(gs, rng):
    """every mid-circuit M gets a later gate on its qubit (so that it is a genuine mid-circuit,
    collapsing measurement already in the input)"""
    out = list(gs)
    for i, g in enumerate(gs):
        if g[0] == "M":
            q = g[1][0]
            if not any(h[0] != "M" and q in h[1] for h in gs[i + 1:]):
                out.append([rng.choice(NAMED1), [q], {}])
    return out


def mk_spec(g, wn, gs, router):
    return dict(n=g.number_of_nodes(), wire_names=list(wn), nodes=list(g.nodes()),
                edges=[list(e) for e in g.edges()], gates=gs, router=router)


def main_cases(tier, rng):
    nmax = 6 if tier == "quick" else 8
    nsim = 6
    budget = 900 if tier == "quick" else 4000
    graphs = base_graphs(nmax, rng, 8 if tier == "quick" else 30)
    small = [(nm, g) for nm, g in graphs if g.number_of_nodes() <= nsim]
    cases = []
    # deterministic adversarial part: one far gate / chains on lines, rings, grids
    for nm, g0 in graphs:
        n = g0.number_of_nodes()
        if not (nm.startswith("line") or nm.startswith("ring") or nm.startswith("grid")) or n < 3:
            continue
        nodes = sorted(g0.nodes())
        for router in (["ShortestPaths", {"seed": 1}], ["Sabre", {"seed": 1}]):
            gs = [["CZ", [0, n - 1], {}]]
            cases.append(("far1:" + nm, mk_spec(g0, nodes, gs, router)))
            gs = [["CNOT", [n - 1, 0], {}], ["U", [0, n // 2], {"m": rand_gi_matrix(rng, 2)}],
                  ["CNOT", [n // 2, n - 1], {}], ["M", [n - 1, 0], {"register_name": "out"}]]
            cases.append(("far3:" + nm, mk_spec(g0, nodes, gs, router)))
    # random part
    hows = ["id", "perm", "sparse", "str", "mixed"]
    while len(cases) < budget:
        nm, g0 = rng.choice(graphs if rng.random() < 0.3 else small)
        g = label_variants(g0, rng, rng.choice(hows))
        n = g.number_of_nodes()
        wn = list(g.nodes())
        rng.shuffle(wn)
        ng = rng.randint(1, 16 if n <= nsim else 10)
        gs = gen_gates(rng, n, ng, pmid=rng.choice([0, 0, 0.15]), style=rng.choice(["mixed", "far", "hot"]))
        gs = fix_mid_measurements(gs, rng)
        if rng.random() < 0.6:
            gs += gen_trailing(rng, n)
        r = rng.random()
        if r < 0.55:
            router = ["Sabre", sabre_kw(rng)]
        else:
            router = ["ShortestPaths", {"seed": rng.randrange(1000)}]
        cases.append((nm, mk_spec(g, wn, gs, router)))
    # star router on 5-node stars with every labelling style
    star = nx.star_graph(4)
    for k in range(120 if tier == "quick" else 500):
        g = label_variants(_relabel(star, rng.sample(range(5), 5)), rng, rng.choice(hows))
        wn = list(g.nodes())
        rng.shuffle(wn)
        gs = gen_gates(rng, 5, rng.randint(1, 14), pmid=rng.choice([0, 0.15]), style=rng.choice(["mixed", "hot"]))
        gs = fix_mid_measurements(gs, rng)
        if rng.random() < 0.6:
            gs += gen_trailing(rng, 5)
        cases.append(("star5", mk_spec(g, wn, gs, ["StarConnectivityRouter", {}])))
    return cases


def defect_cases(rng):
    """small dedicated streams for behaviours outside the generators above"""
    out = []
    line3, line4 = nx.path_graph(3), nx.path_graph(4)
    star = nx.star_graph(4)
    R3 = (["Sabre", {"seed": 3}], ["ShortestPaths", {"seed": 3}])
    # gates.Unitary whose matrix was updated after construction
    m0, m1 = rand_gi_matrix(rng, 2), rand_gi_matrix(rng, 2)
    gs = [["U", [1, 2], {"m0": m0, "m": m1}], ["CZ", [3, 4], {}]]
    out.append(("stale", mk_spec(star, [0, 1, 2, 3, 4], gs, ["StarConnectivityRouter", {}])))
    for r in R3:
        out.append(("stale", mk_spec(line3, [0, 1, 2], [["U", [0, 2], {"m0": m0, "m": m1}]], r)))
    # regression: a measurement on three qubits after a two-qubit gate that needs a SWAP (star router)
    gs = [["CZ", [1, 2], {}], ["M", [0, 1, 2], {"register_name": "r"}]]
    out.append(("meas3", mk_spec(star, [0, 1, 2, 3, 4], gs, ["StarConnectivityRouter", {}])))
    # regression: a qubit that has to move more than one step (ShortestPaths._add_swaps)
    line6 = nx.path_graph(6)
    for mp_seed in range(4):
        out.append(("far", mk_spec(line6, list(range(6)), [["CZ", [0, 5], {}], ["CNOT", [5, 1], {}]], ["ShortestPaths", {"seed": mp_seed}])))
    # measurement in a non-Z basis (basis rotation gates are in the queue)
    for basis in ("X", "Y"):
        gs = [["CZ", [0, 2], {}], ["M", [0], {"basis": basis}]]
        for r in R3:
            out.append(("basis", mk_spec(line3, [0, 1, 2], gs, r)))
        gs = [["CZ", [1, 2], {}], ["M", [1], {"basis": basis}]]
        out.append(("basis", mk_spec(star, [0, 1, 2, 3, 4], gs, ["StarConnectivityRouter", {}])))
    # multi-qubit measurement in the middle of the queue
    gs = [["CZ", [0, 3], {}], ["M", [0, 1], {"register_name": "a"}], ["X", [0], {}], ["CZ", [1, 3], {}],
          ["M", [2], {"register_name": "b"}]]
    for r in R3:
        out.append(("midmulti", mk_spec(line4, [0, 1, 2, 3], gs, r)))
    gs = [["CZ", [0, 1], {}], ["M", [2, 3], {"register_name": "a"}], ["CZ", [0, 1], {}]]
    for r in R3:
        out.append(("midmulti", mk_spec(line4, [0, 1, 2, 3], gs, r)))
    # a non-collapsing measurement that is final on its qubit but not at the end of the queue
    gs = [["CZ", [0, 1], {}], ["M", [1], {"register_name": "a"}], ["CZ", [0, 2], {}], ["M", [0], {"register_name": "b"}]]
    for r in R3:
        out.append(("nontrailing", mk_spec(line3, [0, 1, 2], gs, r)))
    gs = [["M", [0], {"register_name": "a"}], ["CZ", [1, 2], {}], ["M", [1], {"register_name": "b"}]]
    out.append(("nontrailing", mk_spec(star, [0, 1, 2, 3, 4], gs, ["StarConnectivityRouter", {}])))
    return out


# ------------------------------------------------------------------ round 5: block-order corpus, weighted graphs
CTRL_TYPES = (("CNOT", {}), ("CZ", {}), ("CY", {}), ("CRX", {"theta": 0.7}), ("CRY", {"theta": 1.1}), ("CRZ", {"theta": -0.4}),
              ("CU1", {"theta": 0.9}), ("SWAP", {}), ("iSWAP", {}), ("FSWAP", {}), ("RXX", {"theta": 0.3}))


def block_triples(tier):
    """deterministic corpus: three two-qubit blocks A, B, C with A and C on the same pair and B sharing exactly ONE
    qubit with it (as control or as target of A / B / C, all orientations), optionally followed by a one-qubit gate
    on the shared qubit: every answer to 'may C be fused with A across B?' other than 'no' breaks the operator for
    some member.  Graphs: the triangle (no SWAP needed: pure block order) and the line; routers alternate."""
    types = CTRL_TYPES if tier != "quick" else CTRL_TYPES[:5] + CTRL_TYPES[7:9]
    out = []
    k = 0
    tri, line = nx.complete_graph(3), nx.path_graph(3)
    asym1 = [[[0, 0], [0, 1]], [[1, 0], [0, 0]]]        # one-qubit gate [[0, i],[1, 0]] (not symmetric, not diagonal)
    for (ta, ka), (tb, kb), (tc, kc) in itertools.product(types, repeat=3):
        # orientations cycle deterministically so that every (type, type) pair meets every orientation pair
        for rep in range(2):
            o = (k * 5 + rep * 3) % 16
            oa, ob, oc, s = o & 1, (o >> 1) & 1, (o >> 2) & 1, (o >> 3) & 1
            k += 1
            pa = [0, 1][::-1] if oa else [0, 1]
            pb = [s, 2][::-1] if ob else [s, 2]
            pc = [0, 1][::-1] if oc else [0, 1]
            gs = [[ta, pa, dict(ka)], [tb, pb, dict(kb)], [tc, pc, dict(kc)]]
            if k % 3 == 0:
                gs.append(["U", [s], {"m": asym1}])
            if k % 7 == 0:
                gs.insert(0, ["U", [2], {"m": asym1}])
            g = tri if k % 2 else line
            router = ["ShortestPaths", {"seed": k % 5}] if k % 4 < 2 else ["Sabre", {"seed": k % 5, "lookahead": k % 3}]
            out.append(("triple", mk_spec(g, [0, 1, 2], gs, router)))
    # the orientation-complete core: control-sharing / target-sharing with the asymmetric gates
    core = (("CNOT", {}), ("CRX", {"theta": 0.7}), ("CZ", {}), ("SWAP", {}))
    for (ta, ka), (tb, kb), (tc, kc) in itertools.product(core[:3], core[:3], core):
        for o in range(16):
            oa, ob, oc, s = o & 1, (o >> 1) & 1, (o >> 2) & 1, (o >> 3) & 1
            gs = [[ta, [1, 0] if oa else [0, 1], dict(ka)], [tb, [2, s] if ob else [s, 2], dict(kb)],
                  [tc, [1, 0] if oc else [0, 1], dict(kc)]]
            k += 1
            router = ["ShortestPaths", {"seed": 0}] if k % 2 else ["Sabre", {"seed": 0}]
            out.append(("triple", mk_spec(tri if o % 2 else line, [0, 1, 2], gs, router)))
    return out


def ctrl_cases(tier, rng):
    """random circuits made (almost) only of controlled gates in random orientation, few qubits: blocks that share
    only a control / only a target are frequent"""
    out = []
    for k in range(150 if tier == "quick" else 600):
        n = rng.randint(3, 5)
        g0 = rng.choice([nx.path_graph(n), nx.cycle_graph(n), nx.star_graph(n - 1), nx.complete_graph(n)])
        g = label_variants(g0, rng, rng.choice(["id", "perm", "str", "mixed"]))
        wn = list(g.nodes())
        rng.shuffle(wn)
        gs = []
        for _ in range(rng.randint(3, 9)):
            r = rng.random()
            if r < 0.8:
                t, kw = rng.choice(CTRL_TYPES[:7]) if rng.random() < 0.8 else rng.choice(CTRL_TYPES)
                gs.append([t, rng.sample(range(n), 2), dict(kw)])
            elif r < 0.9:
                gs.append(["U", [rng.randrange(n)], {"m": rand_gi_matrix(rng, 1)}])
            else:
                gs.append([rng.choice(NAMED1), [rng.randrange(n)], {}])
        router = ["Sabre", sabre_kw(rng)] if k % 2 else ["ShortestPaths", {"seed": rng.randrange(1000)}]
        out.append(("ctrl", mk_spec(g, wn, gs, router)))
    return out


def weighted_cases(tier, rng):
    """family F, deterministic part: every weight profile on lines / rings / stars / grids / a tree, as nx.Graph, a
    user subclass and a symmetric DiGraph, integer / string / mixed labels, wire names in a CYCLIC (non-involutive)
    order, far gates that need SWAPs; all three routers"""
    out = []
    shapes = [("line5", nx.path_graph(5)), ("ring6", nx.cycle_graph(6)), ("star5", nx.star_graph(4)),
              ("grid2x3", nx.convert_node_labels_to_integers(nx.grid_2d_graph(2, 3))), ("line4", nx.path_graph(4)),
              ("tree6", nx.Graph([(0, 1), (1, 2), (1, 3), (3, 4), (3, 5)]))]
    k = 0
    for nm, g0 in shapes:
        n = g0.number_of_nodes()
        for profile in WEIGHT_PROFILES:
            for how in ("id", "str", "mixed"):
                k += 1
                if tier == "quick" and how != "id" and (k % 2):
                    continue
                g = label_variants(g0, rng, how)
                nodes = list(g.nodes())
                wn = nodes[1:] + nodes[:1] if k % 2 else nodes          # cyclic shift: not an involution for n >= 3
                far = [["CNOT", [0, n - 1], {}], ["CZ", [n - 1, n // 2], {}], ["U", [0, n // 2], {"m": rand_gi_matrix(rng, 2)}],
                       ["CNOT", [1, n - 1], {}], ["CY", [n - 2, 0], {}], ["M", [n - 1, 0], {"register_name": "out"}]]
                routers = [["Sabre", {"seed": k % 7, "lookahead": k % 3}], ["ShortestPaths", {"seed": k % 7}]]
                if nm == "star5":
                    routers.append(["StarConnectivityRouter", {}])
                for router in routers:
                    sp = mk_spec(g, wn, far, router)
                    sp["gattr"] = graph_representation(sp, rng, profile=profile, cls=("Graph", "Sub", "DiGraph", "Graph")[k % 4])
                    out.append(("weighted:" + nm, sp))
    return out


def router_histories(tier, rng):
    """ONE router object used for 2-4 calls; the connectivity CHANGES between the calls (different
    graph / different star centre on the same node names, or a relabelled device), re-assigned
    through router.connectivity before every call as Passes.__call__ does"""
    out = []
    nh = 45 if tier == "quick" else 200
    for h in range(nh):
        kind = ("StarConnectivityRouter", "Sabre", "ShortestPaths")[h % 3]
        if kind == "StarConnectivityRouter":
            n = 5
            names = rng.choice([list(range(5)), rng.sample(range(12), 5), [f"q{i}" for i in rng.sample(range(9), 5)]])
            rkw = {}
        else:
            n = rng.randint(3, 6)
            names = rng.choice([list(range(n)), rng.sample(range(3 * n), n), [f"q{i}" for i in rng.sample(range(2 * n), n)]])
            rkw = sabre_kw(rng) if kind == "Sabre" else {"seed": rng.randrange(1000)}
        calls = []
        centres = rng.sample(range(n), min(n, 4))
        for c in range(rng.randint(2, 4)):
            if kind == "StarConnectivityRouter":
                ctr = centres[c % len(centres)]          # a different centre on the same node names
                edges = [[names[ctr], names[j]] for j in range(n) if j != ctr]
                g = nx.Graph(); g.add_nodes_from(names); g.add_edges_from(tuple(e) for e in edges)
            else:
                base = rng.choice([nx.path_graph(n), nx.cycle_graph(n) if n >= 3 else nx.path_graph(n), nx.star_graph(n - 1)])
                perm = rng.sample(range(n), n)
                g = nx.Graph(); g.add_nodes_from(names)
                g.add_edges_from((names[perm[a]], names[perm[b]]) for a, b in base.edges())
            wn = list(names)
            rng.shuffle(wn)
            gs = gen_gates(rng, n, rng.randint(2, 10), pmid=0, style=rng.choice(["mixed", "far", "hot"]))
            if rng.random() < 0.5:
                gs += gen_trailing(rng, n)
            calls.append(mk_spec(g, wn, gs, [kind, rkw]))
        out.append({"router": [kind, rkw], "calls": calls})
    return out


def noreassign_histories(tier, rng):
    """ONE router object built with its graph and then simply CALLED several times (the connectivity is not
    assigned again) on circuits whose wire names are the integers 0..n-1 in default or permuted order.
    Sabre / ShortestPaths overwrite self.connectivity with the relabelled graph (known finding
    reused_no_reassign): calls after a call with non-default order are 'tainted'"""
    out = []
    line5 = nx.path_graph(5)
    for kind, rkw in (("Sabre", {"seed": 0}), ("ShortestPaths", {"seed": 0})):
        gs = [["CZ", [0, 1], {}], ["CZ", [1, 4], {}], ["CZ", [0, 3], {}]]
        out.append({"router": [kind, rkw], "reassign": False,
                    "calls": [mk_spec(line5, [2, 0, 1, 3, 4], gs, [kind, rkw]) for _ in range(2)]})
    nh = 30 if tier == "quick" else 120
    for h in range(nh):
        kind = ("StarConnectivityRouter", "Sabre", "ShortestPaths")[h % 3]
        n = 5 if kind == "StarConnectivityRouter" else rng.randint(3, 6)
        rkw = {} if kind == "StarConnectivityRouter" else (sabre_kw(rng) if kind == "Sabre" else {"seed": rng.randrange(1000)})
        base = nx.star_graph(4) if kind == "StarConnectivityRouter" else rng.choice([nx.path_graph(n), nx.cycle_graph(n), nx.star_graph(n - 1)])
        g = _relabel(base, rng.sample(range(n), n))
        ncalls = rng.randint(2, 4)
        first_perm = rng.randint(1, ncalls)           # calls before this index use the default order
        calls = []
        for c in range(ncalls):
            wn = list(range(n))
            if c >= first_perm or (kind == "StarConnectivityRouter" and rng.random() < 0.7):
                rng.shuffle(wn)
            gs = gen_gates(rng, n, rng.randint(2, 9), pmid=0, style=rng.choice(["mixed", "far", "hot"]))
            if rng.random() < 0.5:
                gs += gen_trailing(rng, n)
            calls.append(mk_spec(g, wn, gs, [kind, rkw]))
        out.append({"router": [kind, rkw], "reassign": False, "calls": calls})
    return out


def run_router_history(hspec, timeout=20.0):
    """[(spec, info)]: the calls of one router object; connectivity re-assigned before each call
    (hspec["reassign"] False: built once with the graph of the first call, then only called).
    info["tainted"]: an earlier call of a non-reassigned Sabre/ShortestPaths had non-default wire-name order;
    info["later_change"]: fields of this call's OUTPUT that changed during later calls"""
    first = hspec["calls"][0]
    router = build_router(first, build_graph(first))
    reassign = hspec.get("reassign", True)
    res = []
    tainted = False
    for sp in hspec["calls"]:
        info = run_router(sp, timeout=timeout, router=router, reassign=reassign)
        info["tainted"] = tainted
        if not reassign and sp["router"][0] != "StarConnectivityRouter" and list(sp["wire_names"]) != list(range(sp["n"])):
            tainted = True
        res.append((sp, info))
    for sp, info in res:
        info["later_change"] = output_changed(info)
    return res


# ------------------------------------------------------------------ attribute histories (family A / E)
def _other_names(rng, n, final):
    """a name list different from the final one: strings, fresh integers, or a permutation of the final names"""
    r = rng.random()
    if r < 0.35:
        return [f"{'ABCDEFGH'[i]}" for i in rng.sample(range(8), n)]
    if r < 0.6:
        return rng.sample(range(50, 50 + 3 * n), n)
    w = list(final)
    rng.shuffle(w)
    return w


def attr_history(rng, n, final, ngates, must_reset=False):
    """a history of attribute operations ending with live names == final.  final == list(range(n)) allows
    (and with must_reset forces) the history to END with `circuit.wire_names = None` after custom names"""
    can_none = list(final) == list(range(n))
    ops = []
    end_none = can_none and (must_reset or rng.random() < 0.6)
    ctor = rng.choice([None, _other_names(rng, n, final), list(final)])
    if end_none and ctor is None and rng.random() < 0.8:
        ctor = _other_names(rng, n, final)
    for _ in range(rng.randint(0, 2)):
        ops.append([rng.randint(0, ngates), rng.choice([None, _other_names(rng, n, final)])])
    if end_none:
        if ctor is None and not any(o[1] is not None for o in ops):
            ops.append([rng.randint(0, ngates), _other_names(rng, n, final)])
        ops.append([rng.choice([ngates, rng.randint(0, ngates)]), None])
    else:
        ops.append([rng.choice([ngates, rng.randint(0, ngates)]), list(final)])
    # the last assignment (in application order) must be the final one
    last = ops[-1]
    ops = [o for o in ops[:-1] if o[0] <= last[0]] + [last]
    return {"ctor": ctor, "dm": rng.random() < 0.25, "ops": ops,
            "derive": rng.choice([None, None, "copy", "deepcopy", "add"]), "split": rng.randint(0, ngates)}


def attr_cases(tier, rng):
    """circuits whose attributes were set / reset before routing; every router; graphs over the integers
    0..n-1 (so that default names are legal) and over other labels"""
    out = []
    routers = lambda: (["Sabre", sabre_kw(rng)], ["ShortestPaths", {"seed": rng.randrange(1000)}])
    # deterministic corpus: custom names then reset to None / replaced / set after default, each derive mode
    line4 = nx.path_graph(4)
    gs0 = [["X", [0], {}], ["CNOT", [0, 3], {}], ["S", [2], {}], ["CZ", [1, 3], {}], ["M", [0, 3], {"register_name": "out"}]]
    for derive in (None, "copy", "deepcopy", "add"):
        for ctor, ops in ((["A", "B", "C", "D"], [[5, None]]), (None, [[0, ["A", "B", "C", "D"]], [2, None]]),
                          ([3, 1, 2, 0], [[1, None]]), (["A", "B", "C", "D"], [[3, [3, 2, 1, 0]], [5, None]])):
            for r in (["Sabre", {"seed": 0}], ["ShortestPaths", {"seed": 0}]):
                sp = mk_spec(line4, [0, 1, 2, 3], gs0, r)
                sp["attr"] = {"ctor": ctor, "dm": False, "ops": ops, "derive": derive, "split": 2}
                out.append(("attr", sp))
    star = nx.star_graph(4)
    gs1 = [["CZ", [1, 2], {}], ["X", [3], {}], ["CNOT", [3, 4], {}], ["M", [2, 1], {"register_name": "o"}]]
    for derive in (None, "deepcopy", "add"):
        sp = mk_spec(star, [0, 1, 2, 3, 4], gs1, ["StarConnectivityRouter", {}])
        sp["attr"] = {"ctor": ["a", "b", "c", "d", "e"], "dm": False, "ops": [[4, None]], "derive": derive, "split": 2}
        out.append(("attr", sp))
    nrand = 90 if tier == "quick" else 400
    for k in range(nrand):
        kind = k % 3
        if kind == 2:
            g0 = _relabel(star, rng.sample(range(5), 5))
            router = ["StarConnectivityRouter", {}]
        else:
            n0 = rng.randint(3, 6)
            g0 = rng.choice([nx.path_graph(n0), nx.cycle_graph(n0), nx.star_graph(n0 - 1)])
            g0 = _relabel(g0, rng.sample(range(n0), n0))
            router = routers()[kind]
        n = g0.number_of_nodes()
        if k % 2 == 0:
            g, wn = g0, list(range(n))              # live names are the default ones at routing time
        else:
            g = label_variants(g0, rng, rng.choice(["perm", "sparse", "str", "mixed"]))
            wn = list(g.nodes())
            rng.shuffle(wn)
        gs = gen_gates(rng, n, rng.randint(2, 10), pmid=0, style=rng.choice(["mixed", "far", "hot"]))
        if rng.random() < 0.6:
            gs += gen_trailing(rng, n)
        sp = mk_spec(g, wn, gs, router)
        sp["attr"] = attr_history(rng, n, wn, len(gs), must_reset=(k % 4 == 0))
        if sp["attr"]["derive"] == "add":
            # trailing measurements must stay in the second summand
            nb = len([x for x in gs if not (x[0] == "M")])
            sp["attr"]["split"] = min(sp["attr"]["split"], nb)
        out.append(("attr", sp))
    return out


def _num(label, table):
    """integer labels are themselves (the default names are the integers 0..n-1), other labels are numbered from 1000"""
    if isinstance(label, (int, np.integer)) and not isinstance(label, bool):
        return int(label)
    if label not in table:
        table[label] = 1000 + len(table)
    return table[label]


def attr_correspondence(run, items, found, stats):
    """model of the circuit attribute state (C09/ModelAttrs.v) vs. the real Circuit object after the history:
    live wire names and the names of Circuit(**init_kwargs)"""
    from qibo import Circuit
    exprs, expect = [], []
    for spec, info in items:
        attr = spec["attr"]
        table = {}
        opt = lambda w: "None" if w is None else f"(Some {nl([_num(x, table) for x in w])})"
        ops = sorted(attr["ops"], key=lambda o: o[0])
        for c in info["raw"]:
            exprs.append(f"attrs_after {spec['n']} {opt(attr['ctor'])} [{'; '.join(opt(o[1]) for o in ops)}]")
            reb = Circuit(**c.init_kwargs)
            expect.append((spec, [_num(x, table) for x in c.wire_names], [_num(x, table) for x in reb.wire_names]))
    CH = 400
    for b in range(0, len(exprs), CH):
        vals = run.coq_eval(f"C09_attrs_{b // CH}.v", HEADER.replace("C09.ModelDag.", "C09.ModelDag C09.ModelAttrs."), exprs[b:b + CH], timeout=300)
        run.oblige(f"model_attrs_{b // CH}", vals is not None, "correspondence")
        if vals is None:
            run.find(f"coq:C09_attrs_{b // CH}", "generated correspondence file does not compile", concrete=False)
            continue
        for v, (spec, live, reb) in zip(vals, expect[b:b + CH]):
            mlive, mreb = parse_coq(v)
            stats["attr_states_compared"] = stats.get("attr_states_compared", 0) + 1
            if list(mlive) != live or list(mreb) != reb:
                found.setdefault("attrs:init_kwargs_out_of_sync",
                                 (f"after the attribute history the circuit has wire names {live} and Circuit(**init_kwargs) has {reb}; "
                                  f"the model (history = fresh circuit with the last assigned names) says {list(mlive)} / {list(mreb)}",
                                  {"spec": spec}))


def classify(spec):
    gs = spec["gates"]
    if any(g[0] == "U" and "m0" in g[2] for g in gs):
        return "stale_unitary"
    if any(g[0] == "M" and "basis" in g[2] for g in gs):
        return "meas_basis"
    if any(g[0] == "M" and len(g[1]) > 1 and _is_mid(gs, i) for i, g in enumerate(gs)):
        return "mid_multi_meas"
    for i, g in enumerate(gs):
        if g[0] == "M" and _is_mid(gs, i) and not any(h[0] != "M" and set(h[1]) & set(g[1]) for h in gs[i + 1:]):
            return "nontrailing_meas"
    return None


# ------------------------------------------------------------------ the check
RULE = ("cases = (connectivity graph family x node relabelling x wire-name permutation x random/adversarial "
        "circuit of exact 1- and 2-qubit gates with mid-circuit and trailing measurements x router x router "
        "settings); a case is non-trivial when the router inserted at least one SWAP or reordered gates; "
        "distinct = distinct (graph, wire names, circuit, router settings); plus histories: one router object reused "
        "(connectivity re-assigned / not re-assigned), circuits whose wire names / density_matrix flag were set and reset "
        "(constructor, setter, None) and that were copied / deep-copied / added before routing; inputs deep-snapshotted "
        "before and after every call, outputs of earlier calls re-compared after later calls; round 5: every stream's graphs also in "
        "other representations (subclass / symmetric DiGraph, insertion order, orientation, edge weights 0.25..3, other edge / node / "
        "graph attributes), weighted-graph corpus, block-order corpus of control-/target-sharing two-qubit triples (operator-judged)")


def theorem_obligations(run, theory="C09/Props"):
    ok, res = vcore.static_assumptions(theory)
    names = vcore.props_theorems(theory + ".v")
    for nm in names:
        if nm.endswith("_refuted"):
            run.refuted.append(nm[:-len("_refuted")])
        run.oblige(nm, ok and nm in res, "static theorem")
        txt = res.get(nm, "")
        if "Axioms:" in txt:
            for a in txt.split("Axioms:")[1].split():
                if a.isidentifier() or "." in a:
                    run.axioms.add(a)
    if not ok:
        run.find("coq:" + theory, "static theorems do not compile / Print Assumptions failed", concrete=False)
    run.notes.setdefault("print_assumptions", {}).update(res)


def history_checks(spec, info):
    """spec_checks + the checks that only make sense inside a multi-call history"""
    rname = spec["router"][0]
    bad = spec_checks(spec, info)
    if info.get("later_change"):
        bad.append((f"output_changed_by_later_call:{rname}",
                    f"the routed circuit / final layout returned by this call changed during LATER calls of the same router object (fields {info['later_change']})", {}))
    if info.get("tainted"):
        # known finding: Sabre/ShortestPaths overwrite self.connectivity; every failure of such a call is filed under one key
        bad = [(f"reused_no_reassign:{rname}", "router object called again WITHOUT re-assigning its connectivity after a call with "
                "non-default wire-name order: " + w, e) for (k, w, e) in bad if not k.startswith("timeout:")]
    return bad


def process(run, cases, label, found, stats, timeout, infos=None, hist_of=None):
    """run the real routers, spec checks, and collect Coq terms.
    infos / hist_of: precomputed runs of multi-call histories (one router object reused)"""
    pending = []
    for nm, spec in cases:
        info = infos[id(spec)] if infos is not None else run_router(spec, timeout=timeout)
        rname = spec["router"][0]
        stats[rname] = stats.get(rname, 0) + 1
        bad = history_checks(spec, info)
        if info.get("dm_flag_dropped"):
            stats[f"density_matrix_flag_not_kept(outside the property text):{rname}"] = stats.get(f"density_matrix_flag_not_kept(outside the property text):{rname}", 0) + 1
        nontrivial = False
        if "routed" in info:
            nsw = len(info["routed"].queue) - len(info["circuit"].queue)
            nontrivial = nsw > 0 or [payload(g) for g in info["routed"].queue] != [payload(g) for g in info["circuit"].queue]
            stats["swaps"] = stats.get("swaps", 0) + max(nsw, 0)
            if info.get("backend_checked"):
                stats["routed_circuits_also_run_on_real_backend"] = stats.get("routed_circuits_also_run_on_real_backend", 0) + 1
        run.case([spec["nodes"], spec["edges"], spec["wire_names"], spec["gates"], spec["router"]] + ([spec["attr"]] if spec.get("attr") else [])
                 + ([spec["gattr"]] if spec.get("gattr") else []), nontrivial)
        if len(run.samples) < 4 and nontrivial and len(spec["gates"]) <= 8:
            run.sample({"graph": nm, "spec": spec, "final_layout": str(info.get("layout")),
                        "routed": [[g.name, list(g.qubits)] for g in info["routed"].queue]})
        for key, what, extra in bad:
            stats["spec_fail:" + key] = stats.get("spec_fail:" + key, 0) + 1
            if key.startswith("timeout:"):
                continue     # termination is not part of the property (safety only); counted in stats
            if key not in found:
                hx = hist_of.get(id(spec), {}) if hist_of else {}
                if hx:
                    what = what + (f" [call {hx['call_index']} of a history reusing ONE router object with the connectivity re-assigned]"
                                   if hx["router_history"].get("reassign", True) else
                                   f" [call {hx['call_index']} of a history calling ONE router object repeatedly]")
                found[key] = (what, {"spec": spec, "graph": nm, **extra, **hx})
        terms = None
        if classify(spec) == "meas_basis" or info.get("tainted"):
            pass      # basis rotations are re-inserted by Circuit.add / copy: outside the router model
        elif rname == "StarConnectivityRouter":
            if "routed" in info:
                terms = star_terms(spec, info)
        else:
            terms = model_terms(spec, info)
        if terms:
            pending.append((nm, spec, info, terms))
    return pending


def coq_batches(run, pending, label, found, stats):
    CH = 120
    for b in range(0, len(pending), CH):
        chunk = pending[b:b + CH]
        exprs = []
        for (_, spec, info, t) in chunk:
            if "star" in t:
                exprs.append(t["star"])
            else:
                exprs += [t["replay"], t["blocks"]] + ([t["dag"]] if t["dag"] else [])
        vals = run.coq_eval(f"C09_{label}_{b // CH}.v", HEADER, exprs, timeout=900)
        if vals is None:
            run.oblige(f"model_replay_{label}_{b // CH}", False, "correspondence")
            run.find(f"coq:C09_{label}_{b // CH}", "generated correspondence file does not compile", concrete=False)
            continue
        run.oblige(f"model_replay_{label}_{b // CH}", True, "correspondence")
        it = iter(vals)
        for (nm, spec, info, t) in chunk:
            rname = spec["router"][0]
            routed = info["routed"]
            wn = spec["wire_names"]
            l2p_real = [int(info["layout"][w]) for w in wn] if isinstance(info.get("layout"), dict) and all(w in info["layout"] for w in wn) else None
            if "star" in t:
                ok, mout, ml2p, ts_ok = parse_coq(next(it))
                stats["star_replayed"] = stats.get("star_replayed", 0) + 1
                diff = None
                if not ok:
                    diff = "model raises, implementation returns"
                else:
                    diff = compare_model_out(mout, list(routed.queue), t["objs"])
                    if diff is None and list(ml2p) != l2p_real:
                        diff = f"final layout {ml2p} (model) vs {l2p_real}"
                if diff is not None:
                    key = f"{classify(spec) or 'model'}:{rname}" if classify(spec) == "stale_unitary" else f"model:{rname}"
                    if key not in found:
                        found[key] = ("model and implementation disagree: " + diff, {"spec": spec, "graph": nm, "model_only": key.startswith("model")})
                elif not ts_ok:
                    found.setdefault(f"guards:{rname}", ("the star router's decisions are not a guarded run of the transition system",
                                                        {"spec": spec, "graph": nm}))
                continue
            stepped, tr_ok, front_ok, guard_ok, unr_ok, empty, mout, ml2p = parse_coq(next(it))
            b_eq, b_reorder, b_hyp = parse_coq(next(it))
            if t["dag"]:
                tr_ok, fr_ok, fl_ok = parse_coq(next(it))
                stats["dags_checked"] = stats.get("dags_checked", 0) + 1
                stats["front_layers_compared"] = stats.get("front_layers_compared", 0) + t["nsnaps"]
                if not tr_ok:
                    found.setdefault("model:transitive_reduction", ("the reduced DAG of the implementation is not a valid transitive reduction of the model's _create_dag edges",
                                                                    {"spec": spec, "graph": nm, "model_only": True}))
                if not (fr_ok and fl_ok):
                    found.setdefault(f"front_layer:{rname}", ("the front layer of the DAG differs from 'no remaining earlier block shares a qubit' (logged front layers / DAG model / specification)",
                                                             {"spec": spec, "graph": nm}))
            stats["traces_replayed"] = stats.get("traces_replayed", 0) + 1
            stats["ops_replayed"] = stats.get("ops_replayed", 0) + t["nops"]
            stats["undo_ops_replayed"] = stats.get("undo_ops_replayed", 0) + t["nundo"]
            stats["blocks_compared"] = stats.get("blocks_compared", 0) + t["nblocks"]
            diff = None
            if not stepped:
                diff = "a logged operation is undefined in the model (undo of a non-swap block / bad indices)"
            elif not tr_ok:
                diff = "intermediate l2p/p2l differ"
            elif not empty:
                diff = "blocks left unexecuted in the model"
            else:
                diff = compare_model_out(mout, list(routed.queue), t["objs"])
                if diff is None and list(ml2p) != l2p_real:
                    diff = f"final layout {ml2p} (model) vs {l2p_real}"
            if diff is not None and not t["split"]:
                found.setdefault(f"model:{rname}", ("model and implementation disagree: " + diff,
                                                    {"spec": spec, "graph": nm, "model_only": True}))
            if stepped and not unr_ok:
                found.setdefault(f"unroute:{rname}", ("un-routing the routed blocks does not give the executed blocks", {"spec": spec, "graph": nm, "model_only": True}))
            if stepped and not front_ok:
                found.setdefault(f"front_layer:{rname}", ("a block was executed although an earlier remaining block shares a qubit with it",
                                                         {"spec": spec, "graph": nm}))
            if stepped and front_ok and not guard_ok:
                stats["guard_fail:" + rname] = stats.get("guard_fail:" + rname, 0) + 1
                found.setdefault(f"nonadjacent_swap:{rname}", ("a swap / block was applied on a physical pair that is not an edge (edge guard of the transition system)",
                                                              {"spec": spec, "graph": nm}))
            if not t["split"]:
                if not b_eq:
                    found.setdefault("model:block_decomposition", ("block_decomposition model and implementation disagree",
                                                                   {"spec": spec, "graph": nm, "model_only": True}))
                if not b_hyp:
                    found.setdefault("model:blocks_equiv_hypothesis", ("the hypothesis of blocks_equiv (distinct gates, distinct qubits) fails on a real input",
                                                                       {"spec": spec, "graph": nm, "model_only": True}))
                if not b_reorder:
                    found.setdefault("blocks_reorder", ("flatten(block_decomposition(c)) is not a dependency-respecting reordering of c (verified checker)",
                                                        {"spec": spec, "graph": nm}))


def malformed(run, found, stats):
    """gates on more than two qubits must be refused by every router (model: None)"""
    from qibo import Circuit, gates
    from qibo.transpiler import router as R
    for rname, mk in (("Sabre", lambda g: R.Sabre(g, seed=0)), ("ShortestPaths", lambda g: R.ShortestPaths(g, seed=0)),
                      ("StarConnectivityRouter", lambda g: R.StarConnectivityRouter(g))):
        g = nx.star_graph(4)
        c = Circuit(5)
        c.add(gates.CZ(1, 2))
        c.add(gates.TOFFOLI(0, 1, 2))
        try:
            with_timeout(10, mk(g), c)
            raised = False
        except RouterTimeout:
            raised = False
        except Exception:
            raised = True
        run.case(["malformed", rname], True)
        stats["malformed"] = stats.get("malformed", 0) + 1
        if not raised:
            found.setdefault(f"accepts_3q:{rname}", ("a three-qubit gate was accepted", {"router": rname}))
    vals = run.coq_eval("C09_malformed.v", HEADER,
                        ["blocks_raise 5 [mkG KU 1 [1;2]; mkG KU 2 [0;1;2]]",
                         "match star_route 5 0 [mkG KU 1 [1;2]; mkG KU 2 [0;1;2]] with None => true | _ => false end"])
    ok = vals is not None and all(v == "true" for v in vals)
    run.oblige("model_rejects_3q", ok, "correspondence")
    if not ok:
        found.setdefault("model:malformed", ("model accepts a three-qubit gate", {"model_only": True}))


def main(run):
    rng = random.Random(run.seed)
    run.trusted += ["Coq 8.16.1 kernel, vm_compute",
                    "networkx (shortest paths, floyd_warshall, transitive_reduction, topological_generations): outputs are used as oracles; the front-layer and edge guards are re-checked on every logged decision",
                    "exact complex128 arithmetic on Gaussian integers below 2^50 (asserted) for the operator comparison; numpy tensordot/transpose",
                    "harness: gate payload canonicalisation, run-time wrapping of CircuitMap.update/undo/execute_block"]
    run.assumptions += ["termination of the routers is not claimed (safety only; every router call runs under a timeout)",
                        "the semantic theorem routing_ok is stated for every interpretation of gates that is permutation-equivariant and in which gates on disjoint qubits commute; C09/InstMat.v proves that the dense matrices of Base/Mat.v (over any commutative semiring) form such an interpretation (routing_ok_matrices)",
                        "floating-point rounding is irrelevant: all compared data are integers / structures"]
    theorem_obligations(run)
    theorem_obligations(run, "C09/InstMat")     # routing_ok at the concrete dense matrices of Base/Mat.v
    theorem_obligations(run, "C09/PropsAttrs")  # circuit attribute histories = fresh circuit; reused router connectivity
    theorem_obligations(run, "C09/PropsGraphRepr")  # guarded runs depend on the EDGE SET only (order / orientation / duplicates)
    run.notes["interpretation_instance"] = ("PROVED (C09/InstMat.v, Base/Sem.v, Base/SemPerm.v): qibo-style dense operators "
                                            "(embed of a gate matrix on its qubits, qubit-permutation matrices, SWAP for the inserted "
                                            "gate) form an `interp`: disjoint gates commute, permutation equivariance, tag 0 = SWAP; "
                                            "routing_ok_matrices is routing_ok at this instance")
    found, stats = {}, {}
    t_lim = 20.0
    rngF = random.Random(run.seed * 1021 + 11)      # family F: graph representations (separate stream of random choices)
    cases = main_cases(run.tier, rng)
    stats["graphs_in_another_representation"] = decorate([sp for _, sp in cases], rngF)
    pend = process(run, cases, "main", found, stats, t_lim)
    coq_batches(run, pend, "main", found, stats)
    hcases, infos, hist_of = [], {}, {}
    for hspec in router_histories(run.tier, rng) + noreassign_histories(run.tier, rng):
        stats["graphs_in_another_representation"] += decorate(hspec["calls"], rngF)
        for i, (sp, info) in enumerate(run_router_history(hspec, timeout=t_lim)):
            if not hspec.get("reassign", True):
                stats["calls_on_a_reused_router_not_reassigned"] = stats.get("calls_on_a_reused_router_not_reassigned", 0) + 1
                if info.get("tainted"):
                    stats["...of which after a call with permuted names (known finding)"] = stats.get("...of which after a call with permuted names (known finding)", 0) + 1
            hcases.append(("history", sp))
            infos[id(sp)] = info
            hist_of[id(sp)] = {"router_history": hspec, "call_index": i}
            stats["history_calls"] = stats.get("history_calls", 0) + 1
            if i > 0:
                stats["calls_on_a_reused_router_with_changed_connectivity"] = stats.get("calls_on_a_reused_router_with_changed_connectivity", 0) + 1
    pend = process(run, hcases, "hist", found, stats, t_lim, infos=infos, hist_of=hist_of)
    coq_batches(run, pend, "hist", found, stats)
    acases = attr_cases(run.tier, rng)
    stats["graphs_in_another_representation"] += decorate([sp for _, sp in acases], rngF)
    ainfos = {id(sp): run_router(sp, timeout=t_lim) for _, sp in acases}
    stats["attribute_history_cases"] = len(acases)
    pend = process(run, acases, "attrs", found, stats, t_lim, infos=ainfos)
    coq_batches(run, pend, "attrs", found, stats)
    attr_correspondence(run, [(sp, ainfos[id(sp)]) for _, sp in acases], found, stats)
    dcases = defect_cases(rng)
    stats["graphs_in_another_representation"] = stats.get("graphs_in_another_representation", 0) + decorate([sp for _, sp in dcases], rngF, 0.5)
    pend = process(run, dcases, "defects", found, stats, t_lim)
    coq_batches(run, pend, "defects", found, stats)
    # round 5: block-order corpus (family D), controlled-gate circuits, weighted / attributed graphs (family F)
    tcases = block_triples(run.tier)
    stats["block_triples"] = len(tcases)
    ccases = ctrl_cases(run.tier, random.Random(run.seed * 1009 + 5))
    wcases = weighted_cases(run.tier, random.Random(run.seed * 1013 + 7))
    stats["weighted_graph_corpus"] = len(wcases)
    stats["graphs_in_another_representation"] += len(wcases) + decorate([sp for _, sp in tcases + ccases], rngF, 0.4)
    pend = process(run, tcases + ccases + wcases, "r5", found, stats, t_lim)
    coq_batches(run, pend, "r5", found, stats)
    malformed(run, found, stats)
    for key, (what, rp) in sorted(found.items()):
        concrete = not rp.get("model_only", False)
        run.find(key, what, rp, concrete=concrete)
    run.notes["stats"] = stats
    run.notes["traces_validated_against_impl"] = stats.get("traces_replayed", 0) + stats.get("star_replayed", 0)
    run.not_proved += [                       "termination of the real loops as such: proved are progress statements of the model (every exec decreases the remaining blocks; a ShortestPaths swap round and Sabre's _shortest_path_routing reset make the chosen front block executable; the star router is a structural recursion); Sabre's ordinary heuristic swaps carry no progress guarantee other than the swap_threshold reset, and that the real while-loops reach these steps is covered by the run-time timeouts only"]
    return run.finish(level="proof", rule=RULE)


def replay(run, data):
    rp = data.get("replay", {})
    if rp.get("router_history"):
        hspec = rp["router_history"]
        run.oblige("replay_executed", True, "replay")
        anybad = False
        for i, (sp, info) in enumerate(run_router_history(hspec, timeout=60.0)):
            run.case([sp["edges"], sp["wire_names"], sp["gates"], sp["router"]])
            for key, what, extra in history_checks(sp, info):
                print(f"replay reproduces (call {i} of the router history):", key, what)
                run.find(key, what, {"router_history": hspec, "call_index": i, **extra})
                anybad = True
        run.sample({"router_history": hspec})
        if not anybad:
            print("replay: the recorded router history passes now (", data.get("key"), ")")
        return run.finish(rule="replay of one recorded multi-call router history")
    spec = rp.get("spec")
    if not spec:
        print("replay: nothing to re-run for", data.get("key"))
        return run.finish(rule="replay of one recorded case")
    info = run_router(spec, timeout=60.0)
    bad = spec_checks(spec, info)
    run.oblige("replay_executed", True, "replay")
    run.case([spec["edges"], spec["wire_names"], spec["gates"], spec["router"]])
    run.sample({"spec": spec})
    for key, what, extra in bad:
        print("replay reproduces:", key, what)
        run.find(key, what, {"spec": spec, **extra})
    if not bad:
        print("replay: spec-level checks pass for this case (", data.get("key"), ")")
    return run.finish(rule="replay of one recorded case")
