"""C09  Routing output is executable and equals the input up to the reported layout.

Three layers, all on every run:

1. static Coq theorems (C09/Props.v): the router is a nondeterministic transition system
   (exec block / swap / undo); for EVERY guarded transition sequence the maps stay mutually
   inverse bijections, every emitted two-qubit gate is on an edge, un-routing the emitted list
   gives back the executed blocks, the executed blocks are a dependency-respecting
   linearisation (trace-equivalent to the input) and  run(out) = P_layout . run(in)  for every
   permutation-equivariant interpretation of gates; swap_guard_<Router> statements;
   StarConnectivityRouter as a deterministic refinement; verified reorder checker for blocks.
2. correspondence: CircuitMap.update / undo / execute_block are wrapped at run time; the
   decision trace of the real router is replayed through the Coq step function (vm_compute)
   and every intermediate layout, the emitted circuit and the final layout are compared;
   block_decomposition's output is checked with the verified reorder checker.
3. spec-level output checks independent of the model: (a) every two-qubit gate on an edge,
   (b) final layout bijective, (c) operator  out = P . in  by exact integer simulation
   (Gaussian-integer Unitary gates + exact named gates), (d) wire names kept, final
   measurements on the same logical qubits / registers.
"""
STATIC = ["C09/Props"]
import itertools
import json
import os
import random
import signal
import time

import networkx as nx
import numpy as np

from lib import vcore

LIM = 2 ** 50


# ------------------------------------------------------------------ timeouts
class RouterTimeout(Exception):
    pass


def _alarm(signum, frame):
    raise RouterTimeout()


def with_timeout(seconds, fn, *a, **k):
    old = signal.signal(signal.SIGALRM, _alarm)
    signal.setitimer(signal.ITIMER_REAL, seconds)
    try:
        return fn(*a, **k)
    finally:
        signal.setitimer(signal.ITIMER_REAL, 0)
        signal.signal(signal.SIGALRM, old)


# ------------------------------------------------------------------ graphs
def _relabel(g, labels):
    nodes = sorted(g.nodes())
    m = dict(zip(nodes, labels))
    h = nx.Graph()
    h.add_nodes_from(m[v] for v in nodes)
    h.add_edges_from((m[a], m[b]) for a, b in g.edges())
    return h


def base_graphs(nmax, rng, nrandom):
    out = []
    for n in range(2, nmax + 1):
        out.append((f"line{n}", nx.path_graph(n)))
        if n >= 3:
            out.append((f"ring{n}", nx.cycle_graph(n)))
            out.append((f"star{n}", nx.star_graph(n - 1)))
    for (a, b) in ((2, 2), (2, 3), (2, 4), (3, 3)):
        if a * b <= nmax:
            out.append((f"grid{a}x{b}", nx.convert_node_labels_to_integers(nx.grid_2d_graph(a, b))))
    for k in range(nrandom):
        n = rng.randint(3, nmax)
        g = nx.Graph()
        g.add_nodes_from(range(n))
        order = list(range(n))
        rng.shuffle(order)
        for i in range(1, n):
            g.add_edge(order[i], order[rng.randrange(i)])
        for _ in range(rng.randint(0, n // 2)):
            a, b = rng.sample(range(n), 2)
            g.add_edge(a, b)
        out.append((f"rand{n}_{k}", g))
    return out


def label_variants(g, rng, how):
    n = g.number_of_nodes()
    if how == "id":
        return g
    if how == "perm":
        lab = list(range(n))
        rng.shuffle(lab)
        return _relabel(g, lab)
    if how == "sparse":
        lab = rng.sample(range(0, 3 * n + 2), n)
        return _relabel(g, lab)
    if how == "str":
        lab = [f"q{c}" for c in rng.sample(range(0, 2 * n), n)]
        return _relabel(g, lab)
    if how == "mixed":
        lab = [f"A{i}" if rng.random() < 0.5 else 100 + i for i in range(n)]
        rng.shuffle(lab)
        return _relabel(g, lab)
    raise ValueError(how)


# ------------------------------------------------------------------ circuits (serialisable specs)
NAMED1 = ["X", "Y", "Z", "S", "SDG"]
NAMED2 = ["CNOT", "CZ", "CY", "SWAP", "iSWAP", "FSWAP"]


def rand_gi_matrix(rng, k):
    """generalised permutation matrix with entries in {+-1, +-i} plus one extra unit entry:
    growth <= 2 per gate, not symmetric under qubit exchange"""
    d = 2 ** k
    units = [(1, 0), (-1, 0), (0, 1), (0, -1)]
    perm = list(range(d))
    rng.shuffle(perm)
    m = [[(0, 0)] * d for _ in range(d)]
    for r in range(d):
        m[r][perm[r]] = rng.choice(units)
    r, c = rng.randrange(d), rng.randrange(d)
    if m[r][c] == (0, 0):
        m[r][c] = rng.choice(units)
    return [[list(e) for e in row] for row in m]


def gen_gates(rng, n, ngates, p2=0.55, pmid=0.0, style="mixed"):
    gs = []
    hot = rng.sample(range(n), min(n, 3))
    for _ in range(ngates):
        r = rng.random()
        if r < pmid:
            gs.append(["M", [rng.randrange(n)], {}])
            continue
        if n >= 2 and rng.random() < p2:
            if style == "far":
                a, b = (0, n - 1) if rng.random() < 0.5 else tuple(rng.sample(range(n), 2))
            elif style == "hot":
                a = rng.choice(hot)
                b = rng.choice([q for q in range(n) if q != a])
            else:
                a, b = rng.sample(range(n), 2)
            if rng.random() < 0.5:
                gs.append(["U", [a, b], {"m": rand_gi_matrix(rng, 2)}])
            else:
                gs.append([rng.choice(NAMED2), [a, b], {}])
        else:
            q = rng.randrange(n)
            if rng.random() < 0.6:
                gs.append(["U", [q], {"m": rand_gi_matrix(rng, 1)}])
            else:
                gs.append([rng.choice(NAMED1), [q], {}])
    return gs


def gen_trailing(rng, n):
    """trailing measurement registers: disjoint qubit groups in permuted order, some named"""
    k = rng.randint(0, n)
    qs = rng.sample(range(n), k)
    out = []
    i = 0
    r = 0
    while i < len(qs):
        w = rng.randint(1, 3)
        grp = qs[i:i + w]
        i += w
        kw = {}
        if rng.random() < 0.6:
            kw["register_name"] = f"r{r}"
        r += 1
        out.append(["M", grp, kw])
    return out


def np_matrix(m):
    return np.array([[complex(e[0], e[1]) for e in row] for row in m])


def build_gate(g):
    from qibo import gates
    kind, qs, kw = g
    if kind == "U":
        if "m0" in kw:       # constructed with m0, parameters updated to m afterwards
            gate = gates.Unitary(np_matrix(kw["m0"]), *qs, check_unitary=False)
            gate.parameters = np_matrix(kw["m"])
            return gate
        return gates.Unitary(np_matrix(kw["m"]), *qs, check_unitary=False)
    if kind == "M":
        k2 = dict(kw)
        if "basis" in k2:
            k2["basis"] = getattr(gates, k2["basis"])
        return gates.M(*qs, **k2)
    return getattr(gates, kind)(*qs)


def build_circuit(spec):
    from qibo import Circuit
    c = Circuit(spec["n"], wire_names=list(spec["wire_names"]))
    for g in spec["gates"]:
        c.add(build_gate(g))
    return c


def build_graph(spec):
    g = nx.Graph()
    g.add_nodes_from(spec["nodes"])
    g.add_edges_from(tuple(e) for e in spec["edges"])
    return g


def build_router(spec, graph):
    from qibo.transpiler import router as R
    name, kw = spec["router"]
    return getattr(R, name)(graph, **kw)


# ------------------------------------------------------------------ exact simulation
MARK = np.array([[1, 0], [0, 2]], dtype=complex)   # opaque, position-sensitive stand-in for M


def apply_mat(T, M, qs, n):
    k = len(qs)
    M = np.asarray(M, dtype=complex).reshape((2,) * (2 * k))
    T = np.tensordot(M, T, axes=(list(range(k, 2 * k)), list(qs)))
    # result axes: k new axes first, then the remaining axes in order
    rest = [a for a in range(n + 1) if a not in qs]
    cur = list(qs) + rest
    return np.transpose(T, [cur.index(a) for a in range(n + 1)])


def gate_matrix(g):
    from qibo import gates
    if isinstance(g, gates.Unitary):
        return np.asarray(g.parameters[0])
    return np.asarray(g.matrix())


def exact_operator(queue, n):
    """full 2^n x 2^n operator of a gate list as an exact complex128 tensor (n+1 axes)"""
    from qibo import gates
    T = np.eye(2 ** n, dtype=complex).reshape((2,) * n + (2 ** n,))
    for g in queue:
        if isinstance(g, gates.M):
            for q in g.qubits:
                T = apply_mat(T, MARK, (q,), n)
        else:
            T = apply_mat(T, gate_matrix(g), tuple(g.qubits), n)
        if not (np.abs(T.real).max() < LIM and np.abs(T.imag).max() < LIM):
            raise OverflowError("integer range exceeded")
    return T


def is_integral(T):
    return bool(np.all(T.real == np.round(T.real)) and np.all(T.imag == np.round(T.imag)))


def permuted(T, l2p, n):
    """P . T where P sends logical qubit i to physical position l2p[i]"""
    p2l = [0] * n
    for i, p in enumerate(l2p):
        p2l[p] = i
    return np.transpose(T, p2l + [n])


# ------------------------------------------------------------------ canonical forms
def gate_canon(g):
    from qibo import gates
    if isinstance(g, gates.M):
        return ["M", list(g.qubits), g.register_name, bool(g.collapse)]
    if isinstance(g, gates.Unitary):
        m = np.asarray(g.parameters[0])
        return ["U", list(g.qubits), [[int(x.real), int(x.imag)] for x in m.ravel()]]
    return [type(g).__name__, list(g.qubits)]


def queue_canon(c):
    return [gate_canon(g) for g in c.queue]


# ------------------------------------------------------------------ tracing the real router
class Tracer:
    """wraps CircuitMap.update / undo / execute_block at run time (no source hooks)"""

    def __init__(self):
        from qibo.transpiler import router as R
        self.R = R
        self.events = []
        self.saved = {}

    def __enter__(self):
        CM = self.R.CircuitMap
        ev = self.events
        for name in ("update", "undo", "execute_block"):
            self.saved[name] = getattr(CM, name)
        s_update, s_undo, s_exec = self.saved["update"], self.saved["undo"], self.saved["execute_block"]

        def update(self_, logical_swap):
            r = s_update(self_, logical_swap)
            ev.append((id(self_), "swap", tuple(int(x) for x in logical_swap), list(self_._l2p), list(self_._p2l)))
            return r

        def undo(self_):
            r = s_undo(self_)
            ev.append((id(self_), "undo", (), list(self_._l2p), list(self_._p2l)))
            return r

        def execute_block(self_, block):
            nm = block.name
            r = s_exec(self_, block)
            ev.append((id(self_), "exec", (nm,), list(self_._l2p), list(self_._p2l)))
            return r

        CM.update, CM.undo, CM.execute_block = update, undo, execute_block
        return self

    def __exit__(self, *a):
        for name, f in self.saved.items():
            setattr(self.R.CircuitMap, name, f)

    def trace_of(self, circuit_map):
        return [e[1:] for e in self.events if e[0] == id(circuit_map)]


def blocks_canon(circuit_map_blocks):
    """[(name, qubits, [gate canon])] of a CircuitBlocks"""
    return [[b.name, list(b.qubits), [gate_canon(g) for g in b.gates]] for b in circuit_map_blocks()]


def run_router(spec, timeout=20.0):
    """returns dict with routed circuit, final layout, trace, initial blocks (None for star)"""
    from qibo.transpiler import router as R
    graph = build_graph(spec)
    circuit = build_circuit(spec)
    before = queue_canon(circuit)
    router = build_router(spec, graph)
    info = {"circuit": circuit, "graph": graph, "router": router, "before": before}
    captured = {}
    orig_init = R.CircuitMap.__init__

    def init(self_, circuit=None, blocks=None, temp=False):
        orig_init(self_, circuit, blocks, temp)
        if not temp and blocks is None and "blocks" not in captured:
            captured["cm"] = self_
            captured["blocks"] = blocks_canon(self_.circuit_blocks)
            captured["block_objs"] = list(self_.circuit_blocks())
            captured["routed_input"] = [gate_canon(g) for g in circuit.queue]

    R.CircuitMap.__init__ = init
    try:
        with Tracer() as tr:
            try:
                routed, layout = with_timeout(timeout, router, circuit)
                info["routed"], info["layout"] = routed, layout
            except RouterTimeout:
                info["timeout"] = True
            except Exception as e:  # noqa
                info["error"] = f"{type(e).__name__}: {e}"
        if "cm" in captured:
            info["trace"] = tr.trace_of(captured["cm"])
            info["blocks"] = captured["blocks"]
            info["routed_input"] = captured["routed_input"]
    finally:
        R.CircuitMap.__init__ = orig_init
    info["after"] = queue_canon(circuit)
    return info


# ------------------------------------------------------------------ spec-level checks (a)-(d)
def spec_checks(spec, info):
    """returns list of (key, what, extra) violations of the property text"""
    from qibo import gates
    bad = []
    rname = spec["router"][0]
    circuit, graph = info["circuit"], info["graph"]
    n = spec["n"]
    if info.get("timeout"):
        return [(f"timeout:{rname}", "router did not terminate within the time limit", {})]
    if "error" in info:
        return [(f"raises:{rname}", f"router raised {info['error']}", {"error": info["error"]})]
    routed, layout = info["routed"], info["layout"]
    wn = list(circuit.wire_names)
    # input must not be mutated
    if info["before"] != info["after"]:
        bad.append((f"mutates_input:{rname}", "the router changed the input circuit's queue", {}))
    # (d) wire names kept
    if list(routed.wire_names) != wn or routed.nqubits != n:
        bad.append((f"wire_names:{rname}", f"wire names changed: {wn} -> {routed.wire_names}", {}))
    # (b) final layout bijective, keyed by wire names
    ok_layout = (isinstance(layout, dict) and set(layout.keys()) == set(wn) and len(layout) == n
                 and sorted(layout.values()) == list(range(n)))
    if not ok_layout:
        bad.append((f"layout:{rname}", f"final layout is not a bijection wire name -> position: {layout}", {"layout": str(layout)}))
        return bad
    l2p = [int(layout[w]) for w in wn]
    # (a) every two-qubit gate on an edge
    for g in routed.queue:
        if isinstance(g, gates.M):
            continue
        if len(g.qubits) > 2:
            bad.append((f"arity:{rname}", f"{g.name} on {g.qubits}", {}))
        if len(g.qubits) == 2:
            a, b = wn[g.qubits[0]], wn[g.qubits[1]]
            if not graph.has_edge(a, b):
                what = "swap" if isinstance(g, gates.SWAP) else "gate"
                bad.append((f"nonadjacent_{what}:{rname}",
                            f"{g.name} on positions {g.qubits} = nodes ({a!r},{b!r}) which is not an edge",
                            {"gate": g.name, "positions": list(g.qubits), "nodes": [str(a), str(b)]}))
                break
    # (c) operator  out = P . in  (exact)
    try:
        U = exact_operator(circuit.queue, n)
        V = exact_operator(routed.queue, n)
        if not (is_integral(U) and is_integral(V)):
            bad.append((f"inexact:{rname}", "simulation left the integers (harness problem)", {}))
        elif not np.array_equal(V, permuted(U, l2p, n)):
            key = f"operator:{rname}"
            if any(g[0] == "U" and "m0" in g[2] for g in spec["gates"]):
                key = f"stale_unitary:{rname}"
            elif any(g[0] == "M" and "basis" in g[2] for g in spec["gates"]):
                key = f"meas_basis:{rname}"
            elif any(g[0] == "M" and len(g[1]) > 1 and _is_mid(spec["gates"], i) for i, g in enumerate(spec["gates"])):
                key = f"mid_multi_meas:{rname}"
            bad.append((key, "routed circuit is not P.U for the reported final layout (exact integer operator comparison)",
                        {"l2p": l2p}))
    except OverflowError:
        pass
    # (d) final measurements: same registers, same logical qubits, same order
    want = [(m.register_name, tuple(l2p[q] for q in m.qubits)) for m in circuit.measurements]
    got = [(m.register_name, tuple(m.qubits)) for m in routed.measurements]
    if want != got:
        key = f"measurements:{rname}"
        if any(g[0] == "M" and len(g[1]) > 1 and _is_mid(spec["gates"], i) for i, g in enumerate(spec["gates"])):
            key = f"mid_multi_meas:{rname}"
        elif any(g[0] == "M" and g[2].get("collapse") for g in spec["gates"]):
            key = f"collapse_meas:{rname}"
        bad.append((key, f"final measurement registers differ: expected {want}, got {got}", {"want": str(want), "got": str(got)}))
    else:
        rin = {m.register_name: m for m in circuit.measurements}
        for m in routed.measurements:
            o = rin[m.register_name]
            kin = {k: v for k, v in o.init_kwargs.items() if k != "register_name"}
            kout = {k: v for k, v in m.init_kwargs.items() if k != "register_name"}
            if kin != kout or m.result is not o.result:
                bad.append((f"measurement_kwargs:{rname}", f"measurement {m.register_name}: {kin} -> {kout}", {}))
                break
    return bad


def _is_mid(gs, i):
    return any(g[0] != "M" for g in gs[i + 1:])
