"""C08  Gate decompositions implement the same operator up to a global phase.

Every class of gates.py is enumerated on every run; `gate.decompose()` is executed by the real
code on a gate with symbolic parameters placed on non-ascending qubits, and the obligation
     forall th, exists phi,  U(decomposition) = e^{i phi} U(gate)
is proved by Base/TrigMat.mcheck_phase_sound.  Multi-controlled X: C08/MCXProps.v -- use_toffolis=True over
the boolean reversible-circuit model (C08/Reversible.v), use_toffolis=False (congruent Toffolis) over the
signed-permutation model (C08/Signed.v); both proved for every number of controls and tied by exact
gate-list correspondence (harness/c08_mcx_model.py).  Bounded instances (symbolic matrices m <= 5, all
2^n basis states of the real gate lists n <= 9/11) stay as independent cross-checks.
"""
STATIC = ["Base/TrigMat", "C08/Reversible", "C08/Signed", "C08/MCXProps", "C08/PropsCircuit"]
import random

import numpy as np

from lib import qtrace, tables, symtrace as st
from lib.tables import Item

PLACE = (2, 0, 3, 1, 4, 5)


def table_items(tier):
    gg = qtrace.mod("qibo.gates.gates")
    items = []
    for name, nq, ps in qtrace.catalogue():
        placements = [[PLACE[i] for i in range(nq)]]
        if tier == "thorough":
            placements += [list(range(nq)), [PLACE[i] for i in range(nq)][::-1]]
        for pi, qs in enumerate(placements):
            n = max(qs) + 1

            def b(params, _name=name, _qs=qs, _n=n):
                g = qtrace.make_gate(_name, _qs, params)
                return g.decompose(), [qtrace.make_gate(_name, _qs, params)], _n
            items.append(Item(f"decompose_{name}_{pi}", f"decompose:{name}", len(ps), b,
                              meta={"class": name, "qubits": qs}))
    # generalized RBS, with and without extra controls, phi symbolic and phi = 0
    for (a, bq, nc) in ((1, 1, 0), (2, 1, 0), (1, 2, 0), (1, 1, 1)):
        qs = [PLACE[i] for i in range(a + bq + nc)]
        n = max(qs) + 1
        for zero_phi in (False, True):
            def b(params, _a=a, _b=bq, _nc=nc, _qs=qs, _n=n, _z=zero_phi):
                th = params[0]
                ph = 0.0 if _z else params[1]
                mk = lambda: gg.GeneralizedRBS(_qs[:_a], _qs[_a:_a + _b], th, ph)
                g, ref = mk(), mk()
                if _nc:
                    g = g.controlled_by(*_qs[_a + _b:])
                    ref = ref.controlled_by(*_qs[_a + _b:])
                return g.decompose(), [ref], _n
            items.append(Item(f"decompose_GeneralizedRBS_{a}_{bq}_c{nc}_{'phi0' if zero_phi else 'phi'}",
                              f"decompose:GeneralizedRBS:{a}:{bq}:c{nc}", 1 if zero_phi else 2, b,
                              meta={"class": "GeneralizedRBS", "ins": a, "outs": bq, "controls": nc, "phi_zero": zero_phi}))
    return items


def mcx_items(tier):
    gg = qtrace.mod("qibo.gates.gates")
    items = []
    cases = [(3, 1), (3, 2), (4, 1)] + ([(4, 2), (4, 3), (5, 1)] if tier == "thorough" else [])
    for m, nf in cases:
        for tof in (True, False):
            n = m + 1 + nf
            perm = list(range(n))
            random.Random(m * 10 + nf).shuffle(perm)
            cs, t, free = perm[:m], perm[m], perm[m + 1:]

            def b(params, _cs=cs, _t=t, _free=free, _n=n, _tof=tof):
                g = gg.X(_t).controlled_by(*_cs)
                return g.decompose(*_free, use_toffolis=_tof), [gg.X(_t).controlled_by(*_cs)], _n
            items.append(Item(f"mcx_m{m}_f{nf}_{'tof' if tof else 'cong'}", f"mcx:{m}:{nf}:{tof}", 0, b, mode="eq",
                              meta={"controls": cs, "target": t, "free": free, "use_toffolis": tof}))
    return items


def mcx_boolean(run, rng):
    """X(t).controlled_by(m controls).decompose(*free, use_toffolis=True): the returned X/CNOT/TOFFOLI
    list is evaluated as a reversible boolean circuit in Coq on ALL 2^n basis states (checker proved
    sound in C08/Reversible.v): flips the target iff all controls are 1, restores every work bit."""
    gg = qtrace.mod("qibo.gates.gates")
    from harness import c08_mcx_model as mm
    header = ("From Coq Require Import List Bool Arith.\nFrom QV Require Import Base.Mat C08.Reversible C08.Signed.\n"
              "Import ListNotations.\n")
    items, meta = [], {}
    nmax = 9 if run.tier == "quick" else 11
    for m in range(3, 9):
        for nf in range(1, 8):
            n = m + 1 + nf
            if n > nmax:
                continue
            perm = list(range(n))
            rng.shuffle(perm)
            cs, t, free = perm[:m], perm[m], perm[m + 1:]
            name = f"mcxbool_m{m}_f{nf}"
            try:
                dec = gg.X(t).controlled_by(*cs).decompose(*free, use_toffolis=True)
            except Exception as e:
                run.refuted.append(name)
                run.find(f"mcx_raises:{m}:{nf}", f"X.decompose with {m} controls and {nf} free qubits raises {type(e).__name__}: {e}",
                         {"controls": cs, "target": t, "free": free})
                continue
            bad = [type(g).__name__ for g in dec if type(g).__name__ not in ("X", "CNOT", "TOFFOLI")]
            if bad:
                run.refuted.append(name)
                run.find(f"mcx_gateset:{m}:{nf}", f"decomposition contains {sorted(set(bad))}", {"controls": cs, "free": free})
                continue
            gl = "[" + "; ".join(f"({qtrace.nat_list(g.control_qubits)}, {g.target_qubits[0]}%nat)" for g in dec) + "]"
            items.append((name, f"mcx_check {n}%nat {qtrace.nat_list(sorted(cs))} {t}%nat {gl}"))
            meta[name] = {"controls": cs, "target": t, "free": free, "ngates": len(dec)}
            run.case(["mcxbool", m, nf, cs, t, free])
            run.sample({"obligation": name, **meta[name]})
            # use_toffolis=False on the same placement: the real gate list, seven-gate blocks grouped into CONG
            # tokens after a literal check, evaluated as a SIGNED permutation on all 2^n basis states
            # (Signed.signed_check, proved sound): bits of the multi-controlled X and sign + everywhere
            sname = f"mcxsigned_m{m}_f{nf}"
            real = mm.real_decomposition_cong(cs, t, free)
            if isinstance(real, tuple):
                w = mm.cong_witness(cs, t, free) if real[0] == "gateset" else {}
                run.refuted.append(sname)
                run.find(f"mcx_{real[0]}:{m}:{nf}:False", f"X.decompose(use_toffolis=False) with {m} controls and {nf} free qubits: {real[1]}",
                         {"controls": cs, "target": t, "free": free, "use_toffolis": False, **w},
                         concrete=real[0] == "raises" or bool(w))
                continue
            items.append((sname, f"signed_check {n}%nat {qtrace.nat_list(sorted(cs))} {t}%nat {mm.coq_sgate_list(real)}"))
            meta[sname] = {"controls": cs, "target": t, "free": free, "ntokens": len(real), "use_toffolis": False}
            run.case(["mcxsigned", m, nf, cs, t, free])
    res, out = run.coq_bools("C08_mcxbool_triage.v", header, items, timeout=900)
    if res is None:
        run.find("coq:C08_mcxbool", "boolean MCX obligations do not compile", {"log": out[-1200:]}, concrete=False)
        return
    good = [(n_, t_) for n_, t_ in items if res[n_]]
    thms = [(f"ok_{n_}", f"{t_} = true", "vm_compute; reflexivity.") for n_, t_ in good]
    ok, out2 = run.coq_theorems("C08_mcxbool_theorems.v", header, thms, timeout=900) if thms else (True, "")
    for n_, _ in good:
        run.oblige(n_, ok, "mcx-boolean")
    for n_, _ in items:
        if not res[n_]:
            mt = meta[n_]
            run.refuted.append(n_)
            if mt.get("use_toffolis") is False:
                w = mm.cong_witness(mt["controls"], mt["target"], mt["free"])
                run.find(f"mcx:{len(mt['controls'])}:{len(mt['free'])}:False",
                         "multi-controlled X decomposition with congruent Toffolis is not the multi-controlled X "
                         "(wrong bits, a disturbed work qubit or a relative phase on some basis state)", {**mt, **w})
                continue
            w = mcx_witness(mt)
            run.find(f"mcx:{len(mt['controls'])}:{len(mt['free'])}:True",
                     "multi-controlled X decomposition is not the multi-controlled X (or disturbs a work qubit)", {**mt, **w})


def mcx_witness(mt):
    """a basis state on which the real decomposition (simulated by the real backend) is wrong"""
    from qibo import Circuit
    gg = qtrace.mod("qibo.gates.gates")
    cs, t, free = mt["controls"], mt["target"], mt["free"]
    n = len(cs) + 1 + len(free)
    dec = gg.X(t).controlled_by(*cs).decompose(*free, use_toffolis=True)
    import itertools
    for bits in itertools.product([0, 1], repeat=n):
        c = Circuit(n)
        for q, b in enumerate(bits):
            if b:
                c.add(gg.X(q))
        c.add(dec)
        out = int(np.argmax(np.abs(np.asarray(c().state()))))
        want = list(bits)
        if all(bits[q] for q in cs):
            want[t] ^= 1
        if out != int("".join(map(str, want)), 2):
            return {"input_bits": list(bits), "output_index": out, "expected_bits": want}
    return {}


def circuit_items(tier):
    """circuits decomposed by the real Circuit.decompose with symbolic parameters (exact, all angles): members that
    agree on class / ordered qubits / parameters and differ in construction data, order or identity"""
    from qibo import Circuit
    gg = qtrace.mod("qibo.gates.gates")

    def item(name, n, nparams, fill, meta):
        def b(params):
            def mk():
                c = Circuit(n)
                fill(c, params)
                return c
            return list(mk().decompose().queue), list(mk().queue), n
        return Item(name, "circuit_decompose" if name == "circuit_decompose_mixed" else f"circuit_sym:{name}", nparams, b, meta={"circuit": meta})

    def mixed(c, p):
        c.add(gg.CRY(3, 1, p[0])); c.add(gg.RXXYY(2, 0, p[1])); c.add(gg.CCZ(1, 3, 0)); c.add(gg.U3(2, p[0], p[1], p[2])); c.add(gg.ECR(0, 3))

    def grbs_splits(c, p):
        # same ordered qubits (2,0,1), same angles, the two in/out splits, a rotation in between, each twice
        c.add(gg.GeneralizedRBS([2], [0, 1], p[0], p[1])); c.add(gg.RY(0, p[0]))
        c.add(gg.GeneralizedRBS([2, 0], [1], p[0], p[1])); c.add(gg.GeneralizedRBS([2], [0, 1], p[0], p[1]))

    def same_class(c, p):
        g = gg.RZX(0, 1, p[0])
        c.add(g); c.add(gg.RZX(1, 0, p[0])); c.add(gg.RZX(0, 1, p[1])); c.add(g); c.add(gg.RZX(2, 1, p[0]))
        h = gg.CRY(2, 0, p[1]); h.parameters = p[0]
        c.add(gg.CRY(2, 0, p[0])); c.add(gg.CRY(0, 2, p[0])); c.add(h); c.add(gg.CRY(2, 0, p[0], trainable=False))
        c.add(gg.RY(0, p[0]).controlled_by(2))
    return [item("circuit_decompose_mixed", 4, 3, mixed, "CRY,RXXYY,CCZ,U3,ECR on 4 qubits"),
            item("grbs_splits", 3, 2, grbs_splits, "gRBS([2],[0,1]) RY gRBS([2,0],[1]) gRBS([2],[0,1]), same angles"),
            item("same_class", 3, 2, same_class, "RZX / CRY: permuted qubits, other angle, same object twice, updated, frozen, controlled_by form")]


def _snap(gs):
    return [(type(g).__name__, tuple(g.control_qubits), tuple(g.target_qubits),
             tuple(complex(x) for x in np.asarray(g.parameters, dtype=complex).ravel()) if g.parameters is not None else ())
            for g in gs]


def history_checks(run, rng, only=None):
    """decompose() depends on the gate's CURRENT value only and hands out gates the caller may edit:
    (a) a gate object is decomposed, its parameters are updated, it is decomposed again -> the second
    result must be the decomposition of a fresh gate with the new values (the one the symbolic
    obligations are about); (b) the gates returned by a decomposition are edited by the caller ->
    every later decomposition of a fresh gate is unchanged.  Identity placement and a non-ascending
    placement, every class of the catalogue."""
    ok_all = True
    for name, nq, ps in qtrace.catalogue():
        if only and name != only:
            continue
        for qs in (list(range(nq)), [PLACE[i] for i in range(nq)]):
            n = max(qs) + 1
            v1 = [round(rng.uniform(0.1, 1.4), 3) for _ in ps]
            v2 = [round(rng.uniform(0.1, 1.4), 3) for _ in ps]
            try:
                ref = _snap(qtrace.make_gate(name, qs, v2).decompose())
                g = qtrace.make_gate(name, qs, v1)
                d1 = g.decompose()
                if ps:
                    g.parameters = tuple(v2)
                d2 = g.decompose()
                run.case(["history", name, len(qs) == nq and qs == list(range(nq))])
                if _snap(d2) != ref:
                    ok_all = False
                    dist = qtrace.phase_distance(qtrace.full_unitary(d2, n), qtrace.full_unitary([qtrace.make_gate(name, qs, v2)], n))
                    run.find(f"decompose_history:stale:{name}",
                             f"{name}{tuple(qs)}: decomposed with parameters {v1}, parameters set to {v2}, decomposed again: "
                             f"the second decomposition is not the one of a fresh {name}{tuple(v2)} (distance from the gate up to phase {dist:.3g})",
                             {"class": name, "qubits": qs, "params_before": v1, "params_after": v2, "distance": dist}, concrete=dist > 1e-8)
                # the caller edits what it got back
                for h in list(d1) + list(d2):
                    if getattr(h, "parameters", ()) and type(h).__name__ != "Unitary":
                        h.parameters = tuple(0.777 for _ in h.parameters)
                fresh = qtrace.make_gate(name, qs, v2)
                d3 = fresh.decompose()
                if _snap(d3) != ref:
                    ok_all = False
                    dist = qtrace.phase_distance(qtrace.full_unitary(d3, n), qtrace.full_unitary([qtrace.make_gate(name, qs, v2)], n))
                    run.find(f"decompose_history:aliased:{name}",
                             f"{name}{tuple(qs)}: after the caller set the parameters of the gates returned by an earlier decomposition "
                             f"to 0.777, a fresh {name}{tuple(v2)} decomposes differently (distance from the gate up to phase {dist:.3g})",
                             {"class": name, "qubits": qs, "params": v2, "distance": dist}, concrete=dist > 1e-8)
            except Exception as e:  # noqa: BLE001
                ok_all = False
                run.find(f"decompose_history:raises:{name}", f"{name}{tuple(qs)}: {type(e).__name__}: {e}", {"class": name, "qubits": qs})
    run.oblige("decompose_is_a_function_of_the_current_gate", ok_all, "correspondence")


def circuit_level(run, rng):
    """Circuit.decompose(*free) and the construction-data streams (harness/c08_circuit.py)"""
    from harness import c08_circuit as cc
    from lib import vcore
    thms = vcore.props_theorems("C08/PropsCircuit.v")
    ok, pa = vcore.static_assumptions("C08/PropsCircuit")
    run.notes["print_assumptions_circuit"] = pa
    for t in thms:
        closed = ok and "Closed under the global context" in pa.get(t, "")
        run.oblige(t, closed, "static-theorem")
        if not closed:
            run.find(f"assumptions:{t}", f"theorem {t} of C08/PropsCircuit is not closed: {pa.get(t)}", {}, concrete=False)
    cb_sound = cc.controlled_forms(run, rng)
    free_ok = cc.free_through_wrapper(run)
    cc.circuit_stream(run, rng, cb_sound, free_ok)
    cc.wrapper_combinations(run, rng)


RULE = ("one obligation per (gate class x placement); all classes of gates.py enumerated from the source; "
        "multi-controlled X instances by number of controls / free qubits / Toffoli substitution; "
        "circuits = collision groups (same class/qubits/parameters, other construction data, order, history or identity) "
        "between random gates of every class, with and without free qubits")


def main(run):
    rng = random.Random(run.seed)
    run.trusted += ["Coq 8.16.1 kernel, vm_compute", "Base/TrigNF.v, Base/TrigMat.v (proved sound)",
                    "lib/symtrace.py tracer; floats within 4 ulp of (p/q)*pi, q<=64, are read as that multiple of pi",
                    "Base/Mat.v embed/cembed as the meaning of 'gate on qubits'"]
    run.assumptions += ["exact real arithmetic (rounding not modelled)"]
    history_checks(run, rng)
    circuit_level(run, rng)
    tables.run_items(run, table_items(run.tier), "C08_tables", rng)
    tables.run_items(run, mcx_items(run.tier), "C08_mcx", rng)
    mcx_boolean(run, rng)
    from harness import c08_mcx_model
    c08_mcx_model.run_model_correspondence(run, rng)
    tables.run_items(run, circuit_items(run.tier), "C08_circuit", rng)
    return run.finish(rule=RULE)


def replay(run, data):
    rng = random.Random(0)
    key = data["key"]
    if key.startswith("decompose_history:"):
        history_checks(run, rng, only=data["replay"].get("class"))
        return run.finish(rule="replay of one recorded history")
    if key.startswith(("circuit_decompose:", "decompose_controlled:", "decompose_member:")):
        from harness import c08_circuit as cc
        rep = data["replay"]
        if "plan" in rep:
            cc.report(run, [f for f in cc.run_plan(run, rep["plan"], "replay") if f[0] == key] )
        elif key.startswith("decompose_controlled:"):
            cc.controlled_forms(run, rng, only=rep.get("cls"))
        elif key.startswith("circuit_decompose:free_"):
            cc.free_through_wrapper(run, only=key.split(":")[-1])
        elif key.startswith("circuit_decompose:wrapper") or key.startswith("circuit_decompose:measurement_basis"):
            cc.wrapper_combinations(run, random.Random(0), theta=rep.get("theta"))
        return run.finish(rule="replay of one recorded circuit-level case")
    if key.startswith("mcx_model:"):
        from harness import c08_mcx_model
        c08_mcx_model.replay_model_case(run, data["replay"])
        return run.finish(rule="replay of one recorded case")
    rep = data["replay"]
    if (key.startswith("mcx:") or key.startswith("mcx_gateset:")) and "controls" in rep and "params" not in rep:
        # multi-controlled X instance: re-execute the real decomposition numerically on every basis state
        from harness import c08_mcx_model as mm
        mt = {"controls": list(rep["controls"]), "target": int(rep["target"]), "free": list(rep["free"])}
        w = (mm.cong_witness(mt["controls"], mt["target"], mt["free"]) if rep.get("use_toffolis") is False
             else mcx_witness(mt))
        if w:
            run.find(key, data["what"], {**rep, **w})
        return run.finish(rule="replay of one recorded case")
    for it in table_items("thorough") + mcx_items("thorough") + circuit_items("thorough"):
        if it.key == key:
            vals = data["replay"].get("params")
            if vals is not None:
                lhs, rhs, n = it.builder(vals)
                A, B = qtrace.full_unitary(lhs, n), qtrace.full_unitary(rhs, n)
                d = qtrace.phase_distance(A, B) if it.mode == "phase" else float(np.abs(A - B).max())
                if d > 1e-8:
                    run.find(key, data["what"], {**data["replay"], "distance": d})
            break
    return run.finish(rule="replay of one recorded case")
