"""C15  Symbolic and dense Hamiltonians denote the same operator.

Static part (coq/theories/C15): the model of qibo's three routes (dense recursion, term
extraction, term-by-term application) over Gaussian integers and the theorems of Props.v.
Correspondence part (this file): random Pauli-polynomial forms (sums, NON-commutative products,
powers, Gaussian-integer scalars, several factors on one qubit) are given to the real
SymbolicHamiltonian / Hamiltonian; everything the real code returns (matrix, terms, h @ psi,
h @ rho, expectation values, algebra results, eigenvalue caches, sample expectations, model
builders) is written into a generated Coq file together with the same inputs and compared
*inside Coq* (vm_compute, exact integers) with the model AND with the specification
`denote` (the mathematical operator).  sympy's expand()/as_coefficients_dict() output is taken
from the implementation and fed to the model as an oracle; it is separately compared with the
model's own expansion.

Round 5 (run_model_algebra, C15/PropsModels.v): the built-in symbolic models go through the same algebra streams as hand-written forms --
products @ of two and three factors with each other and with non-commuting hand-written forms, sums, scalar multiples, built with the
real operators and observed on every route; the specification is the Coq form of the model's documented formula composed with
FMul/FAdd.  Per-run contract: every symbol emitted by hamiltonians/models.py is a non-commutative qibo Symbol (otherwise sympy
re-orders factors and the oracle contract `smonos_op ms = denote f` fails: reordered_oracle_violates_contract).
"""
import os as _os
STATIC = ["C15/Props", "C15/History", "C15/PropsHist", "C15/PropsModels"]
import itertools
import math
import random

import numpy as np

from lib import vcore

HEADER = """From Coq Require Import ZArith List Bool.
From QV Require Import Base.Mat Base.Zi C15.MatDefs C15.Model.
Import ListNotations.
Local Open Scope Z_scope.
"""
LIM = 2 ** 50
PNAME = {"I": "PI", "X": "PX", "Y": "PY", "Z": "PZ"}


# ------------------------------------------------------------------ exact data -> Coq text
class Inexact(Exception):
    pass


def zi(c):
    c = complex(c)
    a, b = round(c.real), round(c.imag)
    if abs(c.real - a) > 0 or abs(c.imag - b) > 0 or abs(a) >= LIM or abs(b) >= LIM:
        raise Inexact(f"not an exact Gaussian integer: {c!r}")
    return f"({a},{b})"


def zint(x):
    x = float(np.real(x)) if not isinstance(x, int) else x
    a = round(x)
    if x != a or abs(a) >= LIM:
        raise Inexact(f"not an exact integer: {x!r}")
    return str(a) if a >= 0 else f"({a})"


def cvec(v):
    return "[" + ";".join(zi(x) for x in np.asarray(v).ravel()) + "]"


def cmat(M):
    M = np.asarray(M)
    return "[" + ";".join(cvec(r) for r in M) + "]"


def ccol(v):
    return "[" + ";".join("[" + zi(x) + "]" for x in np.asarray(v).ravel()) + "]"


def znats(l):
    return "(nats [" + ";".join(str(int(x)) for x in l) + "])"


def zlist(l):
    return "[" + ";".join(zint(int(x)) for x in l) + "]"


# ------------------------------------------------------------------ own AST of forms
# ("S", P, q) | ("N", a, b) | ("A", l, r) | ("M", l, r) | ("P", f, k)
def ast_coq(f):
    t = f[0]
    if t == "S":
        return f"(zsym {PNAME[f[1]]} {f[2]})"
    if t == "N":
        return f"(FNum ({f[1]},{f[2]}))"
    if t == "A":
        return f"(FAdd {ast_coq(f[1])} {ast_coq(f[2])})"
    if t == "M":
        return f"(FMul {ast_coq(f[1])} {ast_coq(f[2])})"
    if t == "P":
        return f"(zpow {ast_coq(f[1])} {f[2]})"
    if t == "C":        # ("C", label, coq term): a built-in model, specified by the Coq form of its documented formula
        return f"({f[2]})"
    raise ValueError(f)


def ast_str(f):
    t = f[0]
    if t == "S":
        return f"{f[1]}{f[2]}"
    if t == "C":
        return f[1]
    if t == "N":
        return f"({f[1]}{f[2]:+d}j)" if f[2] else str(f[1])
    if t == "A":
        return f"({ast_str(f[1])} + {ast_str(f[2])})"
    if t == "M":
        return f"{ast_str(f[1])}*{ast_str(f[2])}"
    return f"({ast_str(f[1])})**{f[2]}"


def ast_sympy(f, use_complex=True):
    """build the sympy expression through qibo's public symbols, the way a user writes it"""
    import sympy
    from qibo import symbols
    t = f[0]
    if t == "S":
        return getattr(symbols, f[1])(f[2])
    if t == "N":
        if f[2] == 0:
            return sympy.Integer(f[1])
        return sympy.sympify(complex(f[1], f[2])) if use_complex else sympy.Integer(f[1]) + sympy.Integer(f[2]) * sympy.I
    if t == "A":
        return ast_sympy(f[1], use_complex) + ast_sympy(f[2], use_complex)
    if t == "M":
        return ast_sympy(f[1], use_complex) * ast_sympy(f[2], use_complex)
    return ast_sympy(f[1], use_complex) ** f[2]


def ast_qubits(f):
    t = f[0]
    if t == "S":
        return {f[2]}
    if t == "N":
        return set()
    if t == "P":
        return ast_qubits(f[1])
    return ast_qubits(f[1]) | ast_qubits(f[2])


def rand_num(rng, cplx=0.3):
    a = rng.choice([-3, -2, -1, 1, 2, 3])
    b = rng.choice([-2, -1, 1, 2]) if rng.random() < cplx else 0
    return ("N", a, b)


def rand_form(rng, n, depth, paulis="IXYZ", cplx=0.3):
    if depth == 0 or rng.random() < 0.25:
        if rng.random() < 0.15:
            return rand_num(rng, cplx)
        return ("S", rng.choice(paulis), rng.randrange(n))
    r = rng.random()
    if r < 0.35:
        return ("A", rand_form(rng, n, depth - 1, paulis, cplx), rand_form(rng, n, depth - 1, paulis, cplx))
    if r < 0.85:
        return ("M", rand_form(rng, n, depth - 1, paulis, cplx), rand_form(rng, n, depth - 1, paulis, cplx))
    return ("P", rand_form(rng, n, depth - 1, paulis, cplx), rng.randrange(0, 4))


def rand_product(rng, n, k, paulis="XYZ"):
    """a single product with k factors (several of them on the same qubit) times a scalar"""
    f = ("S", rng.choice(paulis), rng.randrange(n))
    for _ in range(k - 1):
        f = ("M", f, ("S", rng.choice(paulis), rng.randrange(n)))
    return ("M", rand_num(rng), f)


def rand_pow_base(rng, n):
    """a product (or a sum of products, or a product with a sum) whose factors ANTICOMMUTE on one qubit"""
    q = rng.randrange(n)
    a, b = rng.sample("XYZ", 2)
    style = rng.random()
    prod = ("M", ("S", a, q), ("S", b, q))
    if style < 0.35:
        base = prod
    elif style < 0.55:      # scalar (often imaginary) times the product: (1j*X0*Y0)
        base = ("M", rng.choice([("N", 0, 1), ("N", 0, -1), ("N", 2, 0), ("N", 1, 1)]), prod)
    elif style < 0.75:      # (X0 + Z0) * Y0
        c = rng.choice([x for x in "XYZ" if x != a])
        base = ("M", ("A", ("S", a, q), ("S", c, q)), ("S", b, q)) if rng.random() < 0.5 else ("M", ("S", b, q), ("A", ("S", a, q), ("S", c, q)))
    elif style < 0.9:       # sum of products
        q2 = rng.randrange(n)
        c, d = rng.sample("XYZ", 2)
        base = ("A", prod, ("M", ("S", c, q2), ("S", d, q2)))
    else:                   # three factors, two qubits
        base = ("M", prod, ("S", rng.choice("XYZ"), rng.randrange(n)))
    return base


def rand_pow_form(rng, n):
    """integer powers of such bases, nested inside sums and scalar multiples"""
    f = ("P", rand_pow_base(rng, n), rng.choice([2, 2, 3, 3, 4, 5]))
    r = rng.random()
    if r < 0.3:
        f = ("M", rand_num(rng, 0.4), f)
    elif r < 0.5:
        f = ("M", f, ("S", rng.choice("XYZ"), rng.randrange(n)))
    if rng.random() < 0.6:
        other = rand_num(rng, 0.0) if rng.random() < 0.3 else rand_tfim_like(rng, n) if n > 1 else ("S", rng.choice("XYZ"), 0)
        f = ("A", f, other) if rng.random() < 0.5 else ("A", other, f)
    if rng.random() < 0.25:
        f = ("A", f, ("M", rand_num(rng, 0.3), ("P", rand_pow_base(rng, n), rng.choice([2, 3]))))
    return f


def sympy_pow_over_products(expr):
    """number of Pow nodes of the sympy tree whose base is a Mul or an Add (they must survive sympy's canonicalisation)"""
    import sympy
    return sum(1 for e in sympy.preorder_traversal(expr) if isinstance(e, sympy.Pow) and isinstance(e.base, (sympy.Mul, sympy.Add)))


def rand_tfim_like(rng, n):
    """at most one factor per qubit per term (what the unit tests use)"""
    terms = []
    for _ in range(rng.randrange(1, 5)):
        qs = rng.sample(range(n), rng.randrange(1, n + 1))
        f = rand_num(rng, 0.2)
        for q in qs:
            f = ("M", f, ("S", rng.choice("XYZ"), q))
        terms.append(f)
    out = terms[0]
    for t in terms[1:]:
        out = ("A", out, t)
    if rng.random() < 0.4:
        out = ("A", out, rand_num(rng, 0.0))
    return out


# ------------------------------------------------------------------ sympy tree / oracle monomials
class Unsupported(Exception):
    pass


def tree_coq(term):
    """the sympy tree exactly as SymbolicHamiltonian._get_symbol_matrix traverses it"""
    import sympy
    from qibo.symbols import Symbol
    if isinstance(term, sympy.Add):
        parts = [tree_coq(t) for t in term.as_ordered_terms()]
        out = parts[0]
        for p in parts[1:]:
            out = f"(FAdd {out} {p})"
        return out
    if isinstance(term, sympy.Mul):
        parts = [tree_coq(t) for t in term.as_ordered_factors()]
        out = parts[0]
        for p in parts[1:]:
            out = f"(FMul {out} {p})"
        return out
    if isinstance(term, sympy.Pow):
        base, exponent = term.as_base_exp()
        if int(exponent) < 0 or int(exponent) != exponent:
            raise Unsupported("negative / non-integer power")
        return f"(zpow {tree_coq(base)} {int(exponent)})"
    if isinstance(term, Symbol):
        return f"(zsym {PNAME[term.name[0]]} {term.target_qubit})"
    if term.is_number:
        return f"(FNum {zi(complex(term))})"
    raise Unsupported(str(type(term)))


def oracle_monomials(form):
    """sympy.expand(form).as_coefficients_dict() as (coefficient, as_ordered_factors) pairs -> Coq smono list"""
    import sympy
    from qibo.symbols import Symbol
    ex = sympy.expand(form)
    out = []
    for f, c in ex.as_coefficients_dict().items():
        facs = []
        if f != 1:
            for factor in f.as_ordered_factors():
                if isinstance(factor, sympy.Pow):
                    base, pw = factor.args
                    if not isinstance(base, Symbol) or int(pw) < 0:
                        raise Unsupported(f"power {factor}")
                    facs.append(f"zsf {PNAME[base.name[0]]} {base.target_qubit} {int(pw)}")
                elif isinstance(factor, Symbol):
                    facs.append(f"zsf {PNAME[factor.name[0]]} {factor.target_qubit} 1")
                elif factor == sympy.I:
                    facs.append("SN (0,1)")
                elif factor.is_number:
                    facs.append(f"SN {zi(complex(factor))}")
                else:
                    raise Unsupported(f"factor {factor}")
        out.append(f"({zi(complex(c))}, [{';'.join(facs)}])")
    return "[" + ";".join(out) + "]"


def impl_terms_coq(h):
    ts = []
    for t in h.terms:
        facs = ";".join(f"zfac {PNAME[f.name[0]]} {f.target_qubit}" for f in t.factors)
        ts.append(f"mk_sterm {zi(t.coefficient)} [{facs}]")
    return "[" + ";".join(ts) + "]", zi(h.constant)


# ------------------------------------------------------------------ the run
class Batch:
    """collects boolean Coq terms; evaluates them in files of <= 400 terms"""

    def __init__(self, run, name):
        self.run, self.name, self.items = run, name, []

    def add(self, label, term, meta=None, expect=True, on_false=None):
        self.items.append((label, term, meta or {}, expect, on_false))

    def flush(self):
        """chunks of <= 400 terms, evaluated by up to 4 coqc processes side by side"""
        from concurrent.futures import ThreadPoolExecutor
        res = {}
        chunks = [(k // 400, self.items[k:k + 400]) for k in range(0, len(self.items), 400)]

        def work(job):
            j, chunk = job
            return j, self.run.coq_bools(f"{self.name}_{j}.v", HEADER, [(l, t) for l, t, _, _, _ in chunk], timeout=900)
        with ThreadPoolExecutor(max_workers=4) as ex:
            done = list(ex.map(work, chunks))
        for j, (r, out) in done:
            if r is None:
                self.run.find(f"coq:{self.name}_{j}", "generated correspondence file does not compile",
                              {"log": out[-1500:]}, concrete=False)
                continue
            res.update(r)
        return res


def has_same_qubit_factors(h):
    return any(len(t.target_qubits) != len(t.factors) for t in h.terms)


def rand_state(rng, n):
    return np.array([complex(rng.randrange(-3, 4), rng.randrange(-3, 4)) for _ in range(2 ** n)])


def rand_dm(rng, n):
    N = 2 ** n
    return np.array([[complex(rng.randrange(-2, 3), rng.randrange(-2, 3)) for _ in range(N)] for _ in range(N)])


def to_arr(x, shape):
    """`total = 0` of apply_gates when a Hamiltonian has no terms and no constant"""
    if isinstance(x, (int, float, complex)):
        return np.zeros(shape, dtype=complex) + x
    return np.asarray(x)


def check_symbolic(run, B, tag, ast, n, rng, expr=None, deep=True, ham=None, extra=None, max_term_items=10 ** 6):
    """all observation points of one symbolic Hamiltonian against model and specification; `ham` = an existing object
    (result of the real algebra operators) to observe instead of building one from `expr`"""
    from qibo.hamiltonians import SymbolicHamiltonian
    import sympy
    if ham is None:
        expr = ast_sympy(ast, use_complex=rng.random() < 0.7) if expr is None else expr
        if not isinstance(expr, sympy.Expr):
            expr = sympy.sympify(expr)
    desc = {"form": ast_str(ast), "nqubits": n, **(extra or {})}
    try:
        h = SymbolicHamiltonian(expr, nqubits=n) if ham is None else ham
        M = np.asarray(h.matrix)
        A = ast_coq(ast)
        T = tree_coq(h.form)
        try:
            orc = oracle_monomials(h.form)
        except Unsupported as e:
            # nested powers of a symbol such as (Y0**3)**2: SymbolicTerm.__init__ asserts; the dense route works
            try:
                h.terms
                run.find(f"oracle:{desc['form']}", f"harness cannot read sympy's monomials ({e}) but h.terms succeeded", desc, concrete=False)
            except AssertionError:
                run.notes.setdefault("terms_refused_by_implementation", []).append({**desc, "sympy_form": str(h.form), "why": str(e)})
            run.case(["symbolic-dense-only", desc["form"], n])
            B.add(f"{tag}:matrix_spec", f"meqb (denote {n}%nat {A}) {cmat(M)}", {**desc, "what": "h.matrix vs [[form]]"})
            B.add(f"{tag}:matrix_model", f"omeqb (dense {n}%nat {T}) {cmat(M)}", {**desc, "what": "h.matrix vs model of _get_symbol_matrix"})
            return None
        its, const = impl_terms_coq(h)
        multi = has_same_qubit_factors(h)
        desc["sympy_form"] = str(h.form)
        npow = sympy_pow_over_products(h.form)
        if npow:
            run.notes["pow_over_product_or_sum_bases"] = run.notes.get("pow_over_product_or_sum_bases", 0) + 1
        desc["same_qubit_factors"] = multi
        run.case(["symbolic", desc["form"], n], nontrivial=(len(h.terms) > 0))
        run.sample({"kind": "symbolic form", **desc, "terms": [(str(t.coefficient), [f.name for f in t.factors]) for t in h.terms][:6]})
        B.add(f"{tag}:matrix_spec", f"meqb (denote {n}%nat {A}) {cmat(M)}", {**desc, "what": "h.matrix vs [[form]]"})
        B.add(f"{tag}:matrix_model", f"omeqb (dense {n}%nat {T}) {cmat(M)}", {**desc, "what": "h.matrix vs model of _get_symbol_matrix"})
        B.add(f"{tag}:terms_model",
              f"(let tc := terms_of {orc} in list_eqb sterm_eqb (fst tc) {its} && zi_eqb (snd tc) {const})",
              {**desc, "what": "h.terms / h.constant vs model of SymbolicTerm.__init__ on sympy's monomials"})
        for j, t in enumerate(h.terms[:max_term_items]):
            B.add(f"{tag}:term_matrix{j}",
                  f"(let t := nth {j}%nat (fst (terms_of {orc})) (mk_sterm zi0 []) in "
                  f"meqb (term_matrix t) {cmat(t.matrix)} && list_eqb Nat.eqb (t_targets t) {znats(t.target_qubits)})",
                  {**desc, "what": "SymbolicTerm.matrix / target_qubits"})
        B.add(f"{tag}:terms_sum_spec", f"meqb (terms_matrix {n}%nat (terms_of {orc})) (denote {n}%nat {A})",
              {**desc, "what": "sum of embedded term matrices + constant vs [[form]] (sympy oracle contract)"})
        B.add(f"{tag}:own_expansion", f"meqb (smonos_op {n}%nat {orc}) (smonos_op {n}%nat (map compress_mono (expand {A})))",
              {**desc, "what": "sympy's expansion vs the model's own expansion"})
        if not deep:
            return h
        if not h.terms and not h.constant:
            # the form expands to the zero operator: apply_gates returns the python int 0 (`total = 0`), so h @ rho is not an
            # array and expectation(rho) raises; excluded by the hypothesis of apply_ok (terms <> [] or constant <> 0)
            run.notes.setdefault("zero_operator_forms", []).append(desc["form"])
            return h
        psi = rand_state(rng, n)
        rho = rand_dm(rng, n)
        hpsi = to_arr(h @ psi, psi.shape)
        hrho = to_arr(h @ rho, rho.shape)
        ev = h.expectation(psi)
        evd = h.expectation(rho)
        hd = h.dense
        dpsi, drho = hd @ psi, hd @ rho
        evD, evdD = hd.expectation(psi), hd.expectation(rho)
        nrm = float(np.sum(np.abs(psi) ** 2))
        evn = h.dense.expectation(psi, normalize=True) if nrm else None
        P, R = ccol(psi), cmat(rho)
        rp = {**desc, "psi": [[int(x.real), int(x.imag)] for x in psi]}
        cls = "order" if multi else "plain"
        # faithful model
        B.add(f"{tag}:apply_model", f"meqb (apply_gates {n}%nat (terms_of {orc}) {P}) {ccol(hpsi)}", {**rp, "what": "h @ psi vs model of apply_gates"})
        B.add(f"{tag}:apply_dm_model", f"meqb (apply_gates {n}%nat (terms_of {orc}) {R}) {cmat(hrho)}", {**rp, "what": "h @ rho vs model of apply_gates"})
        B.add(f"{tag}:expect_model", f"({zint(ev)} =? sym_expect_state {n}%nat (terms_of {orc}) {P})", {**rp, "what": "expectation(psi) vs model"})
        B.add(f"{tag}:expect_dm_model", f"({zint(evd)} =? sym_expect_dm {n}%nat (terms_of {orc}) {R})", {**rp, "what": "expectation(rho) vs model"})
        # specification
        B.add(f"{tag}:apply_spec:{cls}", f"meqb (apply_spec {n}%nat {A} {P}) {ccol(hpsi)}",
              {**rp, "what": "h @ psi vs [[form]] psi", "impl": [[int(x.real), int(x.imag)] for x in hpsi], "kind": "apply"})
        B.add(f"{tag}:apply_dm_spec:{cls}", f"meqb (apply_spec {n}%nat {A} {R}) {cmat(hrho)}", {**rp, "what": "h @ rho vs [[form]] rho", "kind": "apply_dm"})
        B.add(f"{tag}:expect_spec:{cls}", f"({zint(ev)} =? dense_expect_state (denote {n}%nat {A}) {P})",
              {**rp, "what": "h.expectation(psi) vs Re <psi|[[form]]|psi>", "impl": float(ev), "kind": "expect"})
        B.add(f"{tag}:expect_dm_spec:{cls}", f"({zint(evd)} =? dense_expect_dm (denote {n}%nat {A}) {R})", {**rp, "what": "h.expectation(rho) vs Re tr([[form]] rho)", "kind": "expect_dm"})
        if multi and desc.get("mechanism") != "model_algebra":   # the HISTORICAL model (factors applied first-to-last), only to classify a regression precisely
            B.add(f"{tag}:apply_modelprefix", f"meqb (apply_gates_prefix {n}%nat (terms_of {orc}) {P}) {ccol(hpsi)}", rp, expect=None)
            B.add(f"{tag}:apply_dm_modelprefix", f"meqb (apply_gates_prefix {n}%nat (terms_of {orc}) {R}) {cmat(hrho)}", rp, expect=None)
            B.add(f"{tag}:expect_modelprefix", f"({zint(ev)} =? sym_expect_state_prefix {n}%nat (terms_of {orc}) {P})", rp, expect=None)
            B.add(f"{tag}:expect_dm_modelprefix", f"({zint(evd)} =? sym_expect_dm_prefix {n}%nat (terms_of {orc}) {R})", rp, expect=None)
        # dense route
        B.add(f"{tag}:dense_apply", f"meqb (apply_spec {n}%nat {A} {P}) {ccol(dpsi)} && meqb (apply_spec {n}%nat {A} {R}) {cmat(drho)}", {**rp, "what": "h.dense @ psi / rho"})
        B.add(f"{tag}:dense_expect", f"({zint(evD)} =? dense_expect_state (denote {n}%nat {A}) {P}) && ({zint(evdD)} =? dense_expect_dm (denote {n}%nat {A}) {R})", {**rp, "what": "h.dense.expectation"})
        B.add(f"{tag}:dense_add", f"meqb (madd ZK (denote {n}%nat {A}) (denote {n}%nat {A})) {cmat((hd + hd).matrix)} && meqb (denote {n}%nat (s_add {A} {A})) {cmat((h + h).matrix)}",
              {**rp, "what": "(H + H).matrix, dense and symbolic"})
        if evn is not None:
            # normalize=True: correctly rounded quotient of two exact integers
            num = round(float(evD))
            okq = (float(evn) == num / nrm)
            run.case(["normalize", desc["form"], n], nontrivial=False)
            if not okq:
                run.find(f"expect_normalize:{desc['form']}", "expectation(normalize=True) is not expectation/norm", rp)
        return h
    except Inexact as e:
        run.notes.setdefault("skipped_inexact", []).append({**desc, "why": str(e)})
    except Unsupported as e:
        run.notes.setdefault("skipped_unsupported", []).append({**desc, "why": str(e)})
    return None


def gen_forms(run, rng):
    quick = run.tier == "quick"
    forms = []
    # fixed witnesses first
    forms.append((1, ("M", ("S", "X", 0), ("S", "Y", 0))))
    forms.append((1, ("M", ("N", 0, 1), ("M", ("S", "X", 0), ("S", "Y", 0)))))
    forms.append((2, ("M", ("M", ("S", "Z", 0), ("S", "Z", 1)), ("S", "Z", 0))))
    forms.append((2, ("P", ("A", ("S", "X", 0), ("S", "Z", 1)), 3)))
    forms.append((3, ("A", ("M", ("S", "X", 2), ("M", ("S", "Y", 0), ("S", "X", 2))), ("N", 2, 0))))
    forms.append((2, ("M", ("S", "I", 1), ("P", ("S", "Y", 0), 3))))
    # powers of bases with anticommuting factors on one qubit
    forms.append((1, ("P", ("M", ("S", "X", 0), ("S", "Z", 0)), 2)))                                  # (X0*Z0)**2 = -1
    forms.append((1, ("P", ("M", ("N", 0, 1), ("M", ("S", "X", 0), ("S", "Y", 0))), 3)))               # (1j*X0*Y0)**3
    forms.append((1, ("P", ("M", ("A", ("S", "X", 0), ("S", "Z", 0)), ("S", "Y", 0)), 2)))             # ((X0+Z0)*Y0)**2
    forms.append((2, ("A", ("M", ("N", 3, 0), ("P", ("M", ("S", "X", 1), ("S", "Z", 1)), 2)), ("M", ("S", "Z", 0), ("S", "Z", 1)))))
    forms.append((2, ("P", ("A", ("M", ("S", "X", 0), ("S", "Y", 0)), ("M", ("S", "Z", 1), ("S", "X", 1))), 3)))
    for _ in range(40 if quick else 250):
        n = rng.choice([1, 2, 2, 3])
        forms.append((n, rand_pow_form(rng, n)))
    for _ in range(40 if quick else 400):
        n = rng.choice([1, 2, 2, 3, 3, 3] + ([] if quick else [4]))
        forms.append((n, rand_form(rng, n, rng.choice([2, 3, 3, 4]))))
    for _ in range(25 if quick else 250):
        n = rng.choice([1, 2, 3])
        forms.append((n, rand_product(rng, n, rng.randrange(2, 6))))
    for _ in range(25 if quick else 250):
        n = rng.choice([2, 3] + ([] if quick else [4]))
        forms.append((n, rand_tfim_like(rng, n)))
    return forms


def run_forms(run, rng):
    B = Batch(run, "C15_forms")
    hs = []
    for i, (n, ast) in enumerate(gen_forms(run, rng)):
        h = check_symbolic(run, B, f"f{i}", ast, n, rng)
        if h is not None:
            hs.append((n, ast, h))
    res = B.flush()
    judge(run, B, res)
    need = 30 if run.tier == "quick" else 200
    if run.notes.get("pow_over_product_or_sum_bases", 0) < need:
        run.find("generator:pow_over_products", f"fewer than {need} forms kept a Pow node over a Mul/Add base after sympy's canonicalisation", {}, concrete=False)
    return hs


def judge(run, B, res):
    """turn false booleans into findings; spec failures are classified with the help of the model"""
    for label, term, meta, expect, on_false in B.items:
        if label not in res:
            continue
        ok = res[label]
        tag = label.split(":")[0]
        parts = label.split(":")
        what = parts[1]
        if ok or expect is None:
            continue
        if meta.get("mechanism") == "model_algebra":
            if what.endswith("_model") and what.split("_model")[0] in ("apply", "apply_dm", "expect", "expect_dm") or what.endswith("_modelprefix"):
                continue
            seen = B.__dict__.setdefault("ma_seen", {})
            seen[what] = seen.get(what, 0) + 1
            if seen[what] > 2:
                continue
            run.find(f"model_algebra:{what}:{meta['form']}", f"{meta.get('what', label)} differs for the composite {meta['form']} built with the real "
                     "operators (+, -, scalar *, @) from built-in symbolic models (dense=False) and hand-written forms", dict(meta))
            continue
        if what.endswith("_model") and what.split("_model")[0] in ("apply", "apply_dm", "expect", "expect_dm"):
            continue        # reported through the corresponding _spec item (the live model is proved equal to the spec)
        if what.endswith("_spec") and what.split("_spec")[0] in ("apply", "apply_dm", "expect", "expect_dm"):
            # the implementation disagrees with the mathematical operator.  It is the (repaired) factor-order
            # defect again iff the historical model reproduces the implementation on a form with several
            # factors on one qubit.
            old_ok = res.get(f"{tag}:{what.replace('_spec', '_modelprefix')}", False)
            if parts[2] == "order" and old_ok:
                run.find(f"factor_order:{what.replace('_spec', '')}:{meta['form']}",
                         f"SymbolicTerm.__call__ applies same-qubit factors in reverse order: {meta['what']} differs for {meta['sympy_form']}",
                         {"mechanism": "symbolic", **meta})
            else:
                run.find(f"{what}:{meta['form']}", f"{meta['what']} differs (not explained by the factor order)", {"mechanism": "symbolic", **meta})
        elif on_false is not None:
            on_false(run, label, meta)
        else:
            run.find(f"{what}:{meta.get('form', meta.get('case', tag))}", f"{meta.get('what', label)} differs", {"mechanism": meta.get("mechanism", "symbolic"), **meta})


# ------------------------------------------------------------------ algebra
def run_algebra(run, rng, hs):
    from qibo.hamiltonians import Hamiltonian
    B = Batch(run, "C15_algebra")
    pool = {}
    for n, ast, h in hs:
        pool.setdefault(n, []).append((ast, h))
    count = 30 if run.tier == "quick" else 300
    k = 0
    for _ in range(count):
        n = rng.choice([m for m in pool if len(pool[m]) >= 2 and m <= 3])
        (a1, h1), (a2, h2) = rng.sample(pool[n], 2)
        cnum = rand_num(rng, 0.4)
        c = complex(cnum[1], cnum[2]) if cnum[2] else cnum[1]
        C = f"({cnum[1]},{cnum[2]})"
        A1, A2 = ast_coq(a1), ast_coq(a2)
        desc = {"h1": ast_str(a1), "h2": ast_str(a2), "c": str(c), "nqubits": n, "mechanism": "algebra"}
        run.case(["algebra", desc["h1"], desc["h2"], str(c)])
        if k < 2:
            run.sample({"kind": "algebra", **desc})
        try:
            M1, M2 = cmat(h1.matrix), cmat(h2.matrix)
            ops_sym = [("add", h1 + h2, f"s_add {A1} {A2}", f"d_add {M1} {M2}"),
                       ("sub", h1 - h2, f"s_sub {A1} {A2}", f"d_sub {M1} {M2}"),
                       ("addc", h1 + c, f"s_addc {A1} {C}", f"d_addc {n}%nat {M1} {C}"),
                       ("subc", h1 - c, f"s_subc {A1} {C}", f"d_subc {n}%nat {M1} {C}"),
                       ("rsubc", c - h1, f"s_rsubc {A1} {C}", f"d_rsubc {n}%nat {M1} {C}"),
                       ("mul", c * h1, f"s_mul {A1} {C}", f"d_mul {M1} {C}"),
                       ("rmul", h1 * c, f"s_mul {A1} {C}", f"d_mul {M1} {C}"),
                       ("matmul", h1 @ h2, f"s_matmul {A1} {A2}", f"d_matmul {M1} {M2}")]
            for name, r, sform, darith in ops_sym:
                R = cmat(r.matrix)
                B.add(f"a{k}:sym_{name}", f"meqb (denote {n}%nat ({sform})) {R} && meqb ({darith}) {R} && omeqb (dense {n}%nat {tree_coq(r.form)}) {R}",
                      {**desc, "case": f"{name}:{desc['h1']}|{desc['h2']}|{c}", "what": f"symbolic {name}: result matrix vs [[composed form]] and vs matrix arithmetic"})
            d1, d2 = h1.dense, h2.dense
            d1 = Hamiltonian(n, np.array(d1.matrix), backend=d1.backend)
            ops_den = [("add", d1 + d2, f"d_add {M1} {M2}"), ("sub", d1 - d2, f"d_sub {M1} {M2}"),
                       ("addc", d1 + c, f"d_addc {n}%nat {M1} {C}"), ("subc", d1 - c, f"d_subc {n}%nat {M1} {C}"),
                       ("rsubc", c - d1, f"d_rsubc {n}%nat {M1} {C}"), ("mul", c * d1, f"d_mul {M1} {C}"),
                       ("rmul", d1 * c, f"d_mul {M1} {C}"), ("matmul", d1 @ d2, f"d_matmul {M1} {M2}")]
            for name, r, darith in ops_den:
                B.add(f"a{k}:dense_{name}", f"meqb ({darith}) {cmat(r.matrix)}",
                      {**desc, "case": f"dense_{name}:{desc['h1']}|{desc['h2']}|{c}", "what": f"dense {name} vs matrix arithmetic"})
        except (Inexact, Unsupported) as e:
            run.notes.setdefault("skipped_inexact", []).append({**desc, "why": str(e)})
        k += 1
    judge(run, B, B.flush())


# ------------------------------------------------------------------ eigenvalue cache
def run_eigs(run, rng):
    from qibo.hamiltonians import Hamiltonian
    B = Batch(run, "C15_eigs")
    count = 20 if run.tier == "quick" else 200
    for k in range(count):
        n = rng.choice([1, 2, 3])
        diag = [rng.randrange(-6, 7) for _ in range(2 ** n)]
        h = Hamiltonian(n, np.diag(diag).astype(complex))
        ev = np.asarray(h.eigenvalues())
        lam = sorted(diag)
        if not np.allclose(ev, lam, atol=1e-9):
            run.find(f"eig:{diag}", "eigenvalues of a diagonal matrix are not its sorted diagonal", {"diag": diag})
            continue
        h._eigenvalues = np.array(lam, dtype=float)      # exact cache (eigvalsh is an oracle here)
        for a in rng.sample([-4, -3, -2, -1, 0, 1, 2, 3, 5], 4):
            for side, r in (("rmul", a * h), ("mul", h * a)):
                got = np.real(np.asarray(r._eigenvalues))
                run.case(["eig", diag, a, side])
                meta = {"diag": diag, "a": a, "case": f"eig_rescale:{side}:a={a}:diag={diag}", "mechanism": "eig",
                        "what": "cached eigenvalues of a*H vs ascending a*lambda"}
                if k == 0 and a < 0 and side == "mul":
                    run.sample({"kind": "eigenvalue cache", "diag": diag, "a": a, "cached": [float(x) for x in got]})
                B.add(f"e{k}:{side}:{a}", f"list_eqb Z.eqb (eig_rescale {zint(a)} {zlist(lam)}) {zlist(got)} && list_eqb Z.eqb {zlist(sorted(a * x for x in lam))} {zlist(got)}", meta)
    judge(run, B, B.flush())


# ------------------------------------------------------------------ expectation from samples
def rand_zform(rng, n, repeats):
    terms = []
    for _ in range(rng.randrange(1, 4)):
        k = rng.randrange(1, n + 1)
        qs = rng.sample(range(n), k)
        if repeats and rng.random() < 0.6:
            qs = qs + [rng.choice(qs)]
            if rng.random() < 0.3 or len(qs) < 3:
                rng.shuffle(qs)
            else:       # the repeated qubit first and last: sympy cannot merge the two factors
                r = qs[-1]
                rest = [q for q in qs[:-1] if q != r]
                qs = [r] + rest + [r]
        f = ("N", rng.choice([-3, -2, -1, 1, 2, 3]), 0)
        for q in qs:
            f = ("M", f, ("S", "Z", q))
        terms.append(f)
    out = terms[0]
    for t in terms[1:]:
        out = ("A", out, t)
    if rng.random() < 0.4:
        out = ("A", out, ("N", rng.choice([-2, -1, 1, 2]), 0))
    return out


def rand_freq(rng, width):
    total = rng.choice([8, 16, 64, 256])
    keys = rng.sample(["".join(b) for b in itertools.product("01", repeat=width)], min(2 ** width, rng.randrange(1, 5)))
    cuts = sorted(rng.randrange(0, total + 1) for _ in range(len(keys) - 1))
    counts = [b - a for a, b in zip([0] + cuts, cuts + [total])]
    return {k: c for k, c in zip(keys, counts) if c > 0} or {keys[0]: total}


def freq_coq(fr):
    return "[" + ";".join(f"(bits [{';'.join(k)}], {c})" for k, c in fr.items()) + "]"


def samples_value(val, total):
    """impl value = numerator / total with total a power of two: exact"""
    return zint(float(val) * total)


def run_samples(run, rng, only=None):
    from qibo.hamiltonians import SymbolicHamiltonian, Hamiltonian
    B = Batch(run, "C15_samples")
    count = 40 if run.tier == "quick" else 400
    fixed = [(2, ("M", ("M", ("S", "Z", 0), ("S", "Z", 1)), ("S", "Z", 0)), {"00": 2, "10": 6}, [0, 1]),
             (3, ("S", "Z", 0), {"0": 2, "1": 6}, [0]),
             (3, ("M", ("S", "Z", 0), ("S", "Z", 1)), {"01": 2, "11": 6}, [1, 0])]
    if only is not None:
        fixed, count = [only], 0
    for k in range(count + len(fixed)):
        if k < len(fixed):
            n, ast, fr, qmap = fixed[k]
            repeats = True
        else:
            n = rng.choice([1, 2, 3])
            repeats = rng.random() < 0.4
            ast = rand_zform(rng, n, repeats)
            need = sorted(ast_qubits(ast))
            style = rng.random()
            if style < 0.5:
                qmap = list(range(n))
                rng.shuffle(qmap)
            elif style < 0.7:
                extra = [q for q in range(n) if q not in need and rng.random() < 0.5]
                qmap = need + extra
                rng.shuffle(qmap)
            elif style < 0.85:       # a proper prefix of the register (accepted by the dense route)
                qmap = list(range(max(need) + 1))
                rng.shuffle(qmap)
            else:
                qmap = None
            fr = rand_freq(rng, len(qmap) if qmap is not None else n)
        A = ast_coq(ast)
        desc = {"form": ast_str(ast), "nqubits": n, "freq": fr, "qubit_map": qmap, "mechanism": "samples"}
        try:
            h = SymbolicHamiltonian(ast_sympy(ast), nqubits=n)
            orc = oracle_monomials(h.form)
            multi = has_same_qubit_factors(h)
            total = sum(fr.values())
            val = h.expectation_from_samples(dict(fr), None if qmap is None else list(qmap))
            qm = qmap if qmap is not None else list(range(n))
            V = samples_value(val, total)
            run.case(["samples", desc["form"], fr, qmap])
            if k < 2:
                run.sample({"kind": "expectation_from_samples", **desc, "value": float(val)})
            B.add(f"s{k}:samples_model", f"opair_eqb (sym_samples (terms_of {orc}) {freq_coq(fr)} {znats(qm)}) (Some ({V}, {total}))",
                  {**desc, "case": f"sym:{desc['form']}", "what": "SymbolicHamiltonian.expectation_from_samples vs model"})
            if multi:
                B.add(f"s{k}:samples_modelprefix", f"opair_eqb (sym_samples_prefix (terms_of {orc}) {freq_coq(fr)} {znats(qm)}) (Some ({V}, {total}))", desc, expect=None)
            B.add(f"s{k}:samples_spec:{'order' if multi else 'plain'}",
                  f"({V} =? samples_spec {n}%nat (denote {n}%nat {A}) {freq_coq(fr)} {znats(qm)})",
                  {**desc, "value": float(val), "what": "expectation_from_samples vs frequency-weighted eigenvalues of [[form]]"},
                  on_false=samples_false)
            # dense route on the same observable: full permutation maps, and partial maps
            hd = Hamiltonian(n, np.array(h.matrix))
            try:
                vd = hd.expectation_from_samples(dict(fr), None if qmap is None else list(qmap))
                Vd = f"(Some ({samples_value(vd, total)}, {total}))"
            except (IndexError, ValueError, TypeError) as e:
                vd, Vd = None, "None"
            B.add(f"s{k}:dsamples_model", f"opair_eqb (dense_samples {cmat(h.matrix)} {freq_coq(fr)} {znats(qm)}) {Vd}",
                  {**desc, "case": f"dense:{desc['form']}", "what": "Hamiltonian.expectation_from_samples vs model"})
            full = sorted(qm) == list(range(n))
            if not full:
                B.add(f"s{k}:dsamples_modelprefix", f"opair_eqb (dense_samples_prefix {cmat(h.matrix)} {freq_coq(fr)} {znats(qm)}) {Vd}", desc, expect=None)
            if vd is not None:
                B.add(f"s{k}:dsamples_spec:{'full' if full else 'partial'}",
                      f"({samples_value(vd, total)} =? samples_spec {n}%nat (denote {n}%nat {A}) {freq_coq(fr)} {znats(qm)})",
                      {**desc, "value": float(vd), "what": "dense expectation_from_samples vs frequency-weighted eigenvalues"},
                      on_false=samples_false)
        except (Inexact, Unsupported) as e:
            run.notes.setdefault("skipped_inexact", []).append({**desc, "why": str(e)})
    # malformed stream: both sides must refuse
    bad = [(2, ("M", ("S", "X", 0), ("S", "Z", 1)), {"00": 4}, [0, 1], "non-Z factor"),
           (2, ("M", ("S", "Z", 0), ("S", "Z", 1)), {"0": 4}, [0], "qubit missing from the map")]
    if only is not None:
        bad = []
    for j, (n, ast, fr, qmap, why) in enumerate(bad):
        h = SymbolicHamiltonian(ast_sympy(ast), nqubits=n)
        try:
            h.expectation_from_samples(dict(fr), list(qmap))
            refused = False
        except Exception:
            refused = True
        run.case(["samples-malformed", why], nontrivial=False)
        B.add(f"sbad{j}:samples_reject", f"opair_eqb (sym_samples (terms_of {oracle_monomials(h.form)}) {freq_coq(fr)} {znats(qmap)}) None",
              {"case": f"malformed:{why}", "mechanism": "samples", "what": "model refuses what the implementation refuses"},
              expect=refused)
        if not refused:
            run.find(f"samples_accepts:{why}", "implementation accepted a malformed sample request", {"why": why})
    judge(run, B, B.flush())


def samples_false(run, label, meta):
    parts = label.split(":")
    if parts[1] == "samples_spec" and parts[2] == "order":
        run.find(f"samples_parity:{meta['form']}",
                 "SymbolicHamiltonian.expectation_from_samples counts a qubit once even when the term has an even number of Z factors on it",
                 meta)
    elif parts[1] == "dsamples_spec" and parts[2] == "partial":
        run.find(f"samples_dense_partial_map:{meta['form']}:{meta['qubit_map']}",
                 "Hamiltonian.expectation_from_samples weighs qubit i with 2**(len(qubit_map)-1-i) instead of 2**(nqubits-1-i)",
                 meta)
    else:
        run.find(f"{parts[1]}:{meta['form']}:{meta['qubit_map']}", meta["what"] + " differs", meta)


# ------------------------------------------------------------------ model builders
def run_models(run, rng):
    from qibo import hamiltonians as H
    B = Batch(run, "C15_models")
    ns = [2, 3, 4] if run.tier == "quick" else [2, 3, 4, 5]

    def add(tag, what, term, meta):
        run.case(["model", tag], nontrivial=True)
        B.add(f"m:{tag}", term, {"case": tag, "mechanism": "models", "what": what, **meta})

    for n in ns:
        for h in ([0, 1, -2] if run.tier == "quick" else [0, 1, -2, 3, 7]):
            d = H.TFIM(n, h=h, dense=True)
            s = H.TFIM(n, h=h, dense=False)
            M = cmat(d.matrix)
            add(f"TFIM:{n}:{h}", "TFIM dense/symbolic vs model of the builder and vs formula",
                f"meqb (tfim_dense {n}%nat {zint(h)}) {M} && meqb (denote {n}%nat (tfim_form {n}%nat {zint(h)})) {M} "
                f"&& meqb {cmat(s.matrix)} {M} && omeqb (dense {n}%nat {tree_coq(s.form)}) {M}", {"n": n, "h": h})
        for p in "XYZ":
            d = getattr(H, p)(n, dense=True)
            s = getattr(H, p)(n, dense=False)
            M = cmat(d.matrix)
            add(f"{p}:{n}", "one-body Hamiltonian dense/symbolic vs builder model and formula",
                f"meqb (onebody_dense {n}%nat {PNAME[p]}) {M} && meqb (denote {n}%nat (onebody_form {n}%nat {PNAME[p]})) {M} "
                f"&& meqb {cmat(s.matrix)} {M}", {"n": n})
        for _ in range(2 if run.tier == "quick" else 6):
            J = [rng.randrange(-3, 4) for _ in range(3)]
            hf = [rng.randrange(-2, 3) for _ in range(3)]
            d = H.Heisenberg(n, J, hf, dense=True)
            M = cmat(d.matrix)
            Jc, hc = "(" + ",".join(zint(x) for x in J) + ")", "(" + ",".join(zint(x) for x in hf) + ")"
            term = f"meqb (heis_dense {n}%nat {Jc} {hc}) {M} && meqb (denote {n}%nat (heis_form {n}%nat {Jc} {hc})) {M}"
            try:
                s = H.Heisenberg(n, J, hf, dense=False)
                if s.nqubits == n:
                    term += f" && meqb {cmat(s.matrix)} {M}"
            except TypeError:
                pass        # all-zero form: python int 0 is not a sympy.Expr
            add(f"Heisenberg:{n}:{J}:{hf}", "Heisenberg dense/symbolic vs builder model and formula", term, {"n": n, "J": J, "h": hf})
        delta = rng.randrange(-3, 4)
        d = H.XXZ(n, delta=delta, dense=True)
        s = H.XXZ(n, delta=delta, dense=False)
        M = cmat(d.matrix)
        Jc = f"(-1,-1,{zint(-delta)})"
        add(f"XXZ:{n}:{delta}", "XXZ vs Heisenberg(n,[-1,-1,-delta],0) model and formula",
            f"meqb (heis_dense {n}%nat {Jc} (0,0,0)) {M} && meqb (denote {n}%nat (heis_form {n}%nat {Jc} (0,0,0))) {M}"
            + (f" && meqb {cmat(s.matrix)} {M}" if (delta != 0 or True) and s.nqubits == n else ""), {"n": n, "delta": delta})
        Jx = rng.randrange(-3, 4)
        hf = [rng.randrange(-2, 3) for _ in range(3)]
        d = H.XXX(n, Jx, hf, dense=True)
        hc = "(" + ",".join(zint(x) for x in hf) + ")"
        add(f"XXX:{n}:{Jx}:{hf}", "XXX vs Heisenberg(n,J,h) model and formula",
            f"meqb (heis_dense {n}%nat ({zint(Jx)},{zint(Jx)},{zint(Jx)}) {hc}) {cmat(d.matrix)} && "
            f"meqb (denote {n}%nat (heis_form {n}%nat ({zint(Jx)},{zint(Jx)},{zint(Jx)}) {hc})) {cmat(d.matrix)}", {"n": n})
        for _ in range(2 if run.tier == "quick" else 5):
            adj = [[rng.randrange(-2, 4) for _ in range(n)] for _ in range(n)]
            d = H.MaxCut(n, dense=True, adj_matrix=adj)
            s = H.MaxCut(n, dense=False, adj_matrix=adj)
            adjc = "[" + ";".join(zlist(r) for r in adj) + "]"
            add(f"MaxCut:{n}:{adj}", "2*MaxCut dense/symbolic vs formula",
                f"meqb (denote {n}%nat (maxcut2_form {n}%nat {adjc})) {cmat(2 * np.asarray(d.matrix))} && meqb {cmat(s.matrix)} {cmat(d.matrix)}",
                {"n": n, "adj": adj})
        d = H.MaxCut(n, dense=True)
        add(f"MaxCut:{n}:ones", "2*MaxCut default adjacency vs formula",
            f"meqb (denote {n}%nat (maxcut2_form {n}%nat {'[' + ';'.join(zlist([1] * n) for _ in range(n)) + ']'})) {cmat(2 * np.asarray(d.matrix))}", {"n": n})
    judge(run, B, B.flush())



# ------------------------------------------------------------------ built-in models inside the algebra (families D/E)
def _zz3(t):
    return "(" + ",".join(zint(x) for x in t) + ")"


def model_leaf(rec):
    """recipe ["model", name, n, *params] -> (SymbolicHamiltonian built by hamiltonians/models.py with dense=False, spec AST)"""
    from qibo import hamiltonians as H
    name, n = rec[1], rec[2]
    if name == "TFIM":
        return H.TFIM(n, h=rec[3], dense=False), ("C", f"TFIM({n},h={rec[3]})", f"tfim_form {n}%nat {zint(rec[3])}")
    if name in ("X", "Y", "Z"):
        return getattr(H, name)(n, dense=False), ("C", f"{name}model({n})", f"onebody_form {n}%nat {PNAME[name]}")
    if name == "Heisenberg":
        return H.Heisenberg(n, list(rec[3]), list(rec[4]), dense=False), ("C", f"Heisenberg({n},{list(rec[3])},{list(rec[4])})", f"heis_form {n}%nat {_zz3(rec[3])} {_zz3(rec[4])}")
    if name == "XXZ":
        return H.XXZ(n, delta=rec[3], dense=False), ("C", f"XXZ({n},delta={rec[3]})", f"heis_form {n}%nat (-1,-1,{zint(-rec[3])}) (0,0,0)")
    if name == "XXX":
        return H.XXX(n, rec[3], list(rec[4]), dense=False), ("C", f"XXX({n},{rec[3]},{list(rec[4])})", f"heis_form {n}%nat {_zz3([rec[3]] * 3)} {_zz3(rec[4])}")
    if name == "2MaxCut":
        adjc = "[" + ";".join(zlist(r) for r in rec[3]) + "]"
        return 2 * H.MaxCut(n, dense=False, adj_matrix=rec[3]), ("C", f"2*MaxCut({n},{rec[3]})", f"maxcut2_form {n}%nat {adjc}")
    raise ValueError(rec)


def _tup(x):
    return tuple(_tup(y) for y in x) if isinstance(x, list) else x


def build_recipe(rec, n):
    """object tree -> (real object obtained with the real operators, spec AST)"""
    from qibo.hamiltonians import SymbolicHamiltonian
    k = rec[0]
    if k == "model":
        return model_leaf(rec)
    if k == "form":
        a = _tup(rec[1])
        return SymbolicHamiltonian(ast_sympy(a), nqubits=n), a
    if k in ("matmul", "add", "sub"):
        (h1, a1), (h2, a2) = build_recipe(rec[1], n), build_recipe(rec[2], n)
        if h1.nqubits != n or h2.nqubits != n:
            raise Unsupported("nqubits inferred from the form is smaller than the register")
        if k == "matmul":
            return h1 @ h2, ("M", a1, a2)
        if k == "add":
            return h1 + h2, ("A", a1, a2)
        return h1 - h2, ("A", a1, ("M", ("N", -1, 0), a2))
    h1, a1 = build_recipe(rec[2], n)
    c = rec[1]
    if k == "mul":
        return c * h1, ("M", ("N", c, 0), a1)
    if k == "rmul":
        return h1 * c, ("M", ("N", c, 0), a1)
    if k == "addc":
        return h1 + c, ("A", a1, ("N", c, 0))
    if k == "rsubc":
        return c - h1, ("A", ("N", c, 0), ("M", ("N", -1, 0), a1))
    raise ValueError(rec)


def rand_model(rng, n):
    i3 = lambda lo, hi: [rng.randrange(lo, hi) for _ in range(3)]
    k = rng.choice(["TFIM", "TFIM", "Heisenberg", "XXZ", "XXX", "2MaxCut", "X", "Y", "Z"])
    if k == "TFIM":
        return ["model", "TFIM", n, rng.choice([-2, -1, 0, 1, 2, 3])]
    if k == "Heisenberg":
        J = i3(-2, 3)
        J[rng.randrange(3)] = rng.choice([-2, -1, 1, 2])
        return ["model", "Heisenberg", n, J, i3(-1, 2)]
    if k == "XXZ":
        return ["model", "XXZ", n, rng.choice([-2, -1, 1, 2, 3])]
    if k == "XXX":
        return ["model", "XXX", n, rng.choice([-2, -1, 1, 2]), i3(-1, 2)]
    if k == "2MaxCut":
        adj = [[rng.randrange(-2, 4) for _ in range(n)] for _ in range(n)]
        adj[0][n - 1] = adj[0][n - 1] or 1
        return ["model", "2MaxCut", n, adj]
    return ["model", k, n]


def _lst(x):
    return [_lst(y) for y in x] if isinstance(x, tuple) else x


def rand_hand_form(rng, n):
    """a hand-written NON-commuting form that mentions the last qubit (default symbols)"""
    r = rng.random()
    f = rand_product(rng, n, rng.randrange(1, 4)) if r < 0.5 else rand_tfim_like(rng, n) if r < 0.8 else rand_form(rng, n, 2, paulis="XYZ", cplx=0.0)
    return ["form", _lst(f)]


def gen_model_recipes(run, rng):
    quick = run.tier == "quick"
    P = lambda p, q: ["form", ["S", p, q]]
    out = []
    for m in (["model", "TFIM", 2, 1], ["model", "TFIM", 3, 2], ["model", "XXZ", 2, 2]):
        n = m[2]
        for p in "XYZ":
            for q in (range(n) if n == 2 else [rng.randrange(n)]):
                out.append((n, ["matmul", P(p, q), m]))               # a non-commuting factor LEFT of every coupling
        out.append((n, ["matmul", m, P("Y", n - 1)]))
    t2, x2, t3, x3 = ["model", "TFIM", 2, 1], ["model", "X", 2], ["model", "TFIM", 3, 1], ["model", "X", 3]
    out += [(2, ["matmul", t2, t2]), (2, ["matmul", ["matmul", t2, t2], t2]), (2, ["matmul", ["matmul", x2, t2], x2]),
            (3, ["matmul", ["matmul", x3, t3], x3]), (3, ["matmul", t3, ["model", "Heisenberg", 3, [1, -1, 2], [0, 1, 0]]]),
            (2, ["matmul", ["add", t2, x2], ["addc", -2, ["model", "TFIM", 2, 3]]]),
            (2, ["matmul", ["model", "Y", 2], ["model", "2MaxCut", 2, [[0, 1], [2, 0]]]]),
            (3, ["sub", ["mul", 2, t3], ["matmul", ["model", "Z", 3], x3]])]
    for _ in range(22 if quick else 200):
        n = rng.choice([2, 2, 3])
        m1, m2 = rand_model(rng, n), rand_model(rng, n)
        f1, f2 = rand_hand_form(rng, n), rand_hand_form(rng, n)
        c = rng.choice([-3, -2, -1, 2, 3])
        shape = rng.randrange(10)
        rec = [["matmul", f1, m1], ["matmul", m1, f1], ["matmul", m1, m2], ["matmul", ["matmul", f1, m1], f2],
               ["matmul", ["matmul", m1, f1], m2], ["matmul", ["add", m1, f1], m2], ["sub", ["mul", c, m1], f1],
               ["add", ["matmul", f1, m1], ["rmul", c, m2]], ["matmul", ["rsubc", c, m1], ["sub", f1, m2]],
               ["matmul", ["matmul", m1, m2], m1]][shape]
        out.append((n, rec))
    return out


def model_symbols_contract(run):
    """per-run contract of the Coq model of the term route: every symbol emitted by hamiltonians/models.py (dense=False) is a
    NON-commutative qibo Symbol (sympy reorders commutative factors, C15/PropsModels.v reordered_oracle_violates_contract)"""
    from qibo.symbols import Symbol
    bad = []
    recs = [["model", "TFIM", n, h] for n in (2, 3, 4) for h in (0, 1)] + [["model", p, n] for p in "XYZ" for n in (1, 3)] + \
           [["model", "Heisenberg", 3, [1, 2, 3], [1, 1, 1]], ["model", "XXZ", 3, 2], ["model", "XXX", 3, 1, [1, 0, 0]],
            ["model", "2MaxCut", 3, [[0, 1, 2], [1, 0, 1], [2, 1, 0]]]]
    for rec in recs:
        h, a = model_leaf(rec)
        run.case(["model-symbols", a[1]], nontrivial=True)
        for s in sorted(h.form.free_symbols, key=str):
            if not isinstance(s, Symbol) or s.is_commutative is not False:
                bad.append((a[1], str(s)))
                if len(bad) <= 3:
                    run.find(f"model_algebra:commutative_symbol:{a[1]}:{s}",
                             f"the symbolic model {a[1]} emits the symbol {s} with commutative={s.is_commutative}: sympy moves commutative factors to the front of "
                             "every monomial, so operator products with a non-commuting form on the left are re-ordered in SymbolicHamiltonian.terms "
                             "(term-by-term route != dense route)", {"mechanism": "model_algebra", "recipe": ["matmul", ["form", ["S", "X", getattr(s, 'target_qubit', 0)]], rec],
                                                                   "nqubits": rec[2]})
    run.oblige("contract:every symbol emitted by the built-in symbolic models is a non-commutative qibo Symbol (hypothesis of the oracle contract "
               "smonos_op ms = denote f for products, C15/PropsModels.v)", not bad, "contract")


def run_model_algebra(run, rng, only=None):
    B = Batch(run, "C15_model_algebra")
    recs = gen_model_recipes(run, rng) if only is None else [only]
    if only is None:
        model_symbols_contract(run)
    k = 0
    for n, rec in recs:
        try:
            r, ast = build_recipe(rec, n)
        except Unsupported:
            continue
        except Exception as e:      # noqa: BLE001
            run.find(f"model_algebra:raises:{rec}", f"building {rec} with the real operators raised {type(e).__name__}: {str(e)[:150]}",
                     {"mechanism": "model_algebra", "recipe": rec, "nqubits": n})
            continue
        if r.nqubits != n or len(r.terms) > 70:      # larger composites: numpy stream `models` of harness/c15_hist.py
            continue
        check_symbolic(run, B, f"ma{k}", ast, n, rng, ham=r, extra={"mechanism": "model_algebra", "recipe": rec}, max_term_items=4)
        k += 1
    judge(run, B, B.flush())
    run.notes["model_algebra_composites"] = k

# ------------------------------------------------------------------ malformed forms
def run_malformed(run, rng):
    from qibo.hamiltonians import SymbolicHamiltonian
    B = Batch(run, "C15_malformed")
    cases = [(1, ("S", "X", 1)), (2, ("M", ("S", "X", 0), ("S", "Z", 2))), (1, ("A", ("S", "Y", 3), ("N", 1, 0)))]
    for j, (n, ast) in enumerate(cases):
        try:
            SymbolicHamiltonian(ast_sympy(ast), nqubits=n).matrix
            refused = False
        except Exception:
            refused = True
        run.case(["malformed", ast_str(ast), n], nontrivial=False)
        B.add(f"bad{j}:reject", f"match dense {n}%nat {ast_coq(ast)} with None => true | Some _ => false end",
              {"case": f"malformed:{ast_str(ast)}:{n}", "mechanism": "malformed", "what": "model rejects a symbol outside the register"})
        if not refused:
            run.find(f"accepts:{ast_str(ast)}:n={n}", "implementation accepted a symbol on a qubit >= nqubits", {"form": ast_str(ast), "nqubits": n})
    judge(run, B, B.flush())


RULE = ("random Pauli-polynomial ASTs (sums, non-commutative products, powers 0..3, Gaussian-integer scalars, "
        "symbols I/X/Y/Z on 1..4 qubits; products with several factors per qubit; TFIM-like forms) x random "
        "Gaussian-integer states / density matrices; pairs of Hamiltonians x scalars for the algebra; diagonal "
        "integer Hamiltonians x scalars for the eigenvalue cache; Z-forms x power-of-two frequency tables x "
        "(permuted / partial / default) qubit maps; model builders for n = 2..5. A case is counted as distinct by "
        "the hash of its inputs; non-trivial = the Hamiltonian has at least one term. "
        "Model algebra (families D/E): composites built with the REAL operators (+, -, scalar *, @ of two and three factors) from the built-in symbolic "
        "models (TFIM, Heisenberg, XXZ, XXX, 2*MaxCut, X, Y, Z with dense=False, n = 2, 3) and hand-written non-commuting forms -- a fixed corpus (every "
        "Pauli on every qubit LEFT of a model, squares, cubes, X @ H @ X) + random shapes; spec = the Coq form of the documented formula (tfim_form, "
        "heis_form, ...) composed by FMul / FAdd; every observation point of check_symbolic; composites with more than 70 terms and non-integer "
        "parameters go to the numpy-exact stream `models` of c15_hist; contract: every symbol a model emits is non-commutative. "
        "Representation stream (family F): states / density matrices / matrices as int64, float64, float32, complex64, Fortran order, strided, read-only.")


def main(run):
    rng = random.Random(run.seed)
    run.trusted += ["Coq 8.16.1 kernel, vm_compute", "Base/Mat.v embed as the meaning of 'operator on qubit q' (qubit 0 = most significant bit)",
                    "sympy's canonicalisation / expand (oracle: its output is fed to the model and checked per case against [[form]])",
                    "numpy complex128 arithmetic on integer data below 2^50 is exact",
                    "backend.apply_gate for X/Y/Z/I gates = embedded matrix product (property C01)",
                    "eigenvalue solvers (the cache is filled with the exact spectrum of diagonal matrices)"]
    run.assumptions += ["exact arithmetic: coefficients, states and frequencies are (Gaussian) integers; float rounding is not modelled",
                        "powers are non-negative integers (negative powers go through numpy's matrix inverse)"]
    static_obligations(run)
    hs = run_forms(run, rng)
    run_algebra(run, rng, hs)
    run_eigs(run, rng)
    run_samples(run, rng)
    run_models(run, rng)
    run_malformed(run, rng)
    run_model_algebra(run, random.Random(run.seed * 31 + 5))
    # extension streams (history == fresh, non-mutation, primitives of the density-matrix route, custom symbols, from_circuit);
    # own generator so that the streams above are unchanged
    from harness import c15_hist
    c15_hist.main_sections(run, random.Random(run.seed * 7919 + 15))
    run.not_proved += ["negative integer powers (numpy matrix inverse) are outside the model",
                       "nested powers of one symbol such as (Y0**3)**2 are refused by SymbolicTerm.__init__ (AssertionError); the dense route handles them"]
    run.notes["historical"] = ("coq/theories/C15/History.v holds lemmas about the pre-repair code (factor order, sample parity, "
                               "dense partial maps); they are not statements about the current tree")
    return run.finish(level="proof", rule=RULE)


def static_obligations(run):
    import os
    p = "C15/Props.v"
    if not os.path.exists(os.path.join(vcore.THEORIES, p)):
        run.not_proved.append("C15/Props.v missing")
        return
    names = vcore.props_theorems(p)
    ok, res = vcore.static_assumptions("C15/Props")
    for nm in names:
        if nm.endswith("_refuted"):
            run.refuted.append(nm[: -len("_refuted")])
        run.oblige(nm, ok and nm in res, "static theorem (coq/theories/C15/Props.v)")
        if ok and nm in res and not res[nm].startswith("Closed"):
            for m in __import__("re").finditer(r"([A-Za-z_][\w.]*)\s*:", res[nm]):
                if m.group(1) != "Axioms":
                    run.axioms.add(m.group(1))
    if os.path.exists(os.path.join(vcore.THEORIES, "C15/PropsHist.v")):
        ok2, res2 = vcore.static_assumptions("C15/PropsHist")
        for nm in vcore.props_theorems("C15/PropsHist.v"):
            run.oblige(nm, ok2 and nm in res2 and res2[nm].startswith("Closed"), "static theorem (coq/theories/C15/PropsHist.v)")
        res = {**res, **res2}
    if os.path.exists(os.path.join(vcore.THEORIES, "C15/PropsModels.v")):
        ok3, res3 = vcore.static_assumptions("C15/PropsModels")
        for nm in vcore.props_theorems("C15/PropsModels.v"):
            run.oblige(nm, ok3 and nm in res3 and res3[nm].startswith("Closed"), "static theorem (coq/theories/C15/PropsModels.v)")
        res = {**res, **res3}
    run.checker_cmds.append("make -C coq theories/C15/Props.vo ; coqc _build/assumptions/C15_Props_pa.v")
    run.notes["static_theorems"] = res


def replay(run, data):
    """re-execute one recorded failing input against the specification"""
    rng = random.Random(0)
    rp = data.get("replay", {})
    key = data.get("key", "")
    mech = rp.get("mechanism")
    if mech == "symbolic" and "form" in rp:
        ast = parse_ast(rp["form"])
        B = Batch(run, "C15_replay")
        check_symbolic(run, B, "r0", ast, rp["nqubits"], rng)
        judge(run, B, B.flush())
    elif mech == "model_algebra" and "recipe" in rp:
        run_model_algebra(run, rng, only=(rp["nqubits"], rp["recipe"]))
    elif mech == "samples" and "form" in rp:
        run_samples(run, rng, only=(rp["nqubits"], parse_ast(rp["form"]), {str(k): int(v) for k, v in rp["freq"].items()}, rp.get("qubit_map")))
    elif __import__("harness.c15_hist", fromlist=["replay"]).replay(run, data):
        pass
    else:
        return main(run)
    return run.finish(level="proof", rule="replay of one recorded case")


def parse_ast(s):
    """inverse of ast_str"""
    import re
    toks = re.findall(r"\*\*|[IXYZ]\d+|\(-?\d+[+-]\d+j\)|-?\d+|[()+*]", s)
    pos = [0]

    def peek():
        return toks[pos[0]] if pos[0] < len(toks) else None

    def eat():
        pos[0] += 1
        return toks[pos[0] - 1]

    def atom():
        t = eat()
        if t == "(":
            e = expr()
            eat()
            base = e
        elif re.fullmatch(r"[IXYZ]\d+", t):
            base = ("S", t[0], int(t[1:]))
        elif t.startswith("(") and t.endswith("j)"):
            m = re.fullmatch(r"\((-?\d+)([+-]\d+)j\)", t)
            base = ("N", int(m.group(1)), int(m.group(2)))
        else:
            base = ("N", int(t), 0)
        while peek() == "**":
            eat()
            base = ("P", base, int(eat()))
        return base

    def prod():
        e = atom()
        while peek() == "*":
            eat()
            e = ("M", e, atom())
        return e

    def expr():
        e = prod()
        while peek() == "+":
            eat()
            e = ("A", e, prod())
        return e

    return expr()
