"""C01 / C02  round-5 streams (STRENGTHEN_GUIDE family F; model statements in coq/theories/C01/Layout.v + PropsLayout.v).

labels  -- execution depends on a gate's OPERATOR and QUBITS only.  Every constructor keyword that leaves the documented
           operator alone (`gates.Unitary(..., name=, trainable=, check_unitary=)`, the `draw_label` attribute) crossed with
           values that collide with other classes' names ("id", "align", "x", "cx", "measure", "fused", "", ...), two gates
           with the same label and different matrices, the library's identity gates `gates.I(*q)` / `gates.Align` on several
           qubits mixed in.  Observations: circuit(initial_state).state() (state vector / density matrix), Circuit.unitary(),
           the fused circuit (execution, unitary), a deep copy, gate.matrix().  The state / unitary go through the exact Coq
           comparison of harness/c01.py (spec = Base/Mat.circ_mat of the declared (controls, targets, matrix) list -- the
           spec has no label field at all: PropsLayout.labelled_execution_ignores_labels); the others must equal them exactly.
repr    -- the initial state (and a Unitary's matrix, at construction and at update) in every representation of
           harness/repr_inv.py; circuits whose FIRST operation is each kind of gate (plain / controlled / two-qubit / named /
           identity / none) so that no earlier operation normalises the layout; circuit execution plus the direct backend
           entries apply_gate / apply_gate_density_matrix.  Exact equality with the canonical (complex128, C order) run, which is
           itself compared with the Coq spec; the caller's buffers are not written and the result does not alias them.
"""
import copy
import random

import numpy as np

from harness import c01, repr_inv
from harness.c01 import (zvec, zmat, np_matrix, backend, build_circuit, make_real_gate, describe, rand_matrix, rand_state,
                         rand_zi, random_circuit, named_gate, unitary_gate, identity_gate, eval_cases, judge, case_key,
                         sv_case_term, SV_LABELS)

LABELS = ["id", "align", "x", "cx", "measure", "fused", "", "h", "rx", "swap", "Unitary", "ccx", "I", "m", "u3", "cz", "i",
          "ID", "identity", None]


def library_names():
    """the `name` of every gate class of the library (lib/qtrace catalogue) -> [(name, number of qubits of that class)]"""
    from lib import qtrace
    out, seen = [], set(LABELS)
    for cls, nq, ps in qtrace.catalogue():
        try:
            g = qtrace.make_gate(cls, list(range(nq)), [0.0] * len(ps))
        except Exception:  # noqa: BLE001
            continue
        nm = getattr(g, "name", None)
        if isinstance(nm, str) and nm not in seen:
            seen.add(nm)
            out.append((nm, nq))
    return out


# ------------------------------------------------------------------ helpers
def _init(case, dm):
    return np_matrix(case["init"]) if dm else np.array([complex(a, b) for a, b in case["init"]], dtype=complex)


def _z(a, dm):
    return zmat(a) if dm else zvec(a)


def _term(case, out, dm):
    if dm:
        from harness import c02
        return c02.dm_case_term(case, out)
    return sv_case_term(case, out)


def _labels(dm):
    if dm:
        from harness import c02
        return c02.DM_LABELS, ["spec_dm"], ["model_dm", "thmspec_dm", "gate_ok"]
    return SV_LABELS, ["spec_state", "spec_unitary"], ["model_state", "thmspec_state", "model_unitary", "thmspec_unitary", "gate_ok"]


def _rho(rng, n, kind):
    from harness import c02
    if kind == "real":           # real, NOT symmetric: a transposed reading is visible without complex entries
        d = 2 ** n
        A = [[[rng.randint(-3, 3), 0] for _ in range(d)] for _ in range(d)]
        if d > 1:
            A[0][1], A[1][0] = [2, 0], [-1, 0]
        return A
    return c02.rand_rho(rng, n, kind)


def _psi(rng, n, kind):
    if kind == "real":
        v = [[rng.randint(-3, 3), 0] for _ in range(2 ** n)]
        v[-1] = [2, 0]
        v[0] = [-1, 0]
        return v
    v = rand_state(rng, n)
    v[0] = [1, -2]
    return v


def real_out(case, dm, st0=None):
    """exact outputs of the real code for one case (fresh circuit); st0 = the initial state object actually handed over"""
    n = case["n"]
    c = build_circuit(n, case["gates"], dm)
    if st0 is None:
        st0 = _init(case, dm).copy()
    res = c(initial_state=st0).state()
    out = {"state": _z(res, dm)}
    if not dm:
        out["unitary"] = zmat(c.unitary(backend()))
    return out, c, np.asarray(res)


# ------------------------------------------------------------------ labels stream
def _kw(rng, label, i):
    kw = {"name": label, "trainable": [True, False][i % 2], "check_unitary": [False, True, False][i % 3]}
    if rng.random() < 0.2:
        kw.pop("trainable")
    return kw


def label_cases(run, rng, dm):
    cases = []
    amp = 1 if dm else 2
    for i, lab in enumerate(LABELS):
        n = 3 if i % 2 == 0 else 2
        a, b = (2, 0) if n == 3 else (1, 0)
        gs = [named_gate(rng, n, "X", [1], []),
              dict(unitary_gate(rng, n, [a, b], [], amp), kw=_kw(rng, lab, i)),
              {"name": "I", "args": [b, a], "extra": [], "intent": [[], [b, a], [[[1 if r == c_ else 0, 0] for c_ in range(4)] for r in range(4)]]},
              dict(unitary_gate(rng, n, [1], [0], amp), kw=_kw(rng, lab, i + 1)),
              {"name": "Align", "args": [n - 1], "delay": i % 3, "extra": [], "intent": [[], [n - 1], [[[1, 0], [0, 0]], [[0, 0], [1, 0]]]]},
              dict(unitary_gate(rng, n, [1], [], amp), kw=_kw(rng, lab, i + 2)),      # same label, another matrix
              dict(named_gate(rng, n, "Z", [0], []), attrs={"draw_label": lab or "id"})]
        if i % 4 == 1:
            gs[1]["attrs"] = {"draw_label": lab or ""}
        cases.append({"n": n, "gates": gs, "init": _rho(rng, n, ["general", "hermitian"][i % 2]) if dm else _psi(rng, n, "complex")})
        # the labelled gate alone, as the only and first operation
        g1 = dict(unitary_gate(rng, 2, [1], [] if i % 2 else [0], 2), kw=_kw(rng, lab, i))
        cases.append({"n": 2, "gates": [g1], "init": _rho(rng, 2, "general") if dm else _psi(rng, 2, "complex")})
    # a Unitary carrying the name of each other class of the library, on as many qubits as that class (max 2), alone
    for i, (lab, nq) in enumerate(library_names()):
        k = min(nq, 2)
        n = k + 1
        ts = rng.sample(range(n), k)
        cs = [q for q in range(n) if q not in ts] if i % 3 == 0 else []
        g1 = dict(unitary_gate(rng, n, ts, cs, amp), kw=_kw(rng, lab, i))
        cases.append({"n": n, "gates": [g1], "init": _rho(rng, n, "general") if dm else _psi(rng, n, "complex")})
    for i in range(10 if run.tier != "thorough" else 60):
        n = rng.choice([2, 3, 3, 4])
        gs = random_circuit(rng, n, rng.randint(2, 5), amp, dm=dm, max_arity=2)
        gs.insert(rng.randrange(len(gs) + 1), identity_gate(rng, n))
        for j, g in enumerate(gs):
            if g["name"] == "Unitary" and rng.random() < 0.8:
                g["kw"] = _kw(rng, rng.choice(LABELS), rng.randrange(6))
        cases.append({"n": n, "gates": gs, "init": _rho(rng, n, "general") if dm else _psi(rng, n, "complex")})
    return cases


def label_extra(case, dm, out, c):
    """observations that must equal the plain execution exactly; returns [(observation, detail)] of the ones that do not"""
    bad = []
    st0 = _init(case, dm)
    ref = out["state"]
    try:
        fc = c.fuse(max_qubits=2)
        if _z(fc(initial_state=st0.copy()).state(), dm) != ref:
            bad.append(("fused_execution", "Circuit.fuse(max_qubits=2) executes to another state than the circuit"))
        if not dm and zmat(fc.unitary(backend())) != out["unitary"]:
            bad.append(("fused_unitary", "Circuit.unitary() of the fused circuit differs from the circuit's"))
    except Exception as e:  # noqa: BLE001
        bad.append(("fused_raises", f"fuse / fused execution raised {type(e).__name__}: {e}"))
    try:
        dc = c.copy(deep=True)
        if _z(dc(initial_state=st0.copy()).state(), dm) != ref:
            bad.append(("deep_copy_execution", "Circuit.copy(deep=True) executes to another state than the circuit"))
    except Exception as e:  # noqa: BLE001
        bad.append(("deep_copy_raises", f"{type(e).__name__}: {e}"))
    for g, real in zip(case["gates"], c.queue):
        if g["name"] == "Unitary" and not g["extra"]:
            if zmat(real.matrix(backend())) != g["intent"][2]:
                bad.append(("gate_matrix", f"Unitary(..., {g.get('kw')}).matrix() is not the matrix it was built from"))
                break
    if not dm:
        try:
            one = c.invert().invert()
            if _z(one(initial_state=st0.copy()).state(), dm) != ref and all(g["name"] != "Unitary" or _is_unitary(g) for g in case["gates"]):
                bad.append(("double_invert_execution", "circuit.invert().invert() executes to another state"))
        except Exception:  # noqa: BLE001
            pass
    return bad


def _is_unitary(g):
    M = np_matrix(g["intent"][2])
    return bool(np.allclose(M.conj().T @ M, np.eye(len(M))))


def _lab_of(case):
    labs = [repr((g.get("kw") or {}).get("name")) for g in case["gates"] if g.get("kw")]
    return labs[0] if labs else "-"


def labels_check(run, rng, dm=False):
    mode = "dm" if dm else "sv"
    cases = label_cases(run, rng, dm)
    good, outs, terms, extra_found = [], [], [], {}
    for case in cases:
        try:
            out, c, _ = real_out(case, dm)
        except Exception as e:  # noqa: BLE001
            run.find(f"labels:{mode}:raises:name={_lab_of(case)}", f"well-formed circuit raised {type(e).__name__}: {e}",
                     {"case": case, "mechanism": "labels", "dm": dm})
            continue
        good.append(case)
        outs.append(out)
        terms.append(_term(case, out, dm))
        for obs, detail in label_extra(case, dm, out, c):
            k = f"labels:{mode}:{obs}"
            if k not in extra_found or len(case["gates"]) < len(extra_found[k][1]["gates"]):
                extra_found[k] = (detail, case)
    labels, spec_l, model_l = _labels(dm)
    res = eval_cases(run, f"{run.prop}_labels", terms, len(labels), chunk=30)
    for cse in good:
        run.case(["labels", mode, cse], nontrivial=True)
    if good:
        run.sample({"stream": "labels", "mode": mode, "gates": [[g["name"], g["args"], g.get("kw")] for g in good[0]["gates"]]})
    nbefore = len(run.findings)
    judge(run, f"labels-{mode}", good, outs, res, labels, spec_l, model_l, _shrink_labels(run, dm))
    for f in run.findings[nbefore:]:           # replays of this stream go through this module
        if isinstance(getattr(f, "replay", None), dict):
            f.replay.update({"mechanism": "labels", "dm": dm})
    for k, (detail, case) in extra_found.items():
        run.find(k, f"{detail} (the circuit's own execution is compared with the Coq spec in this run); labels used: "
                 f"{sorted({repr((g.get('kw') or {}).get('name')) for g in case['gates'] if g.get('kw')})}",
                 {"case": case, "mechanism": "labels", "dm": dm, "observation": k.split(":")[2]})
    ok = len(run.findings) == nbefore
    run.oblige(f"labels_{mode}_execution_depends_on_operator_and_qubits_only", ok, "correspondence")
    run.notes[f"labels_stream_{mode}"] = {"circuits": len(cases), "labels": [repr(x) for x in LABELS]}


def _shrink_labels(run, dm):
    def f(case):
        singles = []
        for g in case["gates"]:
            c1 = {"n": case["n"], "gates": [copy.deepcopy(g)], "init": case["init"]}
            try:
                o1, _, _ = real_out(c1, dm)
            except Exception:  # noqa: BLE001
                continue
            singles.append((c1, o1))
        if not singles:
            return None
        labels, spec_l, _ = _labels(dm)
        res = eval_cases(run, f"{run.prop}_labels_shrink", [_term(c, o, dm) for c, o in singles], len(labels))
        for (c1, _), bs in zip(singles, res):
            if bs is not None and not all(dict(zip(labels, bs))[l] for l in spec_l):
                return c1
        return None
    return f


# ------------------------------------------------------------------ representation stream
def first_ops(rng, n, dm):
    """circuits whose first operation is each kind (then optionally one more gate)"""
    amp = 1 if dm else 2
    last = n - 1
    kinds = [("none", []),
             ("plain", [unitary_gate(rng, n, [last], [], amp)]),
             ("identity", [{"name": "I", "args": list(range(n))[::-1], "extra": [],
                            "intent": [[], list(range(n))[::-1], [[[1 if r == c_ else 0, 0] for c_ in range(2 ** n)] for r in range(2 ** n)]]}]),
             ("align", [{"name": "Align", "args": [last], "delay": 2, "extra": [], "intent": [[], [last], [[[1, 0], [0, 0]], [[0, 0], [1, 0]]]]}]),
             ("named", [named_gate(rng, n, rng.choice(["X", "Y", "Z", "S"]), [last], [])])]
    if n >= 2:
        kinds += [("controlled", [unitary_gate(rng, n, [0], [last], amp)]),
                  ("two_qubit", [unitary_gate(rng, n, [last, 0], [], amp)]),
                  ("named2", [named_gate(rng, n, rng.choice(["CNOT", "SWAP", "CZ", "iSWAP"]), [last, 0], [])])]
    if n >= 3:
        kinds += [("controlled2", [unitary_gate(rng, n, [1], [2, 0], amp)]),
                  ("two_qubit_controlled", [unitary_gate(rng, n, [2, 0], [1], amp)]),
                  ("toffoli", [named_gate(rng, n, "TOFFOLI", [2, 0, 1], [])])]
    out = []
    for kind, gs in kinds:
        if gs and rng.random() < 0.4:
            gs = gs + random_circuit(rng, n, 1, 1, dm=dm, max_arity=2)
        out.append((kind, gs))
    return out


def repr_cases(run, rng, dm):
    cases = []
    for n in (1, 2, 3):
        for kind, gs in first_ops(rng, n, dm):
            for ik in (("general", "real") if dm else ("complex", "real")):
                if dm and n == 3 and ik == "real" and kind not in ("none", "controlled", "plain") and run.tier != "thorough":
                    continue
                init = _rho(rng, n, ik) if dm else _psi(rng, n, ik)
                cases.append({"n": n, "gates": copy.deepcopy(gs), "init": init, "first": kind, "init_kind": ik})
    return cases


def repr_one(case, dm, label, obj, guard, ref, direct_ref):
    """returns [(entry, detail)] for one variant"""
    bad = []
    try:
        out, c, res = real_out(case, dm, st0=obj)
    except Exception as e:  # noqa: BLE001
        return [("circuit_raises", f"circuit(initial_state=<{label}>) raised {type(e).__name__}: {e}")]
    if out["state"] != ref["state"]:
        bad.append(("circuit", f"circuit(initial_state=<{label}>).state() differs from the run on the canonical array"))
    w = guard()
    if w:
        bad.append(("input_written", f"circuit(initial_state=<{label}>): {w}"))
    if repr_inv.shares(res, obj):
        bad.append(("result_aliases_input", f"circuit(initial_state=<{label}>).state() shares memory with the caller's array"))
    if direct_ref is not None and isinstance(obj, np.ndarray) and case["gates"]:
        real = c.queue[0]
        try:
            fn = backend().apply_gate_density_matrix if dm else backend().apply_gate
            got = _z(fn(real, obj, case["n"]), dm)
            if got != direct_ref:
                bad.append(("backend_apply", f"backend.apply_gate{'_density_matrix' if dm else ''}(gate, <{label}>, n) differs from the "
                            "call on the canonical array"))
            w = guard()
            if w:
                bad.append(("backend_apply_input_written", f"backend.apply_gate*(gate, <{label}>, n): {w}"))
        except Exception as e:  # noqa: BLE001
            bad.append(("backend_apply_raises", f"backend.apply_gate*(gate, <{label}>, n) raised {type(e).__name__}: {e}"))
    return bad


def matrix_repr_cases(rng, dm):
    """a Unitary whose MATRIX comes in each representation, at construction and at update"""
    out = []
    for n, ts, cs in ((2, [1, 0], []), (3, [2, 0], [1]), (2, [0], [1])):
        g = unitary_gate(rng, n, ts, cs, 2)
        M = g["intent"][2]
        M[0][-1], M[-1][0] = [1, 2], [-2, 1]                     # never symmetric
        out.append({"n": n, "gates": [g], "init": _rho(rng, n, "general") if dm else _psi(rng, n, "complex")})
    return out


def matrix_repr_check(run, rng, dm, found):
    mode = "dm" if dm else "sv"
    nvar = 0
    for case in matrix_repr_cases(rng, dm):
        ref, _, _ = real_out(case, dm)
        g = case["gates"][0]
        M = np_matrix(g["intent"][2])
        for label, obj, guard in repr_inv.variants(M, containers=False):
            nvar += 1
            if label in ("float64", "int64"):
                continue
            for how in ("construction", "set_parameters", "gate.parameters"):
                cse = copy.deepcopy(case)
                try:
                    if how == "construction":
                        cse["gates"][0]["mrepr"] = label
                        out, _, _ = real_out(cse, dm)
                    else:
                        other = copy.deepcopy(cse)
                        other["gates"][0]["intent"][2] = rand_matrix(rng, len(M), 1)
                        c = build_circuit(cse["n"], other["gates"], dm)
                        if how == "set_parameters":
                            c.set_parameters([obj])
                        else:
                            c.queue[0].parameters = obj
                        res = c(initial_state=_init(cse, dm).copy()).state()
                        out = {"state": _z(res, dm)}
                        if not dm:
                            out["unitary"] = zmat(c.unitary(backend()))
                    okk = out == ref
                    detail = f"Unitary matrix given as <{label}> at {how}: execution / unitary differ from the canonical array's"
                except Exception as e:  # noqa: BLE001
                    okk, detail = False, f"Unitary matrix given as <{label}> at {how}: raised {type(e).__name__}: {e}"
                w = guard()
                if w:
                    okk, detail = False, f"Unitary matrix given as <{label}> at {how}: {w}"
                run.case(["matrix_repr", mode, label, how, case["n"]], nontrivial=True)
                if not okk:
                    k = f"repr:{mode}:unitary_matrix_{how}:{label}"
                    found.setdefault(k, (detail, {"case": case, "mechanism": "matrix_repr", "dm": dm, "variant": label, "how": how}))
    return nvar


def repr_check(run, rng, dm=False):
    mode = "dm" if dm else "sv"
    cases = repr_cases(run, rng, dm)
    good, outs, terms, found, nvar = [], [], [], {}, 0
    for case in cases:
        try:
            ref, c, _ = real_out(case, dm)
            direct_ref = None
            if case["gates"]:
                fn = backend().apply_gate_density_matrix if dm else backend().apply_gate
                direct_ref = _z(fn(c.queue[0], _init(case, dm).copy(), case["n"]), dm)
        except Exception as e:  # noqa: BLE001
            run.find(f"repr:{mode}:raises:{case['first']}", f"well-formed circuit raised {type(e).__name__}: {e}",
                     {"case": case, "mechanism": "repr", "dm": dm, "variant": repr_inv.CANON})
            continue
        good.append(case)
        outs.append(ref)
        terms.append(_term(case, ref, dm))
        for label, obj, guard in repr_inv.variants(_init(case, dm)):
            nvar += 1
            for entry, detail in repr_one(case, dm, label, obj, guard, ref, direct_ref):
                k = f"repr:{mode}:{entry}:{label}"
                size = (case["n"], len(case["gates"]))
                if k not in found or size < found[k][2]:
                    found[k] = (f"{detail}; first operation of the circuit: {case['first']}, n = {case['n']}, "
                                f"{'density matrix' if dm else 'state'}: {case['init_kind']}",
                                {"case": case, "mechanism": "repr", "dm": dm, "variant": label, "entry": entry}, size)
        run.case(["repr", mode, case], nontrivial=True)
    nvar += matrix_repr_check(run, rng, dm, found)
    labels, spec_l, model_l = _labels(dm)
    res = eval_cases(run, f"{run.prop}_repr", terms, len(labels), chunk=30)
    nbefore = len(run.findings)
    judge(run, f"repr-{mode}-canonical", good, outs, res, labels, spec_l, model_l)
    for f in run.findings[nbefore:]:
        if isinstance(getattr(f, "replay", None), dict):
            f.replay.update({"mechanism": "repr", "dm": dm, "variant": repr_inv.CANON})
    # one finding per (entry, representation); at most 12 reported in full, the rest summarised by the first ones
    for k in sorted(found)[:12]:
        run.find(k, found[k][0], found[k][1])
    if len(found) > 12:
        run.notes[f"repr_{mode}_more_findings"] = sorted(found)[12:]
    run.oblige(f"repr_{mode}_answer_is_a_function_of_the_logical_array", not found and len(run.findings) == nbefore, "correspondence")
    run.oblige(f"repr_{mode}_inputs_not_written_results_not_aliased",
               not any(k.split(":")[2] in ("input_written", "result_aliases_input", "backend_apply_input_written") for k in found), "correspondence")
    if good:
        run.sample({"stream": "repr", "mode": mode, "first": good[-1]["first"], "n": good[-1]["n"],
                    "variants": [l for l, _, _ in repr_inv.variants(_init(good[-1], dm))]})
    run.notes[f"repr_stream_{mode}"] = {"circuits": len(cases), "variant_executions": nvar}


# ------------------------------------------------------------------ replay
def replay(run, data):
    rp = data["replay"]
    dm = bool(rp.get("dm"))
    mode = "dm" if dm else "sv"
    case = rp["case"]
    labels, spec_l, _ = _labels(dm)
    bad = None
    try:
        if rp["mechanism"] == "labels":
            out, c, _ = real_out(case, dm)
            obs = rp.get("observation")
            if obs:
                if any(o == obs for o, _ in label_extra(case, dm, out, c)):
                    bad = obs
            else:
                bs = eval_cases(run, f"{run.prop}_replay", [_term(case, out, dm)], len(labels))[0]
                if bs is None or not all(dict(zip(labels, bs))[l] for l in spec_l):
                    bad = "spec"
        elif rp["mechanism"] == "matrix_repr":
            found = {}
            matrix_repr_check(run, random.Random(0), dm, found) if False else None
            ref, _, _ = real_out(case, dm)
            cse = copy.deepcopy(case)
            M = np_matrix(case["gates"][0]["intent"][2])
            obj, guard = repr_inv.rebuild(rp["variant"], M)
            if rp["how"] == "construction":
                cse["gates"][0]["mrepr"] = rp["variant"]
                out, _, _ = real_out(cse, dm)
            else:
                other = copy.deepcopy(cse)
                other["gates"][0]["intent"][2] = [[[1 if i == j else 0, 0] for j in range(len(M))] for i in range(len(M))]
                c = build_circuit(cse["n"], other["gates"], dm)
                if rp["how"] == "set_parameters":
                    c.set_parameters([obj])
                else:
                    c.queue[0].parameters = obj
                out = {"state": _z(c(initial_state=_init(cse, dm).copy()).state(), dm)}
                if not dm:
                    out["unitary"] = zmat(c.unitary(backend()))
            if out != ref or guard():
                bad = "matrix_repr"
        else:
            ref, c, _ = real_out(case, dm)
            if rp.get("variant", repr_inv.CANON) == repr_inv.CANON:
                bs = eval_cases(run, f"{run.prop}_replay", [_term(case, ref, dm)], len(labels))[0]
                if bs is None or not all(dict(zip(labels, bs))[l] for l in spec_l):
                    bad = "spec"
            else:
                obj, guard = repr_inv.rebuild(rp["variant"], _init(case, dm))
                direct_ref = None
                if case["gates"]:
                    fn = backend().apply_gate_density_matrix if dm else backend().apply_gate
                    direct_ref = _z(fn(c.queue[0], _init(case, dm).copy(), case["n"]), dm)
                got = repr_one(case, dm, rp["variant"], obj, guard, ref, direct_ref)
                if any(e == rp.get("entry") for e, _ in got) or (rp.get("entry") is None and got):
                    bad = rp.get("entry")
    except Exception as e:  # noqa: BLE001
        bad = f"raised {type(e).__name__}: {e}"
    if bad:
        run.find(data["key"], data.get("what", "") or str(bad), rp)
    return run.finish(rule="replay of one recorded case")
