"""C06, parameter bookkeeping of DERIVED circuits (families A/D/E of STRENGTHEN_GUIDE.md).

Expressions  e ::= Src k | Inv e | Cat e e | Cpy deep e | OnQ e | Fuse max_qubits e  (Circuit.invert / + / copy /
on_qubits inside a larger circuit / fuse, sequences of length 1-4) are executed with the real code on source circuits
mixing trainable and trainable=False gates of 1, 2, 3 and matrix-valued parameters, dedicated controlled classes, gates
made by the generic controlled_by, gates updated after construction and fixed gates.  For the derived circuit D:
  * queue shape, parametrized_gates and trainable_gates equal the Coq model C06/Derived.deval (exact): only
    parametrised gates of the queue are exposed, in queue order, with the flags of the gates they derive from;
  * set_parameters in a random format on D, then get_parameters in all formats, equal the set/get model of
    C06/Params.v run on D's exposed list (exact integers);
  * exactly the exposed trainable gates of D moved, every other gate object (of D and of the sources) kept its values,
    and D shares gate objects with a source iff it was derived by shallow copy / + / fuse only;
  * D's operator, and the operator of D.invert(), equal those of a circuit rebuilt from scratch (constructors only).
"""
import numpy as np

from lib import qtrace

HEADER = ("From Coq Require Import List ZArith Bool.\nFrom QV Require Import C06.Params C06.Derived.\n"
          "Import ListNotations.\n"
          "Definition show_q it := match it with QG s => (false, [s]) | QB ms => (true, map (fun n : nat => (n, true)) ms) end.\n"
          "Definition dshow e := option_map (fun s => (map show_q (queue s), pgs s)) (deval e).\n"
          "Local Open Scope Z_scope.\n")

PARAM_CLASSES = ["RX", "RY", "RZ", "U1", "U2", "U3", "fSim", "CRX", "CRZ", "CU1", "CU2", "CU3", "PRX", "GPI", "GPI2",
                 "RXX", "RZZ", "RZX", "GIVENS", "RBS", "U1q", "RXXYY"]
FIXED_CLASSES = ["H", "CNOT", "SX", "T", "SWAP", "CZ", "S"]
CTOR = {name: (nq, ps) for name, nq, ps in qtrace.catalogue()}


def rand_spec(rng, nq):
    r = rng.random()
    if r < 0.1:
        nctrl = rng.choice([0, 0, 1, 2]) if nq >= 3 else rng.choice([0, 1])
        qs = rng.sample(range(nq), 1 + nctrl)
        return {"cls": "Unitary", "targets": qs[:1], "controls": qs[1:], "params": [[rng.randint(-9, 9) for _ in range(2)] for _ in range(2)],
                "trainable": rng.random() < 0.6, "updated": rng.random() < 0.3}
    name = rng.choice(FIXED_CLASSES) if r < 0.3 else rng.choice(PARAM_CLASSES)
    a, ps = CTOR[name]
    if a > nq:
        name = "RY" if ps else "H"
        a, ps = CTOR[name]
    from qibo import gates
    builtin = bool(getattr(gates, name)(*range(a), *[0.5] * len(ps)).control_qubits)
    nctrl = 0
    if not builtin and nq - a >= 1 and rng.random() < 0.4:
        nctrl = rng.choice([1, 2]) if nq - a >= 2 else 1
    qs = rng.sample(range(nq), a + nctrl)
    return {"cls": name, "targets": qs[:a], "controls": qs[a:], "params": [rng.randint(-9, 9) for _ in ps],
            "trainable": (rng.random() < 0.6) if ps else None, "updated": bool(ps) and rng.random() < 0.3}


def build_gate(sp):
    from qibo import gates
    kw = {} if sp["trainable"] is None else {"trainable": sp["trainable"]}
    if sp["cls"] == "Unitary":
        M = np.array(sp["params"], dtype=float)
        g = gates.Unitary(M + 1 if sp["updated"] else M, *sp["targets"], check_unitary=False, **kw)
        if sp["updated"]:
            g.parameters = M
    else:
        ps = [float(x) for x in sp["params"]]
        g = getattr(gates, sp["cls"])(*sp["targets"], *([x + 1 for x in ps] if sp["updated"] else ps), **kw)
        if sp["updated"]:
            g.parameters = ps[0] if len(ps) == 1 else tuple(ps)
    if sp["controls"]:
        g = g.controlled_by(*sp["controls"])
    if sp.get("toggle") is not None:
        g.trainable = sp["toggle"]          # history: the flag is changed on the gate object before it is added
    return g


def spec_flag(sp):
    return bool(sp["trainable"] if sp.get("toggle") is None else sp["toggle"])


def spec_shape(sp):
    if sp["cls"] == "Unitary":
        return (4, spec_flag(sp))
    return (len(sp["params"]), spec_flag(sp)) if sp["params"] else (0, True)


def flat_of(params):
    out = []
    for p in params:
        out += [int(round(float(x))) for x in np.asarray(p).reshape(-1)]
    return out


def exact_of(g):
    return [float(x) for p in g.parameters for x in np.asarray(p, dtype=float).reshape(-1)]


def is_par(g):
    from qibo.gates.abstract import ParametrizedGate
    return isinstance(g, ParametrizedGate)


def flat_gates(c):
    out = []
    for g in c.queue:
        out += list(g.gates) if type(g).__name__ == "FusedGate" else [g]
    return out


# ------------------------------------------------------------------ expressions
def chain(e):
    op = e[0]
    if op == "src":
        return "src"
    if op == "cat":
        return f"add({chain(e[1])},{chain(e[2])})"
    name = {"inv": "invert", "cpy": "copy", "onq": "on_qubits", "fuse": "fuse"}[op]
    if op == "cpy" and e[1]:
        name = "copy_deep"
    return f"{name}({chain(e[-1])})"


def rand_expr(rng, depth, nsrc):
    """-> (expr, has_block); every Src leaf is used once (its own gate objects)"""
    if depth == 0:
        nsrc[0] += 1
        return ["src", nsrc[0] - 1], False
    op = rng.choice(["inv", "inv", "inv", "cat", "cpy", "onq", "onq", "fuse"])
    if op == "cat":
        d1 = rng.randrange(depth)
        e1, b1 = rand_expr(rng, d1, nsrc)
        e2, b2 = rand_expr(rng, depth - 1 - d1, nsrc)
        return ["cat", e1, e2], b1 or b2
    e, b = rand_expr(rng, depth - 1, nsrc)
    if op == "inv":
        return ["inv", e], b
    if op == "cpy":
        return ["cpy", (not b) and rng.random() < 0.6, e], b
    if op == "onq":
        return (["inv", e], b) if b else (["onq", None, e], b)
    return (["inv", e], b) if b else (["fuse", rng.choice([2, 2, 3]), e], True)


FIXED = [["inv", ["src", 0]], ["onq", None, ["inv", ["src", 0]]], ["inv", ["inv", ["src", 0]]], ["cpy", True, ["inv", ["src", 0]]],
         ["cat", ["inv", ["src", 0]], ["src", 1]], ["inv", ["cat", ["src", 0], ["inv", ["src", 1]]]], ["fuse", 2, ["inv", ["src", 0]]],
         ["inv", ["fuse", 2, ["src", 0]]], ["inv", ["onq", None, ["cpy", True, ["src", 0]]]], ["cpy", False, ["fuse", 2, ["src", 0]]],
         ["onq", None, ["cat", ["inv", ["src", 0]], ["cpy", False, ["src", 1]]]], ["inv", ["cpy", False, ["onq", None, ["inv", ["src", 0]]]]]]


def count_src(e):
    return 1 if e[0] == "src" else sum(count_src(x) for x in e[1:] if isinstance(x, list) and x and isinstance(x[0], str))


def fill_maps(e, rng, n):
    """choose the qubit lists of the on_qubits nodes (same register size: a permutation)"""
    if e[0] == "src":
        return
    if e[0] == "onq" and e[1] is None:
        e[1] = rng.sample(range(n), n)
    for x in e[1:]:
        if isinstance(x, list) and x and isinstance(x[0], str):
            fill_maps(x, rng, n)


def make_case(rng, i):
    import copy
    n = rng.choice([2, 3, 3, 4])
    if i < 2 * len(FIXED):
        expr = copy.deepcopy(FIXED[i % len(FIXED)])
    else:
        expr, _ = rand_expr(rng, rng.choice([1, 2, 2, 3, 3, 4]), [0])
    fill_maps(expr, rng, n)
    srcs = []
    for _ in range(count_src(expr)):
        sp = [rand_spec(rng, n) for _ in range(rng.randint(2, 6))]
        if '"onq"' not in repr(expr).replace("'", '"'):
            # flag toggled on the gate object after construction (attribute only).  Not combined with on_qubits, which
            # re-creates gates from their constructor arguments: `trainable` is documented as a constructor argument only
            for s in sp:
                if s["trainable"] is not None and rng.random() < 0.25:
                    s["toggle"] = not s["trainable"]
        if not any(s["trainable"] is False for s in sp):            # at least one frozen parametrised gate per source
            s = rand_spec(rng, n)
            while not s["params"] or s["cls"] == "Unitary":
                s = rand_spec(rng, n)
            s["trainable"] = False
            sp.insert(rng.randrange(len(sp) + 1), s)
        srcs.append(sp)
    fmt = rng.choice(["flat", "list", "dict", "array"])
    return {"n": n, "sources": srcs, "expr": expr, "format": fmt, "values_seed": rng.randrange(10 ** 6)}


# ------------------------------------------------------------------ real execution + mirror (only for the Fuse oracle)
def coq_shape(s):
    return f"({s[0]}%nat, {'true' if s[1] else 'false'})"


def coq_items(items):
    def one(it):
        if it[0] == "B":
            return "(QB [" + "; ".join(f"{s[0]}%nat" for s in it[1]) + "])" if it[1] else "(QB (@nil nat))"
        return f"(QG {coq_shape(it[1])})"
    return "[" + "; ".join(one(it) for it in items) + "]" if items else "(@nil qitem)"


def evaluate(e, case, leaves):
    """-> (real circuit, mirror items, coq text, shared: set of leaf indices whose gate objects the result must share)"""
    from qibo import Circuit
    n = case["n"]
    if e[0] == "src":
        c = Circuit(n)
        for sp in case["sources"][e[1]]:
            c.add(build_gate(sp))
        leaves[e[1]] = c
        shapes = [spec_shape(sp) for sp in case["sources"][e[1]]]
        return c, [("G", s) for s in shapes], "(DSrc [" + "; ".join(coq_shape(s) for s in shapes) + "])", {e[1]}
    if e[0] == "cat":
        c1, i1, t1, s1 = evaluate(e[1], case, leaves)
        c2, i2, t2, s2 = evaluate(e[2], case, leaves)
        return c1 + c2, i1 + i2, f"(DCat {t1} {t2})", s1 | s2
    c, items, txt, sh = evaluate(e[-1], case, leaves)
    if e[0] == "inv":
        inv = [("B", it[1][::-1]) if it[0] == "B" else it for it in items][::-1]
        return c.invert(), inv, f"(DInv {txt})", set()
    if e[0] == "cpy":
        return c.copy(deep=e[1]), items, f"(DCpy {'true' if e[1] else 'false'} {txt})", (set() if e[1] else sh)
    if e[0] == "onq":
        big = Circuit(n)
        big.add(c.on_qubits(*e[1]))
        return big, items, f"(DOnQ {txt})", set()
    if e[0] == "fuse":
        f = c.fuse(max_qubits=e[1])
        pre = {id(g): it[1] for g, it in zip(c.queue, items)}
        out = []
        for g in f.queue:
            if type(g).__name__ == "FusedGate":
                out.append(("B", [pre[id(m)] for m in g.gates]))
            else:
                out.append(("G", pre[id(g)]))
        return f, out, f"(DFuse {coq_items(out)} {txt})", sh
    raise ValueError(e[0])


def real_shape(c):
    q = []
    for g in c.queue:
        if type(g).__name__ == "FusedGate":
            q.append((True, [(m.nparams if is_par(m) else 0, True) for m in g.gates]))
        else:
            q.append((False, [(g.nparams, bool(g.trainable)) if is_par(g) else (0, True)]))
    tr = list(c.trainable_gates)
    pgs = [(g.nparams, any(g is t for t in tr)) for g in c.parametrized_gates]
    return q, pgs


def parse(s):
    import re
    t = s.replace("%nat", "").replace("%Z", "").replace(";", ",").replace("true", "True").replace("false", "False").replace("nil", "[]")
    t = re.sub(r"\bSome\b", "", t)
    return eval(t, {"__builtins__": {}}, {})  # noqa: S307  (Coq output: tuples, lists, ints, booleans)


def rebuild(g, values):
    """a gate built by its constructor only, at the same place, with the given parameter values"""
    from qibo import gates
    name = type(g).__name__
    if name == "Unitary":
        new = gates.Unitary(np.array(values, dtype=float).reshape(np.asarray(g.parameters[0]).shape), *g.target_qubits, check_unitary=False)
    elif is_par(g):
        _, ps = CTOR[name]
        new = getattr(gates, name)(*g.init_args, *values)
        assert len(ps) == len(values)
    else:
        new = type(g)(*g.init_args, **g.init_kwargs)
    if g.is_controlled_by:
        new = new.controlled_by(*g.control_qubits)
    return new


def run_case(case):
    """phase 1 (real code).  -> dict with coq expressions and everything phase 2 compares, or {"problem": (kind, what)}"""
    import random
    leaves = {}
    try:
        D, items, txt, shared = evaluate(case["expr"], case, leaves)
    except Exception as ex:  # noqa: BLE001
        return {"problem": ("raises:" + type(ex).__name__, f"{chain(case['expr'])} raises {type(ex).__name__}: {ex}")}
    out = {"dshow": f"dshow {txt}", "shape": real_shape(D), "problems": []}
    P = out["problems"]
    # bookkeeping invariants of the real object
    tr = list(D.trainable_gates)
    pg = list(D.parametrized_gates)
    if [g for g in pg if any(g is t for t in tr)] != tr or any(bool(g.trainable) != any(g is t for t in tr) for g in pg):
        P.append(("bookkeeping", "trainable_gates is not the sub-list of parametrized_gates whose .trainable is set"))
    if D.parametrized_gates.nparams != sum(g.nparams for g in pg) or D.parametrized_gates.set != set(pg):
        P.append(("counters", "parametrized_gates.nparams / .set out of sync with the list of parametrised gates"))
    if D.trainable_gates.nparams != sum(g.nparams for g in tr) or D.trainable_gates.set != set(tr):
        P.append(("counters", "trainable_gates.nparams / .set out of sync with the list of trainable gates"))
    # mirror of the model: exposed list = parametrised direct members of the queue (fuse keeps its source's list)
    fq = flat_gates(D)
    # object sharing with the sources
    for k, c in leaves.items():
        ids = {id(g) for g in c.queue}
        real_shared = any(id(g) in ids for g in fq)
        if real_shared != (k in shared):
            P.append(("sharing", f"derived circuit {'shares' if real_shared else 'does not share'} gate objects with source {k}; "
                                 f"expected {'sharing' if k in shared else 'its own objects'}"))
    # ---- set / get on the derived circuit: model mask comes from phase 2 (Coq); here use the real exposed list and let the
    # comparison of shapes catch a wrong mask
    out["D"], out["leaves"] = D, leaves
    if not tr:
        return out
    vr = random.Random(case["values_seed"])
    fmt = case["format"]
    total = sum(g.nparams for g in tr)
    if fmt == "list" and len(tr) == total and any(g.nparams > 1 for g in tr):
        fmt = "dict"
    watched = {id(g): g for c in leaves.values() for g in c.queue}
    watched.update({id(g): g for g in fq})
    before = {i: exact_of(g) for i, g in watched.items() if is_par(g)}
    desc_before = [(g, exact_of(g) if is_par(g) else None) for g in fq]
    model_before = "[" + "; ".join(f"mkpg {g.nparams}%nat {'true' if any(g is t for t in tr) else 'false'} [{'; '.join(str(v) for v in flat_of(g.parameters))}]" for g in pg) + "]"
    per = [[vr.randint(-50, 50) for _ in range(g.nparams)] for g in tr]

    def shape_val(g, p):
        if type(g).__name__ == "Unitary":
            return np.array(p, dtype=float).reshape(np.asarray(g.parameters[0]).shape)
        return float(p[0]) if len(p) == 1 else tuple(float(x) for x in p)
    try:
        if fmt in ("flat", "array"):
            flat = [x for p in per for x in p]
            D.set_parameters(np.array(flat, dtype=float) if fmt == "array" else [float(x) for x in flat])
            out["set_expr"] = f"map vals (set_flat_lit {model_before} [{'; '.join(str(x) for x in flat)}] 0%nat 0%nat)"
        else:
            if fmt == "list":
                D.set_parameters([shape_val(g, p) for g, p in zip(tr, per)])
            else:
                pairs = list(zip(tr, per))
                vr.shuffle(pairs)
                D.set_parameters({g: shape_val(g, p) for g, p in pairs})
            out["set_expr"] = f"map vals (set_list {model_before} [{'; '.join('[' + '; '.join(str(x) for x in p) + ']' for p in per)}])"
    except Exception as ex:  # noqa: BLE001
        P.append(("set_raises:" + fmt, f"set_parameters({fmt}) on {chain(case['expr'])} raises {type(ex).__name__}: {str(ex)[:160]}"))
        return out
    out["fmt"] = fmt
    model_after = "[" + "; ".join(f"mkpg {g.nparams}%nat {'true' if any(g is t for t in tr) else 'false'} [{'; '.join(str(v) for v in flat_of(g.parameters))}]" for g in pg) + "]"
    out["get_expr"] = f"(get_flat {model_after}, get_list {model_after})"
    got_dict = D.get_parameters("dict")
    out["got"] = ([flat_of(g.parameters) for g in pg], flat_of(D.get_parameters("flatlist")), [flat_of(p) for p in D.get_parameters("list")],
                  list(got_dict.keys()) == tr and all(flat_of(v) == flat_of(g.parameters) for g, v in got_dict.items()),
                  [flat_of(p) for p in D.get_parameters("list", include_not_trainable=True)] == [flat_of(g.parameters) for g in pg])
    # which gates changed: exactly the exposed trainable ones
    new_of = {id(g): [float(x) for x in p] for g, p in zip(tr, per)}
    for i, g in watched.items():
        if not is_par(g):
            continue
        want = new_of.get(i, before[i])
        if exact_of(g) != want:
            P.append(("changed", f"after set_parameters on the derived circuit a {type(g).__name__} gate holds {exact_of(g)}, expected {want} "
                                 f"({'exposed trainable' if i in new_of else 'not exposed: must keep its values'})"))
            break
    # operator of D and of its inverse against a circuit rebuilt from constructors
    from qibo import Circuit
    try:
        fresh = Circuit(D.nqubits)
        for g, old in desc_before:
            fresh.add(rebuild(g, new_of.get(id(g), old)))
        Ud, Uf = np.asarray(D.unitary()), np.asarray(fresh.unitary())
        d = float(np.abs(Ud - Uf).max())
        if d > 1e-9 * max(1.0, float(np.abs(Uf).max())):
            P.append(("operator", f"operator of the derived circuit after set_parameters differs from a freshly built circuit (max diff {d:.3g})"))
        Ui = np.asarray(D.invert().unitary())
        ref = np.asarray(fresh.invert().unitary())
        d = float(np.abs(Ui - ref).max())
        if d > 1e-9 * max(1.0, float(np.abs(ref).max())):
            P.append(("operator_inverse", f"inverse requested after the update differs from the inverse of a freshly built circuit (max diff {d:.3g})"))
    except Exception as ex:  # noqa: BLE001
        P.append(("raises:" + type(ex).__name__, f"views of the derived circuit after the update raise {type(ex).__name__}: {ex}"))
    return out


def parse_ll(s):
    import re
    s = s.replace("%Z", "")
    if s.strip() in ("[]", "nil"):
        return []
    return [[int(x) for x in i.split(";") if x.strip()] for i in re.findall(r"\[([^\[\]]*)\]", s)]
