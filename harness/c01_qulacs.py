"""C01 (qulacs part, TEST level): the qulacs backend is external; what qibo owns is the QASM text it hands
over (C13) and the bit-order reversal.  Every gate class that `to_qasm` accepts is executed on
non-ascending qubits with random parameters inside random circuits on both backends and the final
states are compared (tolerance 1e-9: a float comparison, labelled test -- it can only produce a
replay, never stand in for a theorem)."""
import random

import numpy as np


def qasm_classes():
    from lib import qtrace
    out = []
    for name, nq, ps in qtrace.catalogue():
        g = qtrace.make_gate(name, list(range(nq)), [0.3 + 0.1 * j for j in range(len(ps))])
        try:
            g.qasm_label
        except Exception:
            continue
        out.append((name, nq, len(ps)))
    return out


def run_qulacs(run, rng, ncirc=40):
    try:
        from qibo.backends.qulacs import QulacsBackend
    except Exception as e:
        run.notes["qulacs"] = f"not importable: {e}"
        return
    from qibo import Circuit
    from qibo.backends import NumpyBackend
    from lib import qtrace
    qb, nb = QulacsBackend(), NumpyBackend()
    classes = qasm_classes()
    bad_by_class = {}
    done = 0
    rejected = set()
    # every class once alone on non-ascending qubits after a layer of Hadamards, then random circuits
    accepted = []
    plans = [[c] for c in classes]
    phase = 0
    while plans:
        plan = plans.pop(0)
        n = 4
        c = Circuit(n)
        desc = []
        for q in range(n):
            c.add(qtrace.make_gate("H", [q], []))
        c.add(qtrace.make_gate("T", [1], []))
        c.add(qtrace.make_gate("RY", [2], [0.37]))
        for name, nq, npar in plan:
            qs = rng.sample(range(n), nq)
            ps = [round(rng.uniform(-3, 3), 3) for _ in range(npar)]
            if name == "MS":
                ps[2] = round(rng.uniform(0.05, 1.5), 3)
            c.add(qtrace.make_gate(name, qs, ps))
            desc.append([name, qs, ps])
        ref = np.asarray(nb.execute_circuit(c).state())
        try:
            got = np.asarray(qb.execute_circuit(c).state())
        except Exception as e:
            for nm, _, _ in plan:
                rejected.add(nm)
            got = None
        if got is not None and len(plan) == 1:
            accepted.append(plan[0])
        if not plans and phase == 0 and accepted:
            phase = 1   # second pass: random circuits over the classes qulacs accepts
            plans = [[rng.choice(accepted) for _ in range(rng.randint(2, 6))] for _ in range(ncirc)]
        if got is None:
            continue
        done += 1
        run.case(["qulacs", desc])
        d = float(np.abs(got - ref).max())
        if d > 1e-9:
            key = "+".join(sorted({x[0] for x in desc}))
            if len(plan) == 1:
                bad_by_class[plan[0][0]] = {"circuit": desc, "max_abs_diff": d}
            else:
                bad_by_class.setdefault("circuit:" + key, {"circuit": desc, "max_abs_diff": d})
    run.notes["qulacs_test"] = {"circuits_compared": done, "classes_with_qasm_label": len(classes),
                                "classes_rejected_by_qulacs_or_export": sorted(rejected), "tolerance": 1e-9,
                                "status": "test only (external simulator)"}
    singles = {k: v for k, v in bad_by_class.items() if not k.startswith("circuit:")}
    for k, v in (singles or bad_by_class).items():
        run.find(f"qulacs:{k}", f"qulacs backend state differs from the numpy backend for {k}", v)
