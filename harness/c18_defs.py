"""C18 helper: every public measure of quantum_info (entanglement.py, entropies.py, metrics.py, utils.py,
linalg_operations.py) against an INDEPENDENT definition-level oracle written here from the textbook formula, on

  pure state vectors, pure density matrices, full-rank mixed, rank-deficient mixed, maximally mixed, product and
  entangled states on 1..4 (thorough: 5) qubits,

with exact rational arithmetic whenever the spectrum is known exactly (diagonal states with dyadic probabilities,
tensor products of diagonal blocks, Hadamard/CNOT rotations of them = GHZ-diagonal / X-type states whose spectrum is
the list of weights) and numpy eigvalsh at 1e-10 otherwise; all bases, both `check_hermitian` flags, all orders and
container types of the traced qubits.  Every call is wrapped: the input arrays are snapshot before and compared
after (family B), and the call-history streams repeat calls alternately with different n / options and compare
with the oracle again (family A).  'test'-labelled (floats with tolerances).
"""
import itertools
import math
import warnings
from fractions import Fraction

import numpy as np

F = Fraction


# ------------------------------------------------------------------ independent linear algebra
def np_ptrace(rho, n, traced):
    """tr over the qubits in `traced` (any order) of the 2^n x 2^n matrix rho: sum over the paired axes"""
    traced = sorted(set(int(q) for q in traced))
    T = np.asarray(rho, dtype=complex).reshape((2,) * (2 * n))
    letters = "abcdefghijklmnopqrstuvwxyz"
    row = list(letters[:n])
    col = list(letters[n:2 * n])
    for q in traced:
        col[q] = row[q]
    keep = [q for q in range(n) if q not in traced]
    expr = "".join(row) + "".join(col) + "->" + "".join(row[q] for q in keep) + "".join(col[q] for q in keep)
    k = len(keep)
    return np.einsum(expr, T).reshape(2 ** k, 2 ** k)


def np_ptranspose(rho, n, part):
    T = np.asarray(rho, dtype=complex).reshape((2,) * (2 * n))
    perm = list(range(2 * n))
    for q in set(int(x) for x in part):
        perm[q], perm[n + q] = perm[n + q], perm[q]
    return T.transpose(perm).reshape(2 ** n, 2 ** n)


def dm_of(x):
    x = np.asarray(x, dtype=complex)
    return np.outer(x, x.conj()) if x.ndim == 1 else x


def spec(rho):
    return np.clip(np.linalg.eigvalsh((rho + rho.conj().T) / 2), 0.0, None)


def psd_pow(rho, a):
    w, V = np.linalg.eigh((rho + rho.conj().T) / 2)
    w = np.clip(w, 0.0, None)
    if a < 0:
        wa = np.where(w > 1e-13, np.power(np.where(w > 1e-13, w, 1.0), a), 0.0)
    else:
        wa = np.where(w > 1e-15, np.power(np.where(w > 1e-15, w, 1.0), a), 0.0)
    return (V * wa) @ V.conj().T


def logb(x, base):
    return math.log(x) / math.log(base)


def H_of(ps, base):
    return -sum(float(p) * logb(float(p), base) for p in ps if float(p) > 1e-15)


# ------------------------------------------------------------------ state corpus
def dyadic_probs(rng, m, zeros=0, k=6):
    den = 2 ** k
    cuts = sorted(rng.sample(range(1, den), m - 1)) if m > 1 else []
    p = [F(b - a, den) for a, b in zip([0] + cuts, cuts + [den])]
    p += [F(0)] * zeros
    rng.shuffle(p)
    return p


def hadamard_cnot_unitary(n, rng):
    """a real orthogonal Clifford (H on some qubits, then a CNOT chain): rotates diagonal states into entangled X-type ones"""
    H = np.array([[1, 1], [1, -1]]) / math.sqrt(2)
    U = np.eye(1)
    hs = [rng.random() < 0.7 for _ in range(n)]
    if not any(hs):
        hs[0] = True
    for q in range(n):
        U = np.kron(U, H if hs[q] else np.eye(2))
    d = 2 ** n
    for c in range(n - 1):
        t = c + 1
        P = np.zeros((d, d))
        for i in range(d):
            bits = [(i >> (n - 1 - q)) & 1 for q in range(n)]
            if bits[c]:
                bits[t] ^= 1
            j = sum(b << (n - 1 - q) for q, b in enumerate(bits))
            P[j, i] = 1
        U = P @ U
    return U


class St:
    def __init__(self, tag, n, dm, sv=None, spectrum=None, classical=None):
        self.tag, self.n, self.dm, self.sv = tag, n, np.asarray(dm, dtype=complex), (None if sv is None else np.asarray(sv, dtype=complex))
        self.spectrum = spectrum            # exact eigenvalues (Fractions) when known
        self.classical = classical          # diagonal probabilities (Fractions) when the state is diagonal
        self.pure = sv is not None or (spectrum is not None and sorted(spectrum)[-1] == 1)

    def eig(self):
        return [float(x) for x in self.spectrum] if self.spectrum is not None else list(spec(self.dm))

    def rank(self):
        return sum(1 for x in self.eig() if x > 1e-12)


def corpus(rng, n, rich=True):
    d = 2 ** n
    out = []
    # --- pure
    e = np.zeros(d)
    e[rng.randrange(d)] = 1
    out.append(St("pure:basis", n, np.outer(e, e), sv=e))
    plus = np.ones(d) / math.sqrt(d)
    out.append(St("pure:product|+>^n", n, np.outer(plus, plus), sv=plus))
    v = np.array([complex(rng.randint(-3, 3), rng.randint(-3, 3)) for _ in range(d)])
    if not np.any(v):
        v[0] = 1
    v = v / np.linalg.norm(v)
    out.append(St("pure:random", n, np.outer(v, v.conj()), sv=v))
    if n >= 2:
        ghz = np.zeros(d)
        ghz[0] = ghz[-1] = 1 / math.sqrt(2)
        out.append(St("pure:ghz", n, np.outer(ghz, ghz), sv=ghz))
        prod = np.array([1.0])
        for q in range(n):
            a = np.array([complex(rng.randint(-2, 2), rng.randint(-2, 2)), complex(rng.randint(1, 3), 0)])
            prod = np.kron(prod, a / np.linalg.norm(a))
        out.append(St("pure:random_product", n, np.outer(prod, prod.conj()), sv=prod))
    if n >= 3:
        w = np.zeros(d)
        for q in range(n):
            w[1 << q] = 1 / math.sqrt(n)
        out.append(St("pure:w", n, np.outer(w, w), sv=w))
    # --- mixed with exactly known spectrum
    out.append(St("mixed:maximally_mixed", n, np.eye(d) / d, spectrum=[F(1, d)] * d, classical=[F(1, d)] * d))
    p = dyadic_probs(rng, d)
    out.append(St("mixed:diagonal_full_rank", n, np.diag([float(x) for x in p]), spectrum=p, classical=p))
    if d >= 4:
        nz = rng.randint(2, d - 1)
        p = dyadic_probs(rng, nz, zeros=d - nz)
        out.append(St("mixed:diagonal_rank_deficient", n, np.diag([float(x) for x in p]), spectrum=p, classical=p))
    else:
        p = [F(1, 4), F(3, 4)]
        out.append(St("mixed:diagonal", n, np.diag([float(x) for x in p]), spectrum=p, classical=p))
    if n >= 2:
        # tensor product of diagonal blocks (a product state, classical)
        blocks = [dyadic_probs(rng, 2, k=3) for _ in range(n)]
        pp = [F(1)]
        for b in blocks:
            pp = [x * y for x in pp for y in b]
        out.append(St("mixed:product_of_diagonal_blocks", n, np.diag([float(x) for x in pp]), spectrum=pp, classical=pp))
        # entangled mixed states with known spectrum: orthogonal Clifford rotation of diagonal states
        U = hadamard_cnot_unitary(n, rng)
        p = dyadic_probs(rng, d)
        out.append(St("mixed:ghz_diagonal_full_rank", n, U @ np.diag([float(x) for x in p]) @ U.T, spectrum=p))
        nz = rng.randint(2, d - 1)
        p = dyadic_probs(rng, nz, zeros=d - nz)
        out.append(St("mixed:ghz_diagonal_rank_deficient", n, U @ np.diag([float(x) for x in p]) @ U.T, spectrum=p))
        # Werner-like: q |GHZ><GHZ| + (1 - q) I/d
        q = F(rng.choice([1, 3, 5]), 8)
        ghz = np.zeros(d)
        ghz[0] = ghz[-1] = 1 / math.sqrt(2)
        sp = [q + (1 - q) / d] + [(1 - q) / d] * (d - 1)
        out.append(St("mixed:werner_ghz", n, float(q) * np.outer(ghz, ghz) + float(1 - q) * np.eye(d) / d, spectrum=sp))
    # --- nearly pure (just beyond the "pure" shortcuts of the library): (1 - e) |psi><psi| + e I/d, spectrum known exactly
    for k in (10, 20):
        e_ = F(1, 2 ** k)
        sp = [1 - e_ + e_ / d] + [e_ / d] * (d - 1)
        vv = plus if k == 10 else v
        out.append(St(f"mixed:nearly_pure_eps=2^-{k}", n, float(1 - e_) * np.outer(vv, vv.conj()) + float(e_) * np.eye(d) / d, spectrum=sp))
    # --- generic mixed (spectrum by eigvalsh)
    if rich:
        A = np.array([[complex(rng.randint(-3, 3), rng.randint(-3, 3)) for _ in range(d)] for _ in range(d)])
        R = A @ A.conj().T + np.eye(d) * 0.5
        out.append(St("mixed:random_full_rank", n, R / np.trace(R).real))
        if d >= 4:
            k = rng.randint(2, d - 1)
            B = np.array([[complex(rng.randint(-3, 3), rng.randint(-3, 3)) for _ in range(k)] for _ in range(d)])
            R = B @ B.conj().T
            if np.trace(R).real > 0:
                out.append(St(f"mixed:random_rank_{k}", n, R / np.trace(R).real))
        if n >= 2:
            a = St("", 1, np.diag([0.25, 0.75]))
            M = np.array([[0.5, 0.25j], [-0.25j, 0.5]])
            R = np.array([[1.0]])
            for q in range(n):
                R = np.kron(R, M if q % 2 == 0 else a.dm)
            out.append(St("mixed:product_of_mixed_blocks", n, R))
    return out


# ------------------------------------------------------------------ the checker
class Checker:
    def __init__(self, run):
        self.run = run
        self.n = 0
        self.failed = {}
        self.covered = {}
        self.worst = {}
        self.budget = {}
        self.scale = 1 if run.tier == "quick" else 6

    def heavy(self, n, what, limit):
        """fractional matrix powers (scipy Pade iteration) on 16x16 and larger matrices cost 0.1-0.3 s each: a per-(size, function) budget"""
        if n <= 2:
            return True
        k = (n, what)
        self.budget[k] = self.budget.get(k, 0) + 1
        return self.budget[k] <= (limit * self.scale * (3 if n == 3 else 1))

    def call(self, fname, fn, arrays):
        """fn() with the numpy inputs `arrays` snapshot before and compared after (non-mutation)"""
        snaps = [(a, a.copy(), a.flags.writeable, a.dtype, a.shape) for a in arrays]
        try:
            with warnings.catch_warnings():
                warnings.simplefilter("ignore")
                out = fn()
        except Exception as e:  # noqa: BLE001
            out = e
        for a, c, w, dt, sh in snaps:
            same = a.dtype == dt and a.shape == sh and a.flags.writeable == w and np.array_equal(a, c, equal_nan=True)
            self.check(f"input_mutated:{fname}", same, f"{fname} modified one of its input arrays in place", {"function": fname})
        return out

    def check(self, key, ok, detail, rp=None):
        self.n += 1
        self.run.case({"defs": key, "i": self.n}, True)
        if not ok and key not in self.failed:
            self.failed[key] = detail
            self.run.find(key, detail, rp or {"detail": detail})

    def value(self, fname, key, got, want, tol, detail, rp=None, raise_key=None):
        self.covered.setdefault(fname, set()).add(key.split(":", 1)[1] if ":" in key else "")
        if isinstance(got, Exception) and raise_key and type(got).__name__ == "LinAlgError":
            self.check(raise_key, False, f"{fname} raised {type(got).__name__}: {got} ({detail})", rp)
            return
        if isinstance(got, Exception):
            self.check(key + ":raises", False, f"{fname} raised {type(got).__name__}: {got} ({detail})", rp)
            return
        try:
            g = complex(got)
        except Exception:  # noqa: BLE001
            self.check(key, False, f"{fname} returned a non-scalar {type(got).__name__} ({detail})", rp)
            return
        if math.isinf(want) or math.isnan(g.real):
            ok = (not math.isnan(g.real)) and math.isinf(g.real) and (g.real > 0) == (want > 0)
        else:
            err = abs(g - want)
            ok = err <= tol * max(1.0, abs(want))
            self.worst[fname] = max(self.worst.get(fname, 0.0), err if math.isfinite(err) else float("inf"))
        self.check(key, ok, f"{fname} = {got!r}, definition gives {want!r} ({detail})", rp)


def state_desc(s):
    return {"state": s.tag, "nqubits": s.n, "density_matrix": [[[round(z.real, 12), round(z.imag, 12)] for z in r] for r in s.dm.tolist()] if s.n <= 2 else "see tag/seed"}


BASES = (2, math.e, 10, 3.5)


def single_state_measures(run, rng, C, s, quick):
    import qibo.quantum_info as qi
    n, d = s.n, 2 ** s.n
    ev = s.eig()
    forms = [("dm", s.dm)] + ([("sv", s.sv)] if s.sv is not None else [])
    for form, arr in forms:
        tag = f"{s.tag}:{form}"
        rp = {**state_desc(s), "form": form}
        x = arr.copy()
        pur = sum(e * e for e in ev)
        C.value("purity", f"purity:{tag}", C.call("purity", lambda: qi.purity(x), [x]), pur, 1e-10, tag, rp)
        C.value("impurity", f"impurity:{tag}", C.call("impurity", lambda: qi.impurity(x), [x]), 1 - pur, 1e-10, tag, rp)
        for base in (BASES if not quick else BASES[:3]):
            want = H_of(ev, base)
            for ch in ((False, True) if form == "dm" else (False,)):
                if form == "sv":
                    continue            # von_neumann_entropy documents density matrices; state vectors only through the pure shortcut
                C.value("von_neumann_entropy", f"von_neumann_entropy:{tag}", C.call("von_neumann_entropy", lambda: qi.von_neumann_entropy(x, base=base, check_hermitian=ch), [x]),
                        want, 1e-8, f"{tag} base={base} check_hermitian={ch}", rp)
            if form == "dm" and not s.pure:
                out = C.call("von_neumann_entropy", lambda: qi.von_neumann_entropy(x, base=base, return_spectrum=True), [x])
                if isinstance(out, tuple):
                    C.value("von_neumann_entropy", f"von_neumann_entropy:return_spectrum:{tag}", out[0], want, 1e-8, f"{tag} base={base}", rp)
                    # entries of (numerically) zero eigenvalues are 0 or -log(rounding noise): only the others are compared
                    got_all = [float(np.real(t)) for t in np.asarray(out[1]).ravel()]
                    want_sp = sorted(-logb(e, base) for e in ev if e > 1e-10)
                    got_sp = sorted(g for g in got_all if abs(g) > 0 and g < 30 * math.log(2) / math.log(base))
                    if any(abs(w) < 1e-12 for w in want_sp):
                        got_sp = sorted(got_sp + [0.0] * sum(1 for w in want_sp if abs(w) < 1e-12))
                    ok = len(got_all) == len(ev) and len(got_sp) == len(want_sp) and all(abs(a - b) < 1e-6 * max(1, abs(b)) for a, b in zip(got_sp, want_sp))
                    C.check(f"von_neumann_entropy:return_spectrum:{tag}", ok, f"returned spectrum {got_sp[:4]}.. vs -log eigenvalues {want_sp[:4]}..", rp)
            if form == "dm":
                for alpha in (0.5, 2, 3) if quick else (0.3, 0.5, 2, 3, 4.5):
                    if alpha != int(alpha) and not s.pure and not C.heavy(n, "renyi", 6):
                        continue
                    tr_a = sum(e ** alpha for e in ev if e > 1e-15)
                    got_r = C.call("renyi_entropy", lambda: qi.renyi_entropy(x, alpha, base=base), [x])
                    want_r = logb(tr_a, base) / (1 - alpha)
                    singular = alpha != int(alpha) and min(ev) < 1e-12
                    if singular and not isinstance(got_r, Exception) and 1e-7 * max(1.0, abs(want_r)) < abs(complex(got_r) - want_r) <= 1e-3:
                        # fractional power of a SINGULAR matrix (scipy fractional_matrix_power): off by ~1e-5 with an imaginary
                        # part; a precision finding of its own, so that a wrong value (> 1e-3) of the same class is still reported
                        C.value("renyi_entropy", "renyi_entropy:fractional_power_of_singular_state", got_r, want_r, 1e-7, f"{tag} alpha={alpha} base={base}", rp)
                    else:
                        C.value("renyi_entropy", f"renyi_entropy:{tag}", got_r, want_r, 1e-7, f"{tag} alpha={alpha} base={base}", rp)
                C.value("renyi_entropy", f"renyi_entropy:alpha=1:{tag}", C.call("renyi_entropy", lambda: qi.renyi_entropy(x, 1.0, base=base), [x]), want, 1e-7, f"alpha=1 {tag}", rp)
                C.value("renyi_entropy", f"renyi_entropy:alpha=inf:{tag}", C.call("renyi_entropy", lambda: qi.renyi_entropy(x, np.inf, base=base), [x]),
                        -logb(max(ev), base), 1e-7, f"alpha=inf {tag}", rp)
                rk = s.rank()
                key0 = "renyi_entropy:alpha=0:rank_deficient" if (rk < d and not s.pure) else f"renyi_entropy:alpha=0:{tag}"
                C.value("renyi_entropy", key0, C.call("renyi_entropy", lambda: qi.renyi_entropy(x, 0, base=base), [x]), logb(rk, base), 1e-9,
                        f"Hartley entropy log(rank) = limit of the general formula for alpha -> 0; state {tag} has rank {rk} of {d}, base {base}", rp)
        if form == "dm":
            for alpha in (0.5, 2, 3):
                if alpha != int(alpha) and not s.pure and not C.heavy(n, "tsallis", 6):
                    continue
                tr_a = sum(e ** alpha for e in ev if e > 1e-15)
                C.value("tsallis_entropy", f"tsallis_entropy:{tag}", C.call("tsallis_entropy", lambda: qi.tsallis_entropy(x, alpha), [x]),
                        (1 - tr_a) / (alpha - 1), 1e-7, f"{tag} alpha={alpha}", rp)
            C.value("tsallis_entropy", f"tsallis_entropy:alpha=1:base=e:{tag}", C.call("tsallis_entropy", lambda: qi.tsallis_entropy(x, 1.0, base=math.e), [x]),
                    H_of(ev, math.e), 1e-7, f"{tag}", rp)
    # ---- Meyer-Wallach: Q = 2 (1 - 1/N sum_k tr rho_k^2), rho_k = reduced state OF qubit k
    pk = []
    for k in range(n):
        if s.classical is not None:
            m0 = sum(p for i, p in enumerate(s.classical) if not (i >> (n - 1 - k)) & 1)
            pk.append(float(m0 * m0 + (1 - m0) * (1 - m0)))
        else:
            rk_ = np_ptrace(s.dm, n, [q for q in range(n) if q != k])
            pk.append(float(np.real(np.trace(rk_ @ rk_))))
    want = 2 * (1 - sum(pk) / n)
    for form, arr in forms:
        x = arr.copy()
        C.value("meyer_wallach_entanglement", f"meyer_wallach_entanglement:{s.tag}:{form}", C.call("meyer_wallach_entanglement", lambda: qi.meyer_wallach_entanglement(x), [x]),
                want, 1e-9, f"{s.tag} as {form}, n={n}: single-qubit purities {[round(v, 6) for v in pk]}", {**state_desc(s), "form": form})


def bipartite_measures(run, rng, C, s, quick):
    import qibo.quantum_info as qi
    n, d = s.n, 2 ** s.n
    if n < 2:
        return
    parts = []
    for k in range(1, n):
        for c in itertools.combinations(range(n), k):
            parts.append(list(c))
    rng.shuffle(parts)
    parts = parts[: (2 if quick else 5)]
    variants = []
    for p in parts:
        variants.append(p)
        if len(p) >= 2:
            variants.append(list(reversed(p)))
            variants.append(tuple(p[1:] + p[:1]))
    forms = [("dm", s.dm)] + ([("sv", s.sv)] if s.sv is not None else [])
    for part in variants:
        pl = sorted(part)
        keep = [q for q in range(n) if q not in pl]
        red = np_ptrace(s.dm, n, pl)                      # traced out: `part`
        sv_red = spec(red)
        red_other = np_ptrace(s.dm, n, keep)
        for form, arr in forms:
            x = arr.copy()
            tag = f"{s.tag}:{form}"
            rp = {**state_desc(s), "form": form, "bipartition": list(part), "container": type(part).__name__}
            # entanglement entropy: von Neumann entropy of the reduced state after tracing out `bipartition`
            for base in (2, math.e):
                for ch in (False, True):
                    C.value("entanglement_entropy", f"entanglement_entropy:{tag}", C.call("entanglement_entropy", lambda: qi.entanglement_entropy(x, part, base=base, check_hermitian=ch), [x]),
                            H_of(sv_red, base), 1e-7, f"{tag} traced={part} base={base} check_hermitian={ch}", rp)
            # negativity: (|| rho^{T_B} ||_1 - 1) / 2
            neg = (float(np.abs(np.linalg.eigvalsh(np_ptranspose(s.dm, n, pl))).sum()) - 1) / 2
            if C.heavy(n, "negativity:" + ("pure" if s.pure else "mixed"), 8):
                C.value("negativity", f"negativity:{tag}", C.call("negativity", lambda: qi.negativity(x, part), [x]), neg, 2e-6, f"{tag} partition={part}", rp)
            if s.pure:
                conc = math.sqrt(max(0.0, 2 * (1 - float(np.sum(sv_red ** 2)))))
                C.value("concurrence", f"concurrence:{tag}", C.call("concurrence", lambda: qi.concurrence(x, part), [x]), conc, 1e-6, f"{tag} partition={part}", rp)
                xx = (1 + math.sqrt(max(0.0, 1 - conc ** 2))) / 2
                for base in (2, math.e):
                    C.value("entanglement_of_formation", f"entanglement_of_formation:{tag}",
                            C.call("entanglement_of_formation", lambda: qi.entanglement_of_formation(x, part, base=base), [x]), H_of([xx, 1 - xx], base), 2e-6, f"{tag} partition={part} base={base}", rp)
            elif form == "dm":
                out = C.call("concurrence", lambda: qi.concurrence(x, part), [x])
                C.check(f"concurrence:mixed_refused:{s.tag}", isinstance(out, NotImplementedError),
                        f"concurrence of the mixed state {s.tag} returned {out!r}; only pure states are implemented (NotImplementedError expected)", rp)
            if form == "dm":
                for base in (2, math.e):
                    mi = H_of(spec(red_other), base) + H_of(sv_red, base) - H_of(s.eig(), base)
                    for ch in (False, True):
                        C.value("mutual_information", f"mutual_information:{tag}", C.call("mutual_information", lambda: qi.mutual_information(x, part, base=base, check_hermitian=ch), [x]),
                                mi, 1e-6, f"{tag} partition={part} base={base}", rp)


def pair_measures(run, rng, C, a, b, quick):
    """two states of the same size"""
    import qibo.quantum_info as qi
    from scipy.linalg import sqrtm
    n, d = a.n, 2 ** a.n
    A, B = a.dm, b.dm
    # definitions
    both_sv = a.sv is not None and b.sv is not None
    if a.classical is not None and b.classical is not None:
        pa, pb = [float(x) for x in a.classical], [float(x) for x in b.classical]
        fid = sum(math.sqrt(x * y) for x, y in zip(pa, pb)) ** 2
        td = sum(abs(x - y) for x, y in zip(pa, pb)) / 2
    else:
        if a.pure:
            v = a.sv if a.sv is not None else np.linalg.eigh(A)[1][:, -1]
            fid = float(np.real(np.vdot(v, B @ v)))
        elif b.pure:
            v = b.sv if b.sv is not None else np.linalg.eigh(B)[1][:, -1]
            fid = float(np.real(np.vdot(v, A @ v)))
        else:
            sa = psd_pow(A, 0.5)
            fid = float(np.sum(np.sqrt(np.clip(np.linalg.eigvalsh(sa @ B @ sa), 0, None))) ** 2)
        td = float(np.abs(np.linalg.eigvalsh(A - B)).sum()) / 2
    hs = float(np.real(np.trace((A - B).conj().T @ (A - B))))
    hsi = float(np.real(np.trace(A.conj().T @ B)))
    pairs = [("dm", A, B)] + ([("sv", a.sv, b.sv)] if both_sv else [])
    # the mixed/mixed branch of fidelity discards eigenvalues below 1e-8 of sqrt(rho) sigma sqrt(rho): accuracy ~ d * 1e-4
    ftol = 1e-9 if (a.pure or b.pure) else 2e-3
    # sqrt(rho) is formed from eigh(rho) without clipping: a rank-deficient mixed rho whose zero eigenvalues come out as
    # -1e-17 makes the second eigh fail on NaNs (classified separately: one root cause for fidelity / infidelity / bures_*)
    rdef = (lambda f: f"{f}:rank_deficient_mixed_state:raises") if (not a.pure and not b.pure and a.rank() < d and a.classical is None) else (lambda f: None)
    for form, X0, Y0 in pairs:
        x, y = X0.copy(), Y0.copy()
        tag = f"{a.tag}|{b.tag}:{form}"
        rp = {"state": a.tag, "target": b.tag, "nqubits": n, "form": form}
        for ch in (False, True):
            C.value("fidelity", f"fidelity:{tag}", C.call("fidelity", lambda: qi.fidelity(x, y, check_hermitian=ch), [x, y]), fid, ftol, f"{tag} check_hermitian={ch}", rp, rdef("fidelity"))
            C.value("trace_distance", f"trace_distance:{tag}", C.call("trace_distance", lambda: qi.trace_distance(x, y, check_hermitian=ch), [x, y]), td, 1e-7, f"{tag} check_hermitian={ch}", rp)
        C.value("infidelity", f"infidelity:{tag}", C.call("infidelity", lambda: qi.infidelity(x, y), [x, y]), 1 - fid, ftol, tag, rp, rdef("infidelity"))
        # fidelity of orthogonal states comes out as +-1e-17; sqrt of the negative rounding error is NaN (classified separately)
        orth = fid < 1e-12
        C.value("bures_distance", "bures_distance:orthogonal_states" if orth else f"bures_distance:{tag}", C.call("bures_distance", lambda: qi.bures_distance(x, y), [x, y]),
                math.sqrt(max(0.0, 2 * (1 - math.sqrt(max(fid, 0.0))))), max(ftol, 2e-4) if fid > 1 - 1e-6 else ftol * 10, tag, rp, rdef("bures_distance"))
        if fid < 1 - 1e-6:
            C.value("bures_angle", "bures_angle:orthogonal_states" if orth else f"bures_angle:{tag}", C.call("bures_angle", lambda: qi.bures_angle(x, y), [x, y]), math.acos(min(1.0, math.sqrt(max(fid, 0.0)))), ftol * 10, tag, rp, rdef("bures_angle"))
        C.value("hilbert_schmidt_distance", f"hilbert_schmidt_distance:{tag}", C.call("hilbert_schmidt_distance", lambda: qi.hilbert_schmidt_distance(x, y), [x, y]), hs, 1e-9, tag, rp)
        if form == "dm":
            C.value("hilbert_schmidt_inner_product", f"hilbert_schmidt_inner_product:{tag}",
                    C.call("hilbert_schmidt_inner_product", lambda: qi.hilbert_schmidt_inner_product(x, y), [x, y]), hsi, 1e-9, tag, rp)
    # relative entropies: full-rank target only (otherwise the value is +infinity unless supp(rho) inside supp(sigma))
    if b.rank() == d and not a.pure and C.heavy(n, "relative", 4):
        evb, Vb = np.linalg.eigh(B)
        eva, Va = np.linalg.eigh(A)
        x, y = A.copy(), B.copy()
        tag = f"{a.tag}|{b.tag}"
        rp = {"state": a.tag, "target": b.tag, "nqubits": n}
        for base in (2, math.e):
            ov = np.abs(Va.conj().T @ Vb) ** 2
            rel = sum(p * logb(p, base) for p in eva if p > 1e-14) - sum(eva[i] * ov[i, j] * logb(evb[j], base) for i in range(d) for j in range(d) if eva[i] > 1e-14)
            for ch in (False, True):
                C.value("relative_von_neumann_entropy", f"relative_von_neumann_entropy:{tag}",
                        C.call("relative_von_neumann_entropy", lambda: qi.relative_von_neumann_entropy(x, y, base=base, check_hermitian=ch), [x, y]), rel, 1e-6, f"{tag} base={base}", rp)
            for alpha in (0.5, 2) if quick else (0.3, 0.5, 2, 3):
                tr_ = float(np.real(np.trace(psd_pow(A, alpha) @ psd_pow(B, 1 - alpha))))
                got_r = C.call("relative_renyi_entropy", lambda: qi.relative_renyi_entropy(x, y, alpha, base=base), [x, y])
                want_r = logb(tr_, base) / (alpha - 1)
                singular = alpha != int(alpha) and (min(eva) < 1e-12 or min(evb) < 1e-12)
                if singular and not isinstance(got_r, Exception) and not (math.isinf(want_r) or math.isnan(want_r)) and 1e-6 * max(1.0, abs(want_r)) < abs(complex(got_r) - want_r) <= 1e-3:
                    C.value("relative_renyi_entropy", "relative_renyi_entropy:fractional_power_of_singular_state", got_r, want_r, 1e-6, f"{tag} alpha={alpha} base={base}", rp)
                else:
                    C.value("relative_renyi_entropy", f"relative_renyi_entropy:{tag}", got_r, want_r, 1e-6, f"{tag} alpha={alpha} base={base}", rp)
        from qibo.backends import NumpyBackend
        be = NumpyBackend()
        out = C.call("relative_tsallis_entropy", lambda: qi.relative_tsallis_entropy(x, y, 1.5), [x, y])
        C.check("relative_tsallis_entropy:default_backend:raises", not isinstance(out, Exception),
                f"relative_tsallis_entropy(rho, sigma, 1.5) with the default backend argument raised {type(out).__name__}: {out}", rp)
        for alpha in (0.5, 1.5, 2):
            tr_ = float(np.real(np.trace(psd_pow(A, alpha) @ psd_pow(B, 1 - alpha))))
            key = f"relative_tsallis_entropy:alpha<1" if alpha < 1 else f"relative_tsallis_entropy:{tag}"
            C.value("relative_tsallis_entropy", key, C.call("relative_tsallis_entropy", lambda: qi.relative_tsallis_entropy(x, y, alpha, backend=be), [x, y]),
                    (1 - tr_) / (1 - alpha), 1e-6, f"documented (1 - tr(rho^a sigma^(1-a)))/(1-a), {tag} alpha={alpha}", {**rp, "alpha": alpha})


def classical_and_linalg(run, rng, C, quick):
    """the remaining public functions of utils.py / entropies.py / linalg_operations.py"""
    import qibo.quantum_info as qi
    import scipy.linalg
    for _ in range(3 if quick else 12):
        m = rng.randint(2, 4)
        pj = dyadic_probs(rng, m * m)
        J = np.array([float(x) for x in pj]).reshape(m, m)
        p, q = J.sum(axis=1), J.sum(axis=0)
        for base in (2, math.e):
            want = H_of(p, base) + H_of(q, base) - H_of(pj, base)
            jj, pp, qq_ = J.reshape(-1).copy(), p.copy(), q.copy()
            C.value("classical_mutual_information", "classical_mutual_information:joint", C.call("classical_mutual_information", lambda: qi.classical_mutual_information(jj, pp, qq_, base=base), [jj, pp, qq_]),
                    want, 1e-9, f"joint {m}x{m} base={base}")
        a = [float(x) for x in dyadic_probs(rng, m)]
        b = [float(x) for x in dyadic_probs(rng, m)]
        for alpha in (0.5, 2, 3):
            # documented: sum p^alpha ln_alpha(p/q), ln_alpha(x) = (x^(1-alpha) - 1)/(1-alpha)
            want = sum(x ** alpha * (((x / y) ** (1 - alpha) - 1) / (1 - alpha)) for x, y in zip(a, b))
            xa, xb = np.array(a), np.array(b)
            C.value("classical_relative_tsallis_entropy", "classical_relative_tsallis_entropy:dyadic", C.call("classical_relative_tsallis_entropy",
                    lambda: qi.classical_relative_tsallis_entropy(xa, xb, alpha), [xa, xb]), want, 1e-9, f"p={a} q={b} alpha={alpha}")
        nshots = rng.choice([100, 1000])
        xa, xb = np.array(a), np.array(b)
        hf = sum(math.sqrt(x * y) for x, y in zip(a, b)) ** 2
        want = math.sqrt(hf / nshots) * sum(math.sqrt(y * (1 - x)) + math.sqrt(x * (1 - y)) for x, y in zip(a, b))
        C.value("hellinger_shot_error", "hellinger_shot_error:dyadic", C.call("hellinger_shot_error", lambda: qi.hellinger_shot_error(xa, xb, nshots), [xa, xb]), want, 1e-9, f"p={a} q={b} nshots={nshots}")
    for n in (1, 2, 3):
        d = 2 ** n
        A = np.array([[complex(rng.randint(-3, 3), rng.randint(-3, 3)) for _ in range(d)] for _ in range(d)])
        B = np.array([[complex(rng.randint(-3, 3), rng.randint(-3, 3)) for _ in range(d)] for _ in range(d)])
        x, y = A.copy(), B.copy()
        out = C.call("commutator", lambda: qi.commutator(x, y), [x, y])
        C.check("commutator:integer", not isinstance(out, Exception) and np.array_equal(np.asarray(out), A @ B - B @ A), f"commutator on Gaussian-integer matrices, n={n}")
        out = C.call("anticommutator", lambda: qi.anticommutator(x, y), [x, y])
        C.check("anticommutator:integer", not isinstance(out, Exception) and np.array_equal(np.asarray(out), A @ B + B @ A), f"anticommutator on Gaussian-integer matrices, n={n}")
        for k in (0, 1, 2, 3):
            out = C.call("matrix_power", lambda: qi.matrix_power(x, k), [x])
            C.check("matrix_power:integer", not isinstance(out, Exception) and np.allclose(np.asarray(out), np.linalg.matrix_power(A, k), atol=1e-9), f"A^{k}, n={n}")
        Hh = A + A.conj().T
        P = Hh @ Hh + np.eye(d)
        xp = P.copy()
        for pw in (0.5, -0.5, 1.5, -1):
            out = C.call("matrix_power", lambda: qi.matrix_power(xp, pw), [xp])
            C.check("matrix_power:psd_fractional", not isinstance(out, Exception) and np.allclose(np.asarray(out), psd_pow(P, pw), atol=1e-8 * max(1.0, float(np.abs(psd_pow(P, pw)).max()))), f"P^{pw} for a positive definite P, n={n}")
        xh = Hh.copy()
        for ph in (0.3, 1.0):
            out = C.call("matrix_exponentiation", lambda: qi.matrix_exponentiation(ph, xh), [xh])
            C.check("matrix_exponentiation:hermitian", not isinstance(out, Exception) and np.allclose(np.asarray(out), scipy.linalg.expm(-1j * ph * Hh), atol=1e-9), f"exp(-i {ph} H), n={n}")
        out = C.call("singular_value_decomposition", lambda: qi.singular_value_decomposition(x), [x])
        ok = not isinstance(out, Exception)
        if ok:
            U, S, Vh = (np.asarray(t) for t in out)
            ok = np.allclose((U * S) @ Vh, A, atol=1e-9) and np.allclose(U.conj().T @ U, np.eye(d), atol=1e-9) and np.allclose(Vh @ Vh.conj().T, np.eye(d), atol=1e-9) and bool(np.all(np.diff(S) <= 1e-12)) and bool(np.all(S >= 0))
        C.check("singular_value_decomposition:reconstruct", ok, f"U S V^dagger = A with unitary factors and ordered non-negative S, n={n}")
        if n >= 2:
            psi = np.array([complex(rng.randint(-3, 3), rng.randint(-3, 3)) for _ in range(d)])
            psi = psi / np.linalg.norm(psi)
            for part in ([0], [n - 1], list(range(n - 1))[::-1]):
                xs = psi.copy()
                out = C.call("schmidt_decomposition", lambda: qi.schmidt_decomposition(xs, part), [xs])
                ok = not isinstance(out, Exception)
                if ok:
                    U, S, Vh = (np.asarray(t) for t in out)
                    red = np_ptrace(np.outer(psi, psi.conj()), n, [q for q in range(n) if q not in part])     # state of `part`
                    ok = np.allclose(np.sort(S ** 2)[::-1][: 2 ** len(part)], np.sort(spec(red))[::-1][: len(S)], atol=1e-9) and abs(float(np.sum(S ** 2)) - 1) < 1e-9
                C.check("schmidt_decomposition:coefficients", ok, f"squared Schmidt coefficients = spectrum of the reduced state of {part}, n={n}")


def pauli_basis_oracle(n, normalize, vectorize, order, pauli_order):
    I_, X_, Y_, Z_ = np.eye(2), np.array([[0, 1], [1, 0]]), np.array([[0, -1j], [1j, 0]]), np.array([[1, 0], [0, -1]])
    sing = {"I": I_, "X": X_, "Y": Y_, "Z": Z_}
    out = []
    for combo in itertools.product(pauli_order, repeat=n):
        M = np.eye(1)
        for c in combo:
            M = np.kron(M, sing[c])
        out.append(M.astype(complex))
    out = np.array(out)
    if normalize:
        out = out / math.sqrt(2 ** n)
    if vectorize:
        if order == "row":
            out = np.array([M.reshape(-1) for M in out])
        elif order == "column":
            out = np.array([M.T.reshape(-1) for M in out])
    return out


def call_histories(run, rng, C, quick):
    """functions with internal tables / caches called alternately with different n / options; every returned object is
    compared with the oracle at once AND again after later calls and after the caller overwrote another returned object"""
    import qibo.quantum_info as qi
    from qibo import matrices as qmat
    saved = {k: np.array(getattr(qmat, k), copy=True) for k in ("I", "X", "Y", "Z", "H")}
    held = []
    seq = []
    for _ in range(10 if quick else 40):
        seq.append((rng.choice([1, 2, 3] if quick else [1, 2, 3, 4]), rng.random() < 0.5, rng.random() < 0.5, rng.choice(["row", "column"]), rng.choice(["IXYZ", "IZXY", "XYZI"])))
    for i, (n, nz, vec, order, po) in enumerate(seq):
        kw = dict(normalize=nz, vectorize=vec, pauli_order=po)
        if vec:
            kw["order"] = order
        out = C.call("pauli_basis", lambda: qi.pauli_basis(n, **kw), [])
        want = pauli_basis_oracle(n, nz, vec, order, po)
        ok = not isinstance(out, Exception) and np.asarray(out).shape == want.shape and np.allclose(np.asarray(out), want, atol=1e-12)
        C.check("pauli_basis:history", ok, f"pauli_basis(n={n}, normalize={nz}, vectorize={vec}, order={order}, pauli_order={po}) as call {i} of a history differs from the tensor products of the single-qubit Paulis",
                {"call_index": i, "history": [list(map(str, s_)) for s_ in seq[: i + 1]]})
        if ok:
            held.append((np.asarray(out), want, i))
            if i % 3 == 0 and np.asarray(out).flags.writeable:
                np.asarray(out)[...] = 7.0           # the caller overwrites what it was given
                held.pop()
    for arr, want, i in held:
        C.check("pauli_basis:returned_object_changed_later", np.allclose(arr, want, atol=1e-12), f"the array returned by pauli_basis call {i} changed after later calls / after another returned array was overwritten")
    for k, v in saved.items():
        C.check(f"global_matrices_mutated:{k}", np.array_equal(np.array(getattr(qmat, k)), v), f"qibo.matrices.{k} changed during quantum_info calls")
    # comp_basis_to_pauli / pauli_to_comp_basis alternately: inverse of each other and equal to the oracle's change of basis
    for i in range(6 if quick else 20):
        n = rng.choice([1, 2])
        nz = rng.random() < 0.5
        order = rng.choice(["row", "column"])
        po = rng.choice(["IXYZ", "ZYXI"])
        U = C.call("comp_basis_to_pauli", lambda: qi.comp_basis_to_pauli(n, normalize=nz, order=order, pauli_order=po), [])
        Pv = pauli_basis_oracle(n, nz, True, order, po)
        want = np.conj(Pv)
        ok = not isinstance(U, Exception) and np.allclose(np.asarray(U), want, atol=1e-12)
        C.check("comp_basis_to_pauli:history", ok, f"comp_basis_to_pauli(n={n}, normalize={nz}, order={order}, pauli_order={po}) as call {i}: rows are not conj(vec(P))")
        V = C.call("pauli_to_comp_basis", lambda: qi.pauli_to_comp_basis(n, normalize=nz, order=order, pauli_order=po), [])
        ok = (not isinstance(V, Exception) and not isinstance(U, Exception) and np.allclose(np.asarray(V), Pv.T, atol=1e-12)
              and np.allclose(np.asarray(U) @ np.asarray(V), np.eye(4 ** n) * (1 if nz else 2 ** n), atol=1e-10))
        C.check("pauli_to_comp_basis:history", ok, f"pauli_to_comp_basis: columns are not vec(P) / it is not the (scaled) inverse of comp_basis_to_pauli (n={n}, normalize={nz}, order={order}, pauli_order={po}), call {i}")
    # random_clifford: cached gate factories (_create_S / _create_CZ / _create_CNOT) -- alternate sizes and seeds
    first = {}
    for i in range(8 if quick else 30):
        n = rng.choice([1, 2, 3])
        seed = rng.choice([0, 1, 5])
        circ = C.call("random_clifford", lambda: qi.random_clifford(n, return_circuit=True, seed=seed), [])
        mat = C.call("random_clifford", lambda: qi.random_clifford(n, return_circuit=False, seed=seed), [])
        ok = not isinstance(circ, Exception) and not isinstance(mat, Exception)
        if ok:
            Uc = np.asarray(circ.unitary())
            ok = np.allclose(Uc, np.asarray(mat), atol=1e-10) and np.allclose(Uc @ Uc.conj().T, np.eye(2 ** n), atol=1e-10)
            if ok and (n, seed) in first:
                ok = np.allclose(first[(n, seed)], Uc, atol=1e-12)
            first.setdefault((n, seed), Uc)
            if ok:
                P = pauli_basis_oracle(n, False, False, None, "IXYZ")
                for Pm in P[1:]:
                    W = Uc @ Pm @ Uc.conj().T
                    ov = np.array([np.trace(Pk.conj().T @ W) / 2 ** n for Pk in P])
                    ok = ok and bool(np.isclose(np.abs(ov).max(), 1.0, atol=1e-8))
        C.check("random_clifford:history", ok, f"random_clifford(n={n}, seed={seed}) as call {i} of a history with other sizes/seeds: circuit and matrix forms differ, "
                "the result is not reproducible, or it does not normalise the Pauli group", {"n": n, "seed": seed, "call_index": i})
    # hadamard_transform both implementations, alternating sizes, input snapshot
    for i in range(6 if quick else 20):
        n = rng.choice([1, 2, 3])
        v = np.array([float(rng.randint(-4, 4)) for _ in range(2 ** n)])
        Hn = np.array([[1.0]])
        for _ in range(n):
            Hn = np.kron(Hn, np.array([[1, 1], [1, -1]]))
        for impl in ("fast", "regular"):
            x = v.copy()
            out = C.call("hadamard_transform", lambda: qi.hadamard_transform(x, impl), [x])
            C.check(f"hadamard_transform:{impl}:history", not isinstance(out, Exception) and np.allclose(np.asarray(out), Hn @ v / 2 ** n, atol=1e-12),
                    f"hadamard_transform(v, {impl!r}) on {n} qubit(s) as call {i} of a history", {"n": n, "v": v.tolist()})


def run_all(run, rng):
    quick = run.tier == "quick"
    C = Checker(run)
    nmax = 4 if quick else 5
    for n in range(1, nmax + 1):
        states = corpus(rng, n, rich=(n <= 4))
        for s in states:
            single_state_measures(run, rng, C, s, quick or n >= 4)
            bipartite_measures(run, rng, C, s, quick or n >= 4)
        # pairs: every class against a few partners (pure/pure, pure/mixed, commuting mixed, generic mixed, rank deficient)
        idx = list(range(len(states)))
        pairs = set()
        for i in idx:
            for j in rng.sample(idx, min(len(idx), 3 if (quick or n >= 4) else 6)):
                if i != j:
                    pairs.add((i, j))
        for i, j in sorted(pairs):
            pair_measures(run, rng, C, states[i], states[j], quick or n >= 4)
        if n <= 2:
            run.sample({"kind": "state classes of the definition-level stream", "nqubits": n, "classes": [s.tag for s in states]})
    classical_and_linalg(run, rng, C, quick)
    call_histories(run, rng, C, quick)
    run.notes["definition_oracle_checks"] = C.n
    run.notes["definition_oracle_failures"] = C.failed
    run.notes["definition_oracle_max_abs_error"] = {k: v for k, v in sorted(C.worst.items())}
    run.notes["public_functions_covered_by_definition_oracle"] = sorted(C.covered) + [
        "commutator", "anticommutator", "matrix_power", "matrix_exponentiation", "singular_value_decomposition", "schmidt_decomposition",
        "pauli_basis", "comp_basis_to_pauli", "pauli_to_comp_basis", "random_clifford (group property, reproducibility)", "hadamard_transform",
        "partial_trace / partial_transpose (exact, bookkeeping stream)", "hamming_weight / hamming_distance / total_variation_distance (exact, classical stream)",
        "shannon_entropy / classical_relative_entropy / classical_renyi_entropy / classical_relative_renyi_entropy / classical_tsallis_entropy / "
        "hellinger_distance / hellinger_fidelity (formulas stream)", "process_fidelity / process_infidelity / average_gate_fidelity / gate_error / "
        "entanglement_fidelity / haar_integral (dimension probes)"]
    return C
