"""C14 helper: isolation of execution results ("every execution result stands alone"), gap family B
(input non-mutation, output stability, purity of accessors) and A (history vs fresh).

xhist  (model-tied, exact): histories on ONE circuit object whose first gates hit every branch of
       NumpyBackend.apply_gate (plain, controlled with leading / trailing / unordered controls, fused,
       no gate at all) on exact Gaussian-integer data, with every kind of user-supplied initial state
       (complex128 / complex64 / float64 arrays, non-contiguous views, read-only arrays, lists, the
       array returned by an earlier result's state(), the SAME user array executed twice, default).
       Operations: executions, samples / frequencies / probabilities (all flags), the post-hoc
       apply_bitflips accessor (all argument forms), expectation_from_samples, state / state(numpy) /
       symbolic / to_dict / dump+load, circuit.final_state.  After EVERY operation (a) every user input
       is compared with its deep snapshot, (b) what every result object holds is compared with the heap
       of the Coq machine C14/ModelIso.v after the same step (xtrace), every output with the model's
       output, the outputs of every result with the model's run on a machine holding that result alone
       (theorem result_function_of_own_execution), and the implementation's outputs are judged by the Coq
       specification (one admissible list of shots per result, own execution's input).
diff   (differential, float data): every execution mode (state vector, density matrix, shot-by-shot
       with collapse, noisy trajectories, density matrix with channels / collapse, the three parallel
       helpers) x first-gate branch x input kind; every operation is preceded by a re-seed, so each
       result's outputs must be bit-for-bit those of a SOLO replica (fresh circuit object, fresh copy of
       the input snapshot, only this result's calls); ledgers of all results re-read after every
       operation; inputs compared with their snapshots; finally the user's input arrays are scribbled on.
retw   (returned objects): the caller writes into every object an accessor returned; results must not
       change (known leaks of the unchanged tree are filed under exact per-accessor keys).
"""
import collections
import copy
import os
import warnings
import random
import tempfile

import numpy as np

from harness import c03
from harness.c03 import (HistoryRun, b2s, bits_list, bits_lit, counter_lit, dyadic_state, exact_ints, nat_list,
                         nat_list_list, ordered_sublist, out_term, random_registers, z_list)

HEADER = c03.HEADER + "From QV Require Import C14.ModelIso C14.CheckIso.\n"

def eval_cases(run, name, exprs, chunk=40):
    from concurrent.futures import ThreadPoolExecutor
    jobs = [(f"{name}_{i // chunk}.v", exprs[i:i + chunk]) for i in range(0, len(exprs), chunk)]
    if not jobs:
        return []
    with ThreadPoolExecutor(max_workers=8) as ex:
        outs = list(ex.map(lambda jb: run.coq_eval(jb[0], HEADER, jb[1], timeout=900), jobs))
    vals = []
    for v in outs:
        if v is None:
            return None
        vals += v
    return vals


# ------------------------------------------------------------------ snapshots
def snap(obj):
    """deep structural snapshot of a user-supplied object (numpy buffers included)"""
    if isinstance(obj, np.ndarray):
        base = obj.base if isinstance(obj.base, np.ndarray) else None
        return ("nd", obj.dtype.str, obj.shape, obj.strides, obj.tobytes(), bool(obj.flags.writeable),
                None if base is None else (base.dtype.str, base.shape, base.tobytes()))
    if isinstance(obj, (list, tuple)):
        return (type(obj).__name__, tuple(snap(x) for x in obj))
    if isinstance(obj, dict):
        return ("dict", tuple(sorted((repr(k), snap(v)) for k, v in obj.items())))
    return ("atom", repr(obj))


def canon(v):
    """canonical, hashable form of anything an accessor returns (bit-for-bit for arrays)"""
    if isinstance(v, np.ndarray):
        return ("nd", v.dtype.str, v.shape, np.ascontiguousarray(v).tobytes())
    if isinstance(v, (collections.Counter, dict)):
        return ("map", tuple(sorted(((repr(k), canon(x)) for k, x in v.items()))))
    if isinstance(v, (list, tuple)):
        return ("seq", tuple(canon(x) for x in v))
    if isinstance(v, (float, np.floating)):
        return ("f", float(v).hex())
    if isinstance(v, (complex, np.complexfloating)):
        return ("c", complex(v).real.hex(), complex(v).imag.hex())
    return ("atom", repr(v))


def short(v, lim=160):
    s = repr(v.tolist() if isinstance(v, np.ndarray) else v)
    return s if len(s) <= lim else s[:lim] + "..."


# ------------------------------------------------------------------ exact gates (Gaussian integers)
_SW = [[1, 0, 0, 0], [0, 0, 1, 0], [0, 1, 0, 0], [0, 0, 0, 1]]
EXACT = {"X": [[0, 1], [1, 0]], "Y": [[0, -1j], [1j, 0]], "Z": [[1, 0], [0, -1]], "S": [[1, 0], [0, 1j]], "SWAP": _SW}


def exact_apply(n, spec, amp):
    name, targets, controls = spec
    M, t = EXACT[name], len(targets)
    out = [0] * 2 ** n
    for x in range(2 ** n):
        if amp[x] == 0:
            continue
        bits = [(x >> (n - 1 - q)) & 1 for q in range(n)]
        if not all(bits[c] for c in controls):
            out[x] += amp[x]
            continue
        col = int("".join(str(bits[q]) for q in targets), 2)
        for row in range(2 ** t):
            m = M[row][col]
            if m == 0:
                continue
            nb = list(bits)
            for k, q in enumerate(targets):
                nb[q] = (row >> (t - 1 - k)) & 1
            out[int("".join(map(str, nb)), 2)] += m * amp[x]
    return out


def make_gate(spec):
    from qibo import gates
    name, targets, controls = spec
    g = getattr(gates, name)(*targets)
    return g.controlled_by(*controls) if controls else g


FIRST_KINDS = ["none", "plain1", "plain2", "ctrl_lead", "ctrl_lead2", "ctrl_trail", "ctrl_unordered", "fused"]


def first_gate_specs(rng, n, kind):
    """exact gate specs whose FIRST member takes the wanted branch of apply_gate"""
    qs = list(range(n))
    if kind == "none" or n == 1 and kind not in ("plain1",):
        return [] if kind == "none" else [(rng.choice("XYZS"), [0], [])]
    if kind == "plain1":
        return [(rng.choice("XYZS"), [rng.randrange(n)], [])]
    if kind == "plain2":
        a, b = rng.sample(qs, 2)
        return [rng.choice([("SWAP", [a, b], []), ("X", [b], [a]), ("Z", [b], [a])])]   # SWAP / CNOT / CZ
    if kind in ("ctrl_lead", "ctrl_lead2"):
        k = 1 if kind == "ctrl_lead" or n < 3 else 2
        rest = qs[k:]
        if len(rest) >= 2 and rng.random() < 0.3:
            return [("SWAP", rng.sample(rest, 2), list(range(k)))]
        return [(rng.choice("YS"), [rng.choice(rest)], list(range(k)))]
    if kind == "ctrl_trail":
        k = rng.randint(1, max(1, n - 2)) if n > 2 else 1
        return [(rng.choice("YS"), [rng.choice(qs[: n - k])], qs[n - k:])]
    if kind == "ctrl_unordered":
        if n < 3:
            return [(rng.choice("YS"), [0], [1])]
        c = rng.sample(qs, 2)
        if c == sorted(c):
            c.reverse()
        return [(rng.choice("YS"), [q for q in qs if q not in c][:1], c)]
    if kind == "fused":
        a, b = rng.sample(qs, 2)
        return [(rng.choice("XYZS"), [a], []), (rng.choice("YS"), [b], [a]), (rng.choice("XYZS"), [b], [])]
    raise ValueError(kind)


def random_exact_specs(rng, n, count):
    out = []
    for _ in range(count):
        qs = rng.sample(range(n), rng.randint(1, min(n, 3)))
        if len(qs) == 1:
            out.append((rng.choice("XYZS"), qs, []))
        elif len(qs) == 2 and rng.random() < 0.3:
            out.append(("SWAP", qs, []))
        else:
            out.append((rng.choice("XYZS"), qs[:1], qs[1:]))
    return out


SV_INPUT_KINDS = ["c128", "c128", "same_array", "c64", "f64", "view", "readonly", "list", "prev_state", "default"]


def make_sv_input(kind, ints, j):
    """(object handed to the circuit, amplitudes it denotes).  f64 keeps only real parts (the caller
    supplies real data for it)."""
    psi = np.array(ints, dtype=np.complex128) / 2 ** j
    if kind == "c64":
        return psi.astype(np.complex64), None
    if kind == "f64":
        return np.ascontiguousarray(psi.real), None
    if kind == "view":
        big = np.zeros(2 * len(ints), dtype=np.complex128)
        big[1::2] = 7.0
        big[::2] = psi
        return big[::2], None
    if kind == "readonly":
        psi.flags.writeable = False
        return psi, None
    if kind == "list":
        return psi.tolist(), None
    return psi, None


# ------------------------------------------------------------------ xhist: model-tied extended histories
class Spy:
    """duck-typed observable: records what expectation_from_samples hands to the Hamiltonian"""

    def __init__(self):
        self.freq, self.qubit_map = None, None

    def expectation_from_samples(self, freq, qubit_map=None):
        self.freq, self.qubit_map = collections.Counter(freq), qubit_map
        tot = sum(freq.values())
        return sum((-1) ** k.count("1") * v for k, v in freq.items()) / tot


class StopHistory(Exception):
    pass


class IsoRun(HistoryRun):
    def __init__(self, be, n, regs, specs, first_kind):
        super().__init__(be, n, regs)
        from qibo import Circuit, gates
        c = Circuit(n)
        for s in specs:
            c.add(make_gate(s))
        if first_kind == "fused":
            c = c.fuse()
        for reg in regs:
            c.add(gates.M(*reg))
        self.circuit, self.specs, self.first_kind = c, specs, first_kind
        self.inputs = []          # {"obj", "snap", "ints", "j", "kind"}
        self.execs = []           # (w, nshots) per result
        self.jexp = []            # j per result
        self.trace = []           # Coq literal of the heap after every op
        self.skip_out = set()     # op indices whose output the model cannot predict (fractional flips)
        self.Q = [q for reg in regs for q in reg]
        self.first_strings = {}
        self.finals = []

    # -- inputs
    def check_inputs(self, where):
        for k, inp in enumerate(self.inputs):
            if inp.get("reported"):
                continue
            now = snap(inp["obj"])
            if now != inp["snap"]:
                inp["reported"] = True
                self.problems.append((f"input_mutated:{inp['kind']}:first_gate={self.first_kind}",
                                      f"the initial state supplied by the caller (input #{k}, {inp['kind']}) was changed by {where}: "
                                      f"now {short(inp['obj'])}"))

    def expected_final(self, ints):
        amp = [complex(a) for a in ints]
        for s in self.specs:
            amp = exact_apply(self.n, s, amp)
        return amp

    def execute_kind(self, rng, kind, ints, j, nshots):
        if kind == "same_array" and not any(i["kind"] in ("c128", "same_array") for i in self.inputs):
            kind = "c128"
        if kind == "prev_state" and not self.results:
            kind = "c128"
        if kind == "f64":
            ints = [int(complex(a).real) if complex(a).imag == 0 else int(complex(a).imag) for a in ints]
        if kind == "default":
            ints, j = [1] + [0] * (2 ** self.n - 1), 0
            obj = None
        elif kind == "same_array":
            inp = rng.choice([i for i in self.inputs if i["kind"] in ("c128", "same_array")])
            obj, ints, j = inp["obj"], inp["ints"], inp["j"]
        elif kind == "prev_state":
            k = rng.randrange(len(self.results))
            obj = self.results[k].state()
            ints, j = self.finals[k], self.jexp[k]
        else:
            obj, _ = make_sv_input(kind, ints, j)
        if obj is not None and kind != "same_array":
            self.inputs.append({"obj": obj, "snap": snap(obj), "ints": list(ints), "j": j, "kind": kind})
        try:
            if obj is None:
                r = self.circuit(nshots=nshots)
            else:
                r = self.circuit(initial_state=obj, nshots=nshots)
        except Exception as e:  # noqa
            self.problems.append((f"execution_raised:{kind}:first_gate={self.first_kind}",
                                  f"executing the circuit on a valid initial state (input kind {kind}) raised {e!r}"[:300]))
            self.log.append({"op": "exec", "input": kind, "state_times_2^j": [str(a) for a in ints], "j": j, "nshots": nshots, "raised": repr(e)[:200]})
            self.check_inputs("the execution")
            raise StopHistory()
        fin = self.expected_final(ints)
        st = np.asarray(r.state())
        try:
            got = exact_ints(np.concatenate([st.real, st.imag]), 2 ** j)
            dim = 2 ** self.n
            got = [complex(got[i], got[dim + i]) for i in range(dim)]
        except AssertionError:
            got = None
        if got != [complex(a) for a in fin]:
            self.problems.append((f"state:{kind}:first_gate={self.first_kind}",
                                  f"result.state() of execution #{len(self.results)} is not the circuit applied to the supplied initial state "
                                  f"(input kind {kind}): got {short(st)}, expected {[str(a) for a in fin]} / 2^{j}"))
        w = [int(abs(complex(a)) ** 2) for a in fin]
        self.finals.append(fin)
        self.results.append(r)
        self.scales.append(4 ** j)
        self.jexp.append(j)
        self.execs.append((w, nshots))
        self.ops_coq.append(f"Exec {z_list(w)} {nshots}%nat")
        self.outs_coq.append("ODone")
        self.log.append({"op": "exec", "input": kind, "state_times_2^j": [str(a) for a in ints], "j": j, "nshots": nshots})
        self.after("the execution")

    # -- heap peek
    def peek_record(self, k):
        r = self.results[k]
        sc = 4 ** self.jexp[k]
        st = np.asarray(r._state)
        w = exact_ints(st.real ** 2 + st.imag ** 2, sc)
        probs = exact_ints(r._probs, sc)
        s = "None" if r._samples is None else "Some " + bits_list(np.asarray(r._samples).tolist())
        f = "None" if r._frequencies is None else "Some " + counter_lit(r._frequencies)
        return f"mkr {z_list(w)} {int(r.nshots)}%nat {z_list(probs)} ({s}) ({f})"

    def after(self, where):
        self.check_inputs(where)
        recs = []
        for k in range(len(self.results)):
            try:
                recs.append(self.peek_record(k))
            except Exception as e:  # noqa
                self.problems.append(("heap_unreadable", f"what result #{k} holds after {where} is not exact data any more: {e!r}"[:300]))
                recs.append("mkr [] 0%nat [] None None")
        self.trace.append("[" + "; ".join(recs) + "]" if recs else "(@nil result)")

    # -- operations
    def accessor(self, kind, r, binary=True, registers=False, qubits=None):
        v = super().accessor(kind, r, binary, registers, qubits)
        self.after(f"results[{r}].{kind}()")
        return v

    def final(self):
        super().final()
        self.after("circuit.final_state")

    def _draw_of(self, ev, what):
        draw = []
        for (k, v, _p) in ev:
            if k in ("shots", "shuffle") and not draw:
                draw = v
            else:
                self.problems.append(("oracle", f"unexpected draw {k} during {what}"))
        return draw

    def bitflips(self, rng, r):
        res = self.results[r]
        Q = self.Q
        deterministic = rng.random() < 0.75
        if deterministic:
            m0 = [rng.randint(0, 1) for _ in Q]
            m1 = [rng.randint(0, 1) for _ in Q] if rng.random() < 0.6 else None
        else:
            m0 = [rng.choice([0.0, 0.25, 0.5, 1.0]) for _ in Q]
            m1 = [rng.choice([0.0, 0.5, 1.0]) for _ in Q] if rng.random() < 0.5 else None
            if all(x in (0.0, 1.0) for x in m0 + (m1 or [])):
                m0[0] = 0.5

        def form(m):
            t = rng.random()
            if len(set(m)) == 1 and t < 0.4:
                return float(m[0])
            if t < 0.7:
                return {q: float(x) for q, x in zip(Q, m) if x or rng.random() < 0.5}
            return [float(x) for x in m] if t < 0.85 else tuple(float(x) for x in m)
        p0 = form(m0)
        p1 = None if m1 is None else form(m1)
        with self.rec.active():
            try:
                val = res.apply_bitflips(p0) if p1 is None else res.apply_bitflips(p0, p1)
            except Exception as e:  # noqa
                val = e
        draw = self._draw_of(self.rec.take(), "apply_bitflips")
        entry = {"op": "apply_bitflips", "result": r, "p0": repr(p0), "p1": repr(p1)}
        if draw:
            entry["drawn"] = draw
        e1 = m0 if m1 is None else m1
        self.ops_coq.append(f"XBitflips {r}%nat {nat_list(draw)} {bits_lit([int(x == 1) for x in m0])} {bits_lit([int(x == 1) for x in e1])}")
        if isinstance(val, Exception):
            entry["raised"] = repr(val)[:200]
            self.outs_coq.append("XO (OErr 100%nat)")
        else:
            arr = np.asarray(val)
            entry["returned"] = arr.tolist()
            self.outs_coq.append("XFlipped " + bits_list(arr.tolist()))
            if not deterministic:
                self.skip_out.add(len(self.ops_coq) - 1)
                # support check: a column with p0 = 0 never gains a 1, with p1 = 0 never loses one
                base = np.asarray(res._samples) if res._samples is not None else None
                if base is not None and base.shape == arr.shape:
                    for cidx in range(len(Q)):
                        gained = np.any((base[:, cidx] == 0) & (arr[:, cidx] == 1))
                        lost = np.any((base[:, cidx] == 1) & (arr[:, cidx] == 0))
                        if (gained and m0[cidx] == 0) or (lost and e1[cidx] == 0) or \
                           (m0[cidx] == 1 and np.any((base[:, cidx] == 0) & (arr[:, cidx] == 0))) or \
                           (e1[cidx] == 1 and np.any((base[:, cidx] == 1) & (arr[:, cidx] == 1))):
                            self.problems.append(("bitflips_support", f"apply_bitflips({p0!r}, {p1!r}) flipped column {cidx} against its probabilities"))
                else:
                    self.problems.append(("bitflips_shape", "apply_bitflips returned an array of another shape than the samples"))
        self.log.append(entry)
        self.after(f"results[{r}].apply_bitflips({p0!r}, {p1!r})")

    def expectation(self, r):
        res = self.results[r]
        spy = Spy()
        with self.rec.active():
            try:
                val = res.expectation_from_samples(spy)
            except Exception as e:  # noqa
                val = e
        ev = self.rec.take()
        fdraw = {}
        for (k, v, _p) in ev:
            if k == "freqs" and not fdraw:
                fdraw = v
            else:
                self.problems.append(("oracle", f"unexpected draw {k} during expectation_from_samples"))
        entry = {"op": "expectation_from_samples", "result": r}
        if fdraw:
            entry["drawn_frequencies"] = dict(sorted(fdraw.items()))
        self.ops_coq.append(f"Freqs {r}%nat true false {counter_lit(fdraw)}")
        if isinstance(val, Exception) or spy.freq is None:
            entry["raised"] = repr(val)[:200]
            self.outs_coq.append("OErr 100%nat")
        else:
            if list(spy.qubit_map) != list(self.Q):
                self.problems.append(("expectation_qubit_map", f"expectation_from_samples passed qubit_map {spy.qubit_map} instead of the measured qubits {self.Q}"))
            self.outs_coq.append(out_term("freqs", True, False, spy.freq, self.circuit.measurements))
        self.log.append(entry)
        self.after(f"results[{r}].expectation_from_samples")

    def peek(self, rng, r):
        res = self.results[r]
        how = rng.choice(["state", "state_numpy", "symbolic", "str", "to_dict", "dump_load"])
        entry = {"op": "peek", "how": how, "result": r}
        fin = [complex(a) / 2 ** self.jexp[r] for a in self.finals[r]]
        try:
            if how in ("state", "state_numpy"):
                v = res.state(numpy=(how == "state_numpy"))
                if not np.array_equal(np.asarray(v), np.array(fin)):
                    self.problems.append((f"peek:{how}", f"results[{r}].state() is not the state of its own execution any more: {short(v)}"))
            elif how in ("symbolic", "str"):
                v = res.symbolic() if how == "symbolic" else str(res)
                first = self.first_strings.setdefault(r, v)
                if v != first:
                    self.problems.append((f"peek:{how}", f"results[{r}].symbolic() changed from {first!r} to {v!r}"))
            else:
                if how == "to_dict":
                    d = res.to_dict()
                else:
                    fd, path = tempfile.mkstemp(suffix=".npy", prefix="c14iso_")
                    os.close(fd)
                    try:
                        res.dump(path)
                        with warnings.catch_warnings():
                            warnings.simplefilter("ignore")
                            d = type(res).load(path).to_dict()
                    finally:
                        os.unlink(path)
                if not np.array_equal(np.asarray(d["state"]), np.array(fin)):
                    self.problems.append((f"peek:{how}", f"{how} of results[{r}]: state differs from the state of its own execution"))
                own = res._samples
                if how == "to_dict" and not ((d["samples"] is None and own is None) or
                                             (d["samples"] is not None and own is not None and np.array_equal(d["samples"], own))):
                    self.problems.append((f"peek:{how}", f"to_dict of results[{r}]: samples differ from the samples it holds"))
                if d["nshots"] != self.execs[r][1]:
                    self.problems.append((f"peek:{how}", f"{how} of results[{r}]: nshots {d['nshots']} instead of {self.execs[r][1]}"))
        except Exception as e:  # noqa
            entry["raised"] = repr(e)[:200]
            self.problems.append((f"peek:{how}:raised", f"results[{r}] {how} raised {e!r}"[:300]))
        self.ops_coq.append(f"XPeek {r}%nat")
        try:
            self.outs_coq.append(f"XAbs ({self.peek_record(r)})")
        except Exception:  # noqa
            self.outs_coq.append("XO (OErr 100%nat)")
        self.log.append(entry)
        self.after(f"results[{r}] {how}")

    def coq_case(self):
        cfg = f"(mkcfg {self.n}%nat {nat_list_list(self.regs)})"
        ops = [o if o.startswith("X") else f"XBase ({o})" for o in self.ops_coq]
        outs = [o if o.startswith("X") else f"XO ({o})" for o in self.outs_coq]
        h = "[" + ";\n   ".join(ops) + "]"
        impl = "[" + ";\n   ".join(outs) + "]"
        cands = "[" + "; ".join("None" if c is None else f"Some {nat_list(c)}" for c in self.candidates()) + "]"
        tr = "[" + ";\n   ".join(self.trace) + "]"
        solo = "[" + "; ".join(f"xsolo_ok cfg h impl {k}%nat {z_list(w)} {ns}%nat" for k, (w, ns) in enumerate(self.execs)) + "]"
        hc = "[" + "; ".join(self.handle_checks) + "]" if self.handle_checks else "(@nil bool)"
        # the specification cannot judge the output of a fractional bit-flip map: for the verdicts these
        # calls are replaced by a peek on the same result (their effect on the heap is still in xtrace)
        ops_s, outs_s = list(ops), list(outs)
        for o in self.skip_out:
            k = int(self.ops_coq[o].split()[1].replace("%nat", ""))
            ops_s[o] = f"XPeek {k}%nat"
            outs_s[o] = f"XAbs (mkr {z_list(self.execs[k][0])} 0%nat [] None None)"
        hs = "[" + ";\n   ".join(ops_s) + "]"
        impls = "[" + ";\n   ".join(outs_s) + "]"
        return (f"(let cfg := {cfg} in let h := {h} in let impl := {impl} in\n"
                f"  (xcheck_history cfg h impl, xtrace_ok cfg h {tr}, xspec_verdicts cfg {hs} {impls} {cands}, {solo}, {hc}))")


def parse_xcase(val):
    import re
    groups = re.findall(r"\[([^\[\]]*)\]|nil", val)
    lists = [[t == "true" for t in re.findall(r"true|false", g)] for g in groups]
    return lists if len(lists) == 5 else None


def one_xhist(run, be, i):
    rng = random.Random(f"{run.seed}:xhist:{i}")
    first_kind = FIRST_KINDS[i % len(FIRST_KINDS)]
    n = rng.randint(3 if first_kind in ("ctrl_lead2",) else 2, 3)
    specs = first_gate_specs(rng, n, first_kind)
    # m9-like chains need the controlled gate to be the ONLY gate sometimes (the result then holds a view)
    if first_kind != "none" and rng.random() < 0.5:
        specs = specs + random_exact_specs(rng, n, rng.randint(1, 2))
    regs = random_registers(rng, n)
    hr = IsoRun(be, n, regs, specs, first_kind)
    hr.gates_text = [f"{s[0]}({','.join(map(str, s[1]))})" + (f".controlled_by({','.join(map(str, s[2]))})" if s[2] else "") for s in specs]
    be.set_seed(rng.randrange(2 ** 31))
    nexec = rng.randint(1, 3)
    nops = rng.randint(nexec + 2, 11)
    pos = sorted([0] + rng.sample(range(1, nops), nexec - 1))
    kinds = [SV_INPUT_KINDS[(i // len(FIRST_KINDS) + e) % len(SV_INPUT_KINDS)] for e in range(nexec)]
    if nexec >= 2 and i % 3 == 0:
        kinds[0], kinds[1] = "c128", "same_array"       # the same user array executed twice
    made = 0
    for t in range(nops):
        if t in pos:
            ints, j = dyadic_state(rng, n, deterministic=(rng.random() < 0.2))
            try:
                hr.execute_kind(rng, kinds[made], ints, j, rng.randint(1, 7))
            except StopHistory:
                break
            made += 1
            continue
        r = rng.randrange(made)
        u = rng.random()
        if u < 0.22:
            hr.bitflips(rng, r)
        elif u < 0.32:
            hr.expectation(r)
        elif u < 0.47:
            hr.peek(rng, r)
        elif u < 0.52:
            hr.final()
        else:
            c03.random_accessor(rng, hr, r, n)
    return hr


def part_xhist(run, be, count, only=None):
    exprs, hrs = [], []
    for i in (range(count) if only is None else only):
        try:
            hr = one_xhist(run, be, i)
            expr = hr.coq_case()
        except Exception as e:  # noqa
            import traceback
            run.case({"xhist": i, "raised": True}, False)
            run.find("xhist:raised", "executing an extended history (executions, accessors, apply_bitflips, peeks) raised: " + repr(e)[:200],
                     {"part": "xhist", "case": i, "raised": repr(e)[:300], "traceback": traceback.format_exc()[-800:]})
            continue
        hr.case_index = i
        hrs.append(hr)
        exprs.append(expr)
        kinds = {e["op"] for e in hr.log}
        run.case({"xhist": hr.log, "regs": hr.regs, "gates": hr.gates_text}, len(hr.results) >= 2 or len(kinds) >= 4)
        if i < 2:
            run.sample({"part": "xhist", "n": hr.n, "gates": hr.gates_text, "registers": hr.regs, "history": hr.log})
    vals = eval_cases(run, "xhist", exprs, chunk=40)
    if vals is None:
        run.oblige("correspondence:extended_histories_heap_trace", False, "correspondence")
        run.find("xhist:coq-failed", "generated extended-history file did not compile", {}, concrete=False)
        return
    ok_all = not any(f.key == "xhist:raised" for f in run.findings)
    for hr, v in zip(hrs, vals):
        i = hr.case_index
        info = {"part": "xhist", "case": i, "n": hr.n, "first_gate": hr.first_kind, "gates": hr.gates_text, "registers": hr.regs, "history": hr.log}
        p = parse_xcase(v)
        if p is None:
            ok_all = False
            run.find("xhist:unparsable", "could not parse the Coq answer", info, concrete=False)
            continue
        chk, tr, spec, solo, handles = p
        for kind, what in hr.problems:
            ok_all = False
            run.find(f"iso:{kind}", what, info)
        if not chk[0]:
            ok_all = False
            run.find("iso:sampler_contract", "a drawn shot has zero probability / wrong count for the result's own execution", info)
        bad_out = [k - 2 for k, b in enumerate(chk) if k >= 2 and not b and (k - 2) not in hr.skip_out]
        bad_tr = [k - 1 for k, b in enumerate(tr) if k >= 1 and not b]
        bad_spec = [k for k, b in enumerate(spec) if not b]
        # fractional flips: the solo run cannot predict their output either
        bad_solo = [k for k, b in enumerate(solo) if not b
                    and not any(hr.ops_coq[o].startswith(f"XBitflips {k}%nat") for o in hr.skip_out)]
        if bad_tr:
            ok_all = False
            op = hr.log[bad_tr[0]] if bad_tr[0] < len(hr.log) else None
            name = (op or {}).get("op", "?")
            run.find(f"iso:accessor_not_pure:{name}",
                     f"after operation #{bad_tr[0]} ({name}) what the result objects hold differs from the model heap: an accessor / execution changed "
                     "the stored state, probabilities, samples or frequencies of a result (accessors_write_once)", dict(info, bad_steps=bad_tr))
        if bad_spec:
            ok_all = False
            run.find("iso:spec", f"outputs of result(s) {bad_spec} are not explained by one admissible list of shots of their own execution", dict(info, results=bad_spec))
        if bad_out and not bad_tr:
            ok_all = False
            run.find("iso:model_output", f"model output differs from the implementation at operation(s) {bad_out}", dict(info, ops=bad_out), concrete=bool(bad_spec))
        if bad_solo and not bad_tr and not bad_out:
            ok_all = False
            run.find("iso:not_function_of_own_execution", f"outputs of result(s) {bad_solo} differ from the same calls on a machine holding the result alone", dict(info, results=bad_solo))
        if len(chk) < 2 or not chk[1] or not tr[0]:
            ok_all = False
            run.find("xhist:length", "history / trace length mismatch", info, concrete=False)
        if not all(handles):
            ok_all = False
            run.find("iso:handle_frequencies", "MeasurementResult.frequencies() of a register is not the projection of the drawn global frequencies", info)
    run.oblige("correspondence:extended_histories_heap_trace", ok_all, "correspondence")


# ------------------------------------------------------------------ diff: every execution mode, solo replicas
MODES = ["sv", "dm", "collapse_sv", "noisy_sv", "dm_channel", "dm_collapse", "par_exec", "par_param", "par_circuits", "sv", "dm"]
DIFF_FIRST = ["none", "plain1", "plain2", "ctrl_lead", "ctrl_lead2", "ctrl_trail", "ctrl_unordered", "fused", "unitary", "channel", "collapse"]


def build_float_circuit(seed, n, mode, first, regs, noisy_m):
    """deterministic builder: the same arguments give an equal, completely fresh circuit object"""
    from qibo import Circuit, gates
    rng = random.Random(f"build:{seed}")
    dm = mode in ("dm", "dm_channel", "dm_collapse")
    c = Circuit(n, density_matrix=dm)
    qs = list(range(n))
    th = lambda: rng.uniform(0.2, 2.9)  # noqa

    def add_first():
        if first == "plain1":
            c.add(rng.choice([gates.H(rng.randrange(n)), gates.RY(rng.randrange(n), th()), gates.T(rng.randrange(n))]))
        elif first == "plain2":
            a, b = rng.sample(qs, 2)
            c.add(rng.choice([gates.CNOT(a, b), gates.SWAP(a, b), gates.CRX(a, b, th()), gates.fSim(a, b, th(), th())]))
        elif first in ("ctrl_lead", "ctrl_lead2"):
            k = 1 if first == "ctrl_lead" or n < 3 else 2
            c.add(rng.choice([gates.RY, gates.RX])(rng.choice(qs[k:]), th()).controlled_by(*range(k)))
        elif first == "ctrl_trail":
            c.add(gates.RY(0, th()).controlled_by(*qs[max(1, n - 2):]))
        elif first == "ctrl_unordered":
            ctr = [n - 1, 0] if n >= 3 else [1]
            c.add(gates.H([q for q in qs if q not in ctr][0]).controlled_by(*ctr))
        elif first == "fused":
            a, b = rng.sample(qs, 2)
            c.add(gates.H(a))
            c.add(gates.RY(b, th()).controlled_by(a))
            c.add(gates.RZ(b, th()))
        elif first == "unitary":
            from scipy.stats import unitary_group
            a, b = rng.sample(qs, 2)
            c.add(gates.Unitary(unitary_group.rvs(4, random_state=rng.randrange(2 ** 31)), a, b))
        elif first == "channel":
            c.add(gates.PauliNoiseChannel(rng.randrange(n), [("X", 0.2), ("Z", 0.3)]))
        elif first == "collapse":
            c.add(gates.M(*rng.sample(qs, rng.randint(1, 2)), collapse=True))
    add_first()
    for _ in range(rng.randint(0, 2) if first != "none" else 0):
        a, b = rng.sample(qs, 2)
        c.add(rng.choice([gates.H(a), gates.RX(a, th()), gates.CZ(a, b), gates.RY(b, th()).controlled_by(a)]))
    if first == "fused":
        c = c.fuse()
    if mode in ("collapse_sv", "dm_collapse") and first != "collapse":
        c.add(gates.M(rng.randrange(n), collapse=True))
        c.add(gates.H(rng.randrange(n)))
    if mode in ("noisy_sv", "dm_channel") and first != "channel":
        c.add(gates.PauliNoiseChannel(rng.randrange(n), [("Y", 0.25)]))
    for reg in regs:
        if noisy_m:
            c.add(gates.M(*reg, p0={q: 0.25 for q in reg}))
        else:
            c.add(gates.M(*reg))
    return c


def float_input(rng, n, dm, kind):
    dim = 2 ** n
    r = np.random.default_rng(rng.randrange(2 ** 31))
    if kind in ("c64", "f64"):
        # exactly normalised dyadic data: survives the change of precision / has no imaginary part
        def dy():
            ints, j = dyadic_state(rng, n)
            if kind == "f64":
                ints = [complex(a).real + complex(a).imag for a in ints]
            return np.array(ints, dtype=np.complex128) / 2 ** j
        v, u, wa, wb = dy(), dy(), 0.75, 0.25
    else:
        v = r.normal(size=dim) + 1j * r.normal(size=dim)
        v = v / np.linalg.norm(v)
        u = r.normal(size=dim) + 1j * r.normal(size=dim)
        u = u / np.linalg.norm(u)
        wa, wb = 0.7, 0.3
    if dm:
        a = wa * np.outer(v, v.conj()) + wb * np.outer(u, u.conj())
    else:
        a = v
    a = np.ascontiguousarray(a.astype(np.complex128))
    if kind == "c64":
        return a.astype(np.complex64)
    if kind == "f64":
        return np.ascontiguousarray(a.real)
    if kind == "view":
        if dm:
            big = np.zeros((dim, 2 * dim), dtype=np.complex128)
            big[:, ::2] = a
            return big[:, ::2]
        big = np.full(2 * dim, 3.0 + 0j)
        big[::2] = a
        return big[::2]
    if kind == "fortran" and dm:
        return np.asfortranarray(a)
    if kind == "readonly":
        a.flags.writeable = False
        return a
    if kind == "list":
        return a.tolist()
    return a


def rebuild_input(s):
    """a fresh object equal to the snapshot of a user input"""
    if s[0] == "nd":
        _, dt, shape, strides, raw, writeable, base = s
        a = np.frombuffer(raw, dtype=np.dtype(dt)).reshape(shape).copy()
        # same memory layout as the caller's object (einsum sums in memory order: another layout may round differently)
        item = np.dtype(dt).itemsize
        if strides != a.strides and all(st > 0 and st % item == 0 for st in strides):
            size = sum((n_ - 1) * st for n_, st in zip(shape, strides)) // item + 1
            buf = np.zeros(size, dtype=np.dtype(dt))
            v = np.lib.stride_tricks.as_strided(buf, shape=shape, strides=strides)
            v[...] = a
            return v
        return a
    if s[0] in ("list", "tuple"):
        return [rebuild_input(x) for x in s[1]]
    if s[0] == "atom":
        return eval(s[1], {"inf": float("inf"), "nan": float("nan")})  # python numbers only (complex / float reprs)
    raise ValueError(s[0])


def result_ops(rng, has_state, nmeas_regs, Q):
    """a random accessor call description"""
    u = rng.random()
    if u < 0.2:
        return ("samples", rng.random() < 0.5, rng.random() < 0.5)
    if u < 0.4:
        return ("freqs", rng.random() < 0.5, rng.random() < 0.5)
    if u < 0.5:
        return ("probs", tuple(rng.sample(Q, rng.randint(1, len(Q)))) if rng.random() < 0.6 else None)
    if u < 0.64:
        m = [rng.choice([0.0, 0.5, 1.0]) for _ in Q]
        p0 = rng.choice([0.3, {Q[0]: 1.0}, m, tuple(m), 1.0])
        p1 = rng.choice([None, None, 0.0, 0.6, {Q[-1]: 0.5}])
        return ("bitflips", repr(p0), repr(p1))
    if u < 0.7:
        return ("expectation",)
    if u < 0.78:
        return ("to_dict",)
    if u < 0.83:
        return ("dump",)
    if u < 0.9 and has_state:
        return ("state", rng.random() < 0.5)
    if u < 0.95 and has_state:
        return ("symbolic",)
    return ("handles", rng.randrange(nmeas_regs), rng.random() < 0.5)


def _plain_dict(d):
    """to_dict() without the library version and without the serialised caches of the circuit's
    measurement gates (`measurement_result`: the handles returned by circuit.add belong to the circuit
    and show its last sampled result by design)"""
    import json
    d = dict(d)
    d.pop("qibo", None)
    ms = []
    for m in d.get("measurements", []):
        j = json.loads(m)
        j.pop("measurement_result", None)
        ms.append(json.dumps(j, sort_keys=True))
    d["measurements"] = ms
    return d


def call(res, circuit, op):
    """perform one accessor call on a real result object; returns something canon() can digest"""
    k = op[0]
    if k == "samples":
        return res.samples(binary=op[1], registers=op[2])
    if k == "freqs":
        return res.frequencies(binary=op[1], registers=op[2])
    if k == "probs":
        return res.probabilities(None if op[1] is None else list(op[1]))
    if k == "bitflips":
        p0, p1 = eval(op[1]), eval(op[2])
        return res.apply_bitflips(p0) if p1 is None else res.apply_bitflips(p0, p1)
    if k == "expectation":
        spy = Spy()
        v = res.expectation_from_samples(spy)
        return [v, dict(spy.freq)]
    if k == "to_dict":
        d = _plain_dict(res.to_dict())
        if res.measurement_gate.has_bitflip_noise():
            # with readout noise on the measurement gates probabilities() is DEFINED as frequencies / nshots
            # and stores that in the slot to_dict() shows; the samples exist by then, nothing reads it again
            d.pop("probabilities", None)
        return d
    if k == "dump":
        fd, path = tempfile.mkstemp(suffix=".npy", prefix="c14iso_")
        os.close(fd)
        try:
            res.dump(path)
            with warnings.catch_warnings():
                warnings.simplefilter("ignore")
                d = _plain_dict(type(res).load(path).to_dict())
        finally:
            os.unlink(path)
        d.pop("probabilities", None)     # a reloaded result is rebuilt from its samples
        return d
    if k == "state":
        return res.state(numpy=op[1])
    if k == "symbolic":
        return res.symbolic()
    if k == "handles":
        # the handle returned by circuit.add: a view of the circuit's LAST sampled result by design;
        # only its effect on the results is checked, not its value
        h = circuit.measurements[op[1]].result
        try:
            (h.samples(binary=op[2]) if h.has_samples() else None)
            (h.frequencies(binary=op[2]) if (h._frequencies is not None or h.has_samples()) else None)
        except Exception as e:  # noqa
            return "raised " + type(e).__name__
        return "read"
    raise ValueError(k)


def ledger(res):
    """everything a result shows without drawing anything new (re-read after every operation)"""
    out = {}
    if hasattr(res, "_state"):
        out["state"] = canon(res.state())
        out["probabilities"] = canon(res.probabilities()) if not res.measurement_gate.has_bitflip_noise() or res._frequencies is not None or res._samples is not None else None
    if res._samples is not None:
        out["samples"] = canon(res.samples())
        out["samples_dec"] = canon(res.samples(binary=False))
    if res._frequencies is not None:
        out["frequencies"] = canon(res.frequencies(binary=False))
    if getattr(res, "_repeated_execution_frequencies", None) is not None:
        out["repeated_frequencies"] = canon(res.frequencies())
    out["nshots"] = res.nshots
    return out


def ledger_diff(a, b):
    return [k for k in a if k in b and a[k] is not None and b[k] is not None and a[k] != b[k]]


def circuit_snap(c):
    """structural snapshot of a circuit the caller handed to an execution helper"""
    return tuple((type(g).__name__, tuple(g.qubits), tuple(getattr(g, "control_qubits", ())), canon(list(g.parameters)) if hasattr(g, "parameters") else None,
                  id(g)) for g in c.queue) + (c.nqubits, bool(c.density_matrix), tuple(id(m) for m in c.measurements))


def run_solo(be, builder, insnap, nshots, exec_seed, calls, params=None):
    """fresh circuit object, fresh copy of the input, only this result's calls (each after its re-seed)"""
    c = builder()
    if params is not None:
        c.set_parameters(params)
    obj = None if insnap is None else rebuild_input(insnap)
    be.set_seed(exec_seed)
    with np.errstate(all="ignore"):
        r = c(nshots=nshots) if obj is None else c(initial_state=obj, nshots=nshots)
    outs = []
    for seed, op in calls:
        be.set_seed(seed)
        try:
            outs.append(canon(call(r, c, op)))
        except Exception as e:  # noqa
            outs.append(("raised", type(e).__name__))
    return r, outs


def diff_case(run, be, i):
    from qibo.parallel import parallel_circuits_execution, parallel_execution, parallel_parametrized_execution
    rng = random.Random(f"{run.seed}:diff:{i}")
    mode = MODES[i % len(MODES)]
    dm = mode in ("dm", "dm_channel", "dm_collapse")
    firsts = [f for f in DIFF_FIRST if not (f == "channel" and mode not in ("noisy_sv", "dm_channel"))
              and not (f == "collapse" and mode not in ("collapse_sv", "dm_collapse"))]
    first = firsts[(i // len(MODES)) % len(firsts)] if i < 3 * len(MODES) * len(firsts) else rng.choice(firsts)
    if mode.startswith("par") and first in ("channel", "collapse"):
        first = "ctrl_lead"
    if mode == "par_param" and first == "fused":      # a fused circuit refuses copy(deep=True)
        first = "ctrl_trail"
    n = rng.randint(3 if first == "ctrl_lead2" else 2, 3)
    regs = random_registers(rng, n)
    Q = [q for reg in regs for q in reg]
    noisy_m = rng.random() < 0.15 and mode in ("sv", "dm")
    bseed = rng.randrange(2 ** 31)
    builder = lambda: build_float_circuit(bseed, n, mode, first, regs, noisy_m)  # noqa
    circuit = builder()
    kinds = ["c128", "c128", "c64", "f64", "view", "readonly", "list", "default", "same_array", "prev_state"] + (["fortran"] if dm else [])
    info = {"part": "diff", "case": i, "mode": mode, "first_gate": first, "n": n, "registers": regs, "measurement_noise": noisy_m,
            "queue": [f"{g.__class__.__name__}{g.qubits}" for g in circuit.queue], "history": []}
    finds = []

    def fail(key, what):
        finds.append((key, what))

    inputs, results = [], []     # results: dict(res, insnap, nshots, exec_seed, calls, ledger, has_state)
    has_state = mode not in ("collapse_sv", "noisy_sv")

    def new_input():
        # the first execution mostly gets the kind the backend does not copy (writable contiguous complex128)
        kind = "c128" if not results and not inputs and rng.random() < 0.6 else rng.choice(kinds)
        if kind == "same_array" and not any(isinstance(x["obj"], np.ndarray) for x in inputs):
            kind = "c128"
        if kind == "prev_state" and not any(r["has_state"] for r in results):
            kind = "c128"
        if kind == "default":
            return None, kind
        if kind == "same_array":
            return rng.choice([x for x in inputs if isinstance(x["obj"], np.ndarray)])["obj"], kind
        if kind == "prev_state":
            return rng.choice([r for r in results if r["has_state"]])["res"].state(numpy=rng.random() < 0.3), kind
        return float_input(rng, n, dm, kind), kind

    csnap = {"snap": circuit_snap(circuit)}

    def check_all(where):
        if csnap["snap"] is not None and circuit_snap(circuit) != csnap["snap"]:
            csnap["snap"] = None
            fail(f"iso:circuit_mutated:{mode}", f"the circuit object handed to the execution (gates, parameters, measurement gates) was changed by {where}")
        for k, x in enumerate(inputs):
            if not x.get("reported") and snap(x["obj"]) != x["snap"]:
                x["reported"] = True
                fail(f"iso:input_mutated:{mode}:{x['kind']}:first_gate={first}", f"the initial state supplied by the caller (input #{k}, kind {x['kind']}) was changed by {where}")
        for k, r in enumerate(results):
            if r.get("broken"):
                continue
            try:
                now = ledger(r["res"])
            except Exception as e:  # noqa
                r["broken"] = True
                fail(f"iso:result_unreadable:{mode}", f"re-reading result #{k} after {where} raised {e!r}"[:300])
                continue
            d = ledger_diff(r["ledger"], now)
            if d:
                r["broken"] = True
                fail(f"iso:result_changed:{mode}:{'+'.join(d)}:after={where.split('(')[0].split(' ')[0]}",
                     f"{'/'.join(d)} of result #{k} changed after {where} (first gate {first})")
            else:
                r["ledger"].update({kk: v for kk, v in now.items() if r["ledger"].get(kk) is None})

    def register(res, obj, kind, nshots, exec_seed, insnap):
        # insnap: deep snapshot of the input taken BEFORE the execution
        if obj is not None and not any(x["obj"] is obj for x in inputs):
            inputs.append({"obj": obj, "snap": insnap, "kind": kind})
        results.append({"res": res, "insnap": insnap, "nshots": nshots, "exec_seed": exec_seed, "calls": [], "outs": [],
                        "ledger": ledger(res), "has_state": hasattr(res, "_state"), "kind": kind})

    def execute():
        nshots = rng.randint(1, 12)
        if mode == "par_exec":
            objs = [new_input() for _ in range(rng.randint(2, 3))]
            objs = [(o, k) if o is not None else (float_input(rng, n, dm, "c128"), "c128") for o, k in objs]
            if rng.random() < 0.5 and isinstance(objs[0][0], np.ndarray):
                objs.append((objs[0][0], "same_array"))
            procs = rng.randint(1, 3)
            info["history"].append({"op": "parallel_execution", "inputs": [k for _, k in objs], "processes": procs})
            snaps = [snap(o) for o, _ in objs]
            ress = parallel_execution(circuit, [o for o, _ in objs], processes=procs, backend=be)
            for (o, k), s, res in zip(objs, snaps, ress):
                register(res, o, k, 1000, 0, s)
            return "parallel_execution"
        if mode == "par_circuits":
            cs = [builder() for _ in range(rng.randint(2, 3))]
            objs = [new_input() for _ in cs]
            objs = [(o, k) if o is not None else (float_input(rng, n, dm, "c128"), "c128") for o, k in objs]
            procs = rng.randint(1, 3)
            info["history"].append({"op": "parallel_circuits_execution", "inputs": [k for _, k in objs], "processes": procs, "nshots": nshots})
            snaps = [snap(o) for o, _ in objs]
            ress = parallel_circuits_execution(cs, [o for o, _ in objs], nshots=nshots, processes=procs, backend=be)
            for (o, k), s, res in zip(objs, snaps, ress):
                register(res, o, k, nshots, 0, s)
            return "parallel_circuits_execution"
        if mode == "par_param":
            obj, kind = new_input()
            base = circuit.get_parameters()
            params = [[tuple(float(x) + 0.25 * t for x in p) if not isinstance(p[0], np.ndarray) else p for p in base] for t in range(rng.randint(2, 3))]
            procs = rng.randint(1, 3)
            info["history"].append({"op": "parallel_parametrized_execution", "input": kind, "processes": procs})
            s = None if obj is None else snap(obj)
            ress = parallel_parametrized_execution(circuit, params, initial_state=obj, processes=procs, backend=be)
            for res, pr in zip(ress, params):
                register(res, obj, kind, 1000, 0, s)
                results[-1]["params"] = pr
            return "parallel_parametrized_execution"
        obj, kind = new_input()
        exec_seed = rng.randrange(2 ** 31)
        info["history"].append({"op": "execute", "input": kind, "nshots": nshots, "seed": exec_seed})
        be.set_seed(exec_seed)
        s = None if obj is None else snap(obj)
        with np.errstate(all="ignore"):
            res = circuit(nshots=nshots) if obj is None else circuit(initial_state=obj, nshots=nshots)
        register(res, obj, kind, nshots, exec_seed, s)
        return "execute"

    try:
        where = execute()
        check_all(where)
        nops = rng.randint(4, 10)
        for t in range(nops):
            if finds:
                break
            if rng.random() < 0.25 and len(results) < 5:
                where = execute()
            else:
                k = rng.randrange(len(results))
                r = results[k]
                op = result_ops(rng, r["has_state"], len(regs), Q)
                seed = rng.randrange(2 ** 31)
                be.set_seed(seed)
                info["history"].append({"op": "accessor", "result": k, "call": list(map(str, op)), "seed": seed})
                try:
                    out = canon(call(r["res"], circuit, op))
                except Exception as e:  # noqa
                    out = ("raised", type(e).__name__)
                    info["history"][-1]["raised"] = repr(e)[:160]
                r["calls"].append((seed, op))
                r["outs"].append(out)
                where = f"{op[0]}() on result #{k}"
            check_all(where)
        # solo replicas: history vs fresh
        for k, r in enumerate(results):
            if finds:
                break
            solo, outs = run_solo(be, builder, r["insnap"], r["nshots"], r["exec_seed"], r["calls"], r.get("params"))
            fresh = ledger(solo)
            if hasattr(solo, "_state") and canon(solo.state()) != r["ledger"].get("state"):
                fail(f"iso:history_vs_fresh:{mode}:state:first_gate={first}:input={r['kind']}",
                     f"the state of result #{k} differs from the state of the same execution on a fresh circuit object with a fresh copy of the input as the caller supplied it")
            elif outs != r["outs"]:
                badc = [str(r["calls"][q][1][0]) for q in range(len(outs)) if outs[q] != r["outs"][q]]
                fail(f"iso:history_vs_fresh:{mode}:{badc[0]}",
                     f"accessor call(s) {badc} on result #{k} return other values than the same seeded calls on a solo replica (fresh circuit, fresh input copy, only this result's calls)")
            else:
                d = ledger_diff(r["ledger"], fresh)
                if d:
                    fail(f"iso:history_vs_fresh:{mode}:ledger:{'+'.join(d)}", f"{'/'.join(d)} held by result #{k} differ from the solo replica")
        # finally the caller reuses its buffers: results must not follow
        if not finds:
            for x in inputs:
                o = x["obj"]
                if isinstance(o, np.ndarray) and o.flags.writeable and x["kind"] != "prev_state" \
                        and not any(r["has_state"] and np.shares_memory(o, r["res"].state()) and r["kind"] == "prev_state" for r in results):
                    o[...] = 0
                    x["snap"] = snap(o)
            for k, r in enumerate(results):
                try:
                    d = ledger_diff(r["ledger"], ledger(r["res"]))
                except Exception as e:  # noqa
                    d = ["unreadable"]
                if d:
                    gate_free = "none" if first == "none" else first
                    fail(f"iso:result_aliases_input:{mode}:first_gate={gate_free}:{'+'.join(d)}",
                         f"{'/'.join(d)} of result #{k} changed when the caller overwrote the array it had passed as initial state (the result holds the caller's buffer)")
                    break
    except Exception as e:  # noqa
        import traceback
        fail(f"iso:raised:{mode}:first_gate={first}", f"executing / reading raised {e!r}"[:300] + " | " + traceback.format_exc()[-500:])
    return info, finds, len(results)


def part_diff(run, be, count, only=None):
    ok = True
    for i in (range(count) if only is None else only):
        info, finds, nres = diff_case(run, be, i)
        run.case({"diff": {k: v for k, v in info.items() if k != "history"}, "h": info["history"]}, nres >= 2)
        if i < 2:
            run.sample(info)
        for key, what in finds:
            ok = False
            run.find(key, what, info)
    # the unchanged tree hands the caller's array to the result of a gate-free circuit (known finding);
    # everything else must hold
    bad = [f for f in run.findings if f.key.startswith("iso:") and ":first_gate=" in f.key or f.key.startswith("iso:history_vs_fresh")
           or f.key.startswith("iso:result_changed") or f.key.startswith("iso:result_unreadable")]
    bad = [f for f in bad if not (f.key.startswith("iso:result_aliases_input:") and ":first_gate=none:" in f.key)]
    run.notes["results_holding_the_callers_buffer"] = sum(1 for f in run.findings if f.key.startswith("iso:result_aliases_input:"))
    run.oblige("test:results_equal_solo_replicas_inputs_unchanged_all_modes", not bad, "test")


# ------------------------------------------------------------------ retw: the caller writes into returned objects
def scribble(v):
    """write into every mutable object reachable from a returned value; True if something was written"""
    done = False
    if isinstance(v, np.ndarray):
        if v.flags.writeable and v.size:
            if v.dtype.kind in "iu":
                v[...] = 1 - v
            else:
                v[...] = v * 0 + 0.125
            done = True
    elif isinstance(v, collections.Counter) or isinstance(v, dict):
        for x in list(v.values()):
            done |= scribble(x)
        for k in list(v.keys()):
            if isinstance(v[k], (int, np.integer)):
                v[k] = int(v[k]) + 5
                done = True
        v["__scribble__"] = 1
        done = True
    elif isinstance(v, list):
        for x in v:
            done |= scribble(x)
    return done


RETW_CALLS = [("state", False), ("state", True), ("probs", None), ("samples", True, False), ("samples", False, False), ("samples", True, True),
              ("samples", False, True), ("freqs", True, False), ("freqs", False, False), ("freqs", True, True), ("freqs", False, True),
              ("bitflips", "1.0", "None"), ("to_dict",), ("expectation",)]


def part_retw(run, be):
    from qibo import Circuit, gates
    ok = True
    for mode in ("sv", "dm", "collapse_sv"):
        for prefill in ("samples", "freqs"):
            for op in RETW_CALLS:
                if op[0] == "state" and mode == "collapse_sv":
                    continue
                c = Circuit(2, density_matrix=(mode == "dm"))
                c.add(gates.H(0))
                c.add(gates.RY(1, 0.7).controlled_by(0))
                if mode == "collapse_sv":
                    c.add(gates.M(0, collapse=True))
                    c.add(gates.H(0))
                c.add(gates.M(1, register_name="a"))
                c.add(gates.M(0, register_name="b"))
                be.set_seed(11)
                r1 = c(nshots=6)
                r2 = c(nshots=6)
                for r in (r1, r2):
                    (r.samples() if prefill == "samples" else r.frequencies())
                    r.samples()
                    r.frequencies()
                l1, l2 = ledger(r1), ledger(r2)
                name = f"{type(r1).__name__}.{op[0]}({','.join(map(str, op[1:]))})"
                info = {"part": "retw", "mode": mode, "prefill": prefill, "call": list(map(str, op))}
                run.case({"retw": info}, True)
                try:
                    v = call(r1, c, op)
                    wrote = scribble(v)
                    d1, d2 = ledger_diff(l1, ledger(r1)), ledger_diff(l2, ledger(r2))
                except Exception as e:  # noqa
                    ok = False
                    run.find(f"iso:retw:raised:{name}", f"reading a result after writing into the object returned by {name} raised {e!r}"[:300], info)
                    continue
                if d2:
                    ok = False
                    run.find(f"iso:returned_object_shared_between_results:{name}:{'+'.join(d2)}",
                             f"writing into the object returned by r1.{name} changed {'/'.join(d2)} of ANOTHER result r2 of the same circuit", info)
                if d1:
                    ok = False
                    run.find(f"iso:returned_object_is_internal:{name}:{'+'.join(d1)}",
                             f"the object returned by {name} is the result's own storage: after the caller writes into it, {'/'.join(d1)} of the same result change", info)
    run.notes["returned_objects_probe"] = "every accessor x {sv, dm, shot-by-shot} x {samples first, frequencies first}: caller writes into the returned object"
    run.oblige("test:returned_objects_not_shared_between_results",
               not any(f.key.startswith("iso:returned_object_shared_between_results") or f.key.startswith("iso:retw:raised") for f in run.findings), "test")
    if ok:
        run.oblige("test:returned_objects_are_copies", True, "test")
    else:
        run.refuted.append("returned_objects_are_copies")


# ------------------------------------------------------------------ cliff: inputs and results of the Clifford backend
def part_cliff_inputs(run, be, count):
    """the Clifford backend accepts a symplectic matrix (tableau) as initial state: the caller's matrix must not be
    changed, a second execution on the SAME matrix must equal the execution on a fresh copy on a fresh circuit, and
    the tableau / generators of an earlier result must not move when the circuit runs again or the caller overwrites
    its matrix.  (Sampling views of several Clifford results of one circuit are the subject of part `clifford`.)"""
    from qibo import Circuit, gates
    from qibo.backends import CliffordBackend
    cb = CliffordBackend()
    ok = True
    for i in range(count):
        rng = random.Random(f"{run.seed}:cliffin:{i}")
        n = rng.randint(1, 3)

        def build(seed):
            r = random.Random(seed)
            c = Circuit(n)
            for _ in range(r.randint(0, 4)):
                a, b = (r.sample(range(n), 2) + [0])[:2] if n > 1 else (0, 0)
                c.add(r.choice([gates.H(a), gates.S(a), gates.X(a), gates.Y(a)] + ([gates.CNOT(a, b), gates.CZ(a, b), gates.SWAP(a, b)] if n > 1 else [])))
            return c
        pseed, cseed = rng.randrange(2 ** 31), rng.randrange(2 ** 31)
        info = {"part": "cliff_inputs", "case": i, "n": n}
        run.case({"cliff_inputs": info}, True)
        try:
            init = cb.execute_circuit(build(pseed)).symplectic_matrix
            kind = rng.choice(["own", "copy", "readonly"])
            if kind != "own":
                init = np.array(init, copy=True)
            if kind == "readonly":
                init.flags.writeable = False
            s0 = snap(init)

            def circ():
                c = build(cseed)
                c.add(gates.M(*range(n)))
                return c
            c = circ()
            r1 = cb.execute_circuit(c, initial_state=init, nshots=4)
            t1 = canon(np.asarray(r1.symplectic_matrix))
            g1 = canon(list(r1.generators(True)[0]) if hasattr(r1, "generators") else None)
            if snap(init) != s0:
                ok = False
                run.find("iso:input_mutated:clifford", "the symplectic matrix supplied as initial state was changed by the execution on the Clifford backend", info)
                continue
            r2 = cb.execute_circuit(c, initial_state=init, nshots=4)
            fresh = cb.execute_circuit(circ(), initial_state=np.array(rebuild_input(s0)), nshots=4)
            if canon(np.asarray(r2.symplectic_matrix)) != canon(np.asarray(fresh.symplectic_matrix)) or t1 != canon(np.asarray(fresh.symplectic_matrix)):
                ok = False
                run.find("iso:history_vs_fresh:clifford:state", "the tableau of an execution on the Clifford backend differs from the same execution on fresh objects", info)
            if init.flags.writeable and kind != "own":
                init[...] = 0
            if canon(np.asarray(r1.symplectic_matrix)) != t1 or canon(list(r1.generators(True)[0])) != g1:
                ok = False
                run.find("iso:result_changed:clifford:state", "the tableau / generators of an earlier Clifford result changed after the circuit ran again or the caller overwrote its input", info)
        except Exception as e:  # noqa
            ok = False
            run.find("iso:raised:clifford", f"executing on the Clifford backend with a tableau as initial state raised {e!r}"[:300], info)
    run.oblige("test:clifford_inputs_unchanged_results_stable", ok, "test")
