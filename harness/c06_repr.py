"""C06, matrix-valued parameters in every REPRESENTATION (family F of STRENGTHEN_GUIDE.md, crossed with A/B/E).

Circuits mixing Unitary (1 and 2 qubits), GeneralizedfSim, trainable RX, trainable=False RY / Unitary and fixed gates.
Every matrix is handed over -- at construction AND at each later update, independently -- as
      dtype   int64 | float32 | float64 | complex64 | complex128        (whichever holds the values exactly)
      layout  C order | Fortran order | transposed view | strided slice of a larger array | read-only
      container  ndarray | nested lists of Python numbers (updates)
and updated 1-3 times through  gate.parameters = ... | set_parameters(list) | (dict) | (flat list) | (flat array),
on the circuit itself or on a circuit derived from it (invert, copy(deep), copy, fuse; the history continues on the
inverse / deep copy, whose stored matrices are conj(U.T) views).  After every step, against the values that were set
(as complex numbers) and a circuit freshly built from complex128 C-ordered matrices:
  * read-back: gate.parameters, get_parameters("list" / "dict" / "flatlist" [row-major]), init_args / init_kwargs;
  * operator: unitary(), and invert() / copy(deep) / fuse() requested after the update;
  * flat round trip: set_parameters(get_parameters("flatlist")) changes nothing, also on the inverse of the result;
  * stored layout model: get_parameters("flatlist") of every stored matrix equals C06/Layout.flat_read of its
    (memory buffer, shape, order) evaluated in Coq (exact, integer data);
  * inputs not modified (values, dtype, flags), gates that are not trainable keep their values.
Values are Gaussian integers or halves, so every admissible dtype represents them exactly.
"""
import copy

import numpy as np

HEADER = ("From Coq Require Import List ZArith Bool.\nFrom QV Require Import C06.Layout.\nImport ListNotations.\n"
          "Local Open Scope Z_scope.\n")
TOL = 1e-12
DTYPES = {"int": ["i64", "f32", "f64", "c64", "c128"], "real": ["f32", "f64", "c64", "c128"], "complex": ["c64", "c128"]}
NP = {"i64": np.int64, "f32": np.float32, "f64": np.float64, "c64": np.complex64, "c128": np.complex128}
LAYOUTS = ["C", "F", "Tview", "strided", "readonly", "F_readonly", "nested"]
FORMATS = ["gate", "list", "dict", "flat_list", "flat_array"]
DERIVE = ["self", "self", "invert", "copy_deep", "copy", "fuse"]


# ------------------------------------------------------------------ values and representations
def rand_value(rng, dim, vclass):
    """matrix as nested list of [re, im] in units of 1/2 (JSON-able); vclass int / real / complex"""
    out = []
    for _ in range(dim):
        row = []
        for _ in range(dim):
            if vclass == "int":
                row.append([2 * rng.randint(-4, 4), 0])
            elif vclass == "real":
                row.append([rng.randint(-9, 9), 0])
            else:
                row.append([rng.randint(-9, 9), rng.randint(-9, 9)])
        out.append(row)
    # never symmetric / Hermitian by accident: a transposed read-back must show
    if out[0][1] == out[1][0]:
        out[0][1] = [out[0][1][0] + 2, out[0][1][1]]
    if vclass == "complex" and all(e[1] == 0 for r in out for e in r):
        out[1][0][1] = 3
    return out


def canon(val):
    return np.array([[complex(a / 2, b / 2) for a, b in row] for row in val], dtype=np.complex128)


def vclass_of(val):
    if any(e[1] for r in val for e in r):
        return "complex"
    if any(e[0] % 2 for r in val for e in r):
        return "real"
    return "int"


def pick_repr(rng, val, allow_nested):
    dt = rng.choice(DTYPES[vclass_of(val)])
    lay = rng.choice(LAYOUTS if allow_nested else LAYOUTS[:6])
    return [dt, lay]


def py_number(z, dt):
    if dt == "i64":
        return int(round(z.real))
    if dt in ("f32", "f64"):
        return float(z.real)
    return complex(z)


def materialise(val, rep):
    """the object handed to qibo"""
    dt, lay = rep
    A = canon(val)
    if lay == "nested":
        rows = [[py_number(z, dt) for z in row] for row in A]
        return rows
    base = (A.real if dt in ("i64", "f32", "f64") else A).astype(NP[dt])
    if lay == "C":
        out = np.ascontiguousarray(base)
    elif lay in ("F", "F_readonly"):
        out = np.asfortranarray(base)
    elif lay == "Tview":
        out = np.ascontiguousarray(base.T).T          # a transposed VIEW (not owning, Fortran strides)
    elif lay == "strided":
        big = np.zeros((2 * base.shape[0], 3 * base.shape[1]), dtype=base.dtype) + 7
        big[::2, 1::3] = base
        out = big[::2, 1::3]
    else:
        out = np.array(base, order="C")
    if lay in ("readonly", "F_readonly"):
        out.setflags(write=False)
    return out


def snapshot(obj):
    if isinstance(obj, np.ndarray):
        return ("nd", obj.dtype.str, obj.shape, obj.strides, bool(obj.flags.writeable), obj.tobytes(order="C"))
    return ("py", copy.deepcopy(obj))


def same_snapshot(obj, snap):
    return snapshot(obj) == snap


def as_complex(x):
    return np.asarray(x).astype(np.complex128)


# ------------------------------------------------------------------ cases
def make_case(rng, i):
    nq = rng.choice([2, 2, 3])
    gates_ = []
    nmat = 0
    want_gf = rng.random() < 0.25
    for _ in range(rng.randint(3, 6)):
        r = rng.random()
        if r < 0.45 or nmat == 0:
            k = 2 if (rng.random() < 0.3) else 1
            vcl = rng.choice(["int", "int", "real", "complex"])          # typical placeholders are integer / real matrices
            val = rand_value(rng, 2 ** k, vcl)
            gates_.append({"cls": "Unitary", "qubits": rng.sample(range(nq), k), "value": val, "rep": pick_repr(rng, val, False),
                           "trainable": rng.random() < 0.8 or nmat == 0})
            nmat += 1
        elif r < 0.55 and want_gf:
            val = rand_value(rng, 2, rng.choice(["int", "real", "complex"]))
            gates_.append({"cls": "GeneralizedfSim", "qubits": rng.sample(range(nq), 2), "value": val, "rep": pick_repr(rng, val, False),
                           "phi": rng.randint(-6, 6) / 4, "trainable": rng.random() < 0.8})
            want_gf = False
        elif r < 0.7:
            gates_.append({"cls": "RX", "qubits": [rng.randrange(nq)], "theta": float(rng.randint(-8, 8)), "trainable": True})
        elif r < 0.8:
            gates_.append({"cls": "RY", "qubits": [rng.randrange(nq)], "theta": rng.randint(-8, 8) / 4, "trainable": False})
        elif r < 0.9:
            gates_.append({"cls": "H", "qubits": [rng.randrange(nq)]})
        else:
            gates_.append({"cls": "CNOT", "qubits": rng.sample(range(nq), 2)})
    has_gf = any(g["cls"] == "GeneralizedfSim" and g["trainable"] for g in gates_)
    steps = []
    for s in range(rng.choice([1, 2, 2, 3])):
        fmt = rng.choice(FORMATS)
        if has_gf and fmt.startswith("flat"):
            fmt = rng.choice(["gate", "list", "dict"])      # flat format x GeneralizedfSim: open known finding flat_format:GeneralizedfSim
        new = []
        for g in gates_:
            if not g.get("trainable"):
                new.append(None)
            elif g["cls"] == "RX":
                new.append({"theta": float(rng.randint(-8, 8))})
            else:
                dim = len(g["value"])
                vcl = rng.choice(["int", "real", "complex", "complex"])
                if fmt == "flat_array":
                    vcl = rng.choice(["int", "real"])
                val = rand_value(rng, dim, vcl)
                d = {"value": val, "rep": pick_repr(rng, val, g["cls"] == "Unitary")}
                if g["cls"] == "GeneralizedfSim":
                    d["phi"] = rng.randint(-6, 6) / 4
                new.append(d)
        flat_dt = rng.choice(["py", "np_scalars", "i64", "f64", "f32"])
        steps.append({"on": rng.choice(DERIVE), "format": fmt, "new": new, "flat_dtype": flat_dt, "dict_shuffle": rng.randrange(1000)})
    return {"nq": nq, "gates": gates_, "steps": steps}


FIXED = [
    # (construction vclass/rep, update vclass/rep, derive, format): the placeholders of the missed changes and their neighbours
    ("int", ["i64", "C"], "complex", ["c128", "C"], "self", "list"),
    ("int", ["i64", "C"], "real", ["f64", "C"], "self", "flat_list"),
    ("real", ["f64", "C"], "complex", ["c128", "F"], "self", "dict"),
    ("complex", ["c128", "C"], "complex", ["c128", "C"], "invert", "flat_list"),
    ("complex", ["c128", "Tview"], "complex", ["c64", "F"], "self", "gate"),
    ("int", ["f32", "F"], "complex", ["c64", "strided"], "copy_deep", "dict"),
    ("real", ["f64", "strided"], "real", ["f64", "Tview"], "invert", "flat_array"),
    ("int", ["i64", "F_readonly"], "complex", ["c128", "nested"], "fuse", "list"),
    ("complex", ["c64", "readonly"], "int", ["i64", "nested"], "copy", "gate"),
    ("real", ["f32", "C"], "complex", ["c128", "readonly"], "invert", "dict"),
]


def fixed_case(rng, i):
    v0, r0, v1, r1, on, fmt = FIXED[i % len(FIXED)]
    two = (i // len(FIXED)) % 2 == 1
    dim = 4 if two else 2
    qs = [1, 0] if two else [1]
    val0, val1 = rand_value(rng, dim, v0), rand_value(rng, dim, v1)
    gates_ = [{"cls": "H", "qubits": [0]},
              {"cls": "Unitary", "qubits": qs, "value": val0, "rep": list(r0), "trainable": True},
              {"cls": "RX", "qubits": [0], "theta": 2.0, "trainable": True},
              {"cls": "Unitary", "qubits": [0], "value": rand_value(rng, 2, "int"), "rep": ["i64", "C"], "trainable": False},
              {"cls": "CNOT", "qubits": [0, 1]}]
    new = [None, {"value": val1, "rep": list(r1)}, {"theta": -3.0}, None, None]
    return {"nq": 2, "gates": gates_, "steps": [{"on": on, "format": fmt, "new": new, "flat_dtype": "py", "dict_shuffle": i}]}


def label(case):
    return "+".join(f"{s['on']}/{s['format']}" for s in case["steps"])


# ------------------------------------------------------------------ abstract state (definition level)
def spec_of(g):
    s = {"cls": g["cls"], "qubits": list(g["qubits"]), "trainable": g.get("trainable")}
    if "value" in g:
        s["A"] = canon(g["value"])
    if "phi" in g:
        s["phi"] = float(g["phi"])
    if "theta" in g:
        s["theta"] = float(g["theta"])
    return s


def dagger_spec(s):
    d = dict(s)
    if "A" in s:
        d["A"] = np.conj(s["A"].T).copy()
    if "phi" in s:
        d["phi"] = -s["phi"]
    if "theta" in s:
        d["theta"] = -s["theta"]
    return d


def fresh_gate(s):
    from qibo import gates
    c = s["cls"]
    if c == "Unitary":
        return gates.Unitary(np.array(s["A"], dtype=np.complex128, order="C"), *s["qubits"], trainable=s["trainable"], check_unitary=False)
    if c == "GeneralizedfSim":
        return gates.GeneralizedfSim(*s["qubits"], np.array(s["A"], dtype=np.complex128, order="C"), s["phi"], trainable=s["trainable"])
    if c in ("RX", "RY"):
        return getattr(gates, c)(*s["qubits"], s["theta"], trainable=s["trainable"])
    return getattr(gates, c)(*s["qubits"])


def fresh_circuit(specs, nq):
    from qibo import Circuit
    c = Circuit(nq)
    for s in specs:
        c.add(fresh_gate(s))
    return c


def user_gate(g, inputs):
    from qibo import gates
    c = g["cls"]
    if c == "Unitary":
        A = materialise(g["value"], g["rep"])
        inputs.append((A, snapshot(A), f"constructor matrix {g['rep']}"))
        return gates.Unitary(A, *g["qubits"], trainable=g["trainable"], check_unitary=False)
    if c == "GeneralizedfSim":
        A = materialise(g["value"], g["rep"])
        inputs.append((A, snapshot(A), f"constructor matrix {g['rep']}"))
        return gates.GeneralizedfSim(*g["qubits"], A, g["phi"], trainable=g["trainable"])
    if c in ("RX", "RY"):
        return getattr(gates, c)(*g["qubits"], g["theta"], trainable=g["trainable"])
    return getattr(gates, c)(*g["qubits"])


def flat_gates(c):
    out = []
    for g in c.queue:
        out += list(g.gates) if type(g).__name__ == "FusedGate" else [g]
    return out


def expected_flat(specs):
    out = []
    for s in specs:
        if not s.get("trainable"):
            continue
        if "A" in s:
            out += [complex(z) for z in s["A"].reshape(-1)]
            if "phi" in s:
                out.append(complex(s["phi"]))
        elif "theta" in s:
            out.append(complex(s["theta"]))
    return out


def umax(U):
    return max(1.0, float(np.abs(U).max()))


def observe(U, specs, nq, P, where, flat_ok, layout_exprs=None, param_specs=None):
    """every observation of circuit U against the abstract state `specs` (same order as U's flattened queue)"""
    from qibo.gates.abstract import ParametrizedGate
    gs = flat_gates(U)
    if len(gs) != len(specs):
        P.append(("structure", f"{where}: queue has {len(gs)} gates, expected {len(specs)}"))
        return
    for g, s in zip(gs, specs):
        if "A" in s:
            got = as_complex(g.parameters[0])
            if got.shape != s["A"].shape or not np.array_equal(got, s["A"]):
                P.append(("readback_gate", f"{where}: {s['cls']}{tuple(s['qubits'])}.parameters[0] (dtype {np.asarray(g.parameters[0]).dtype}) reads "
                                           f"{got.tolist()}, was set to {s['A'].tolist()}"))
                return
            kept = g.init_args[0] if s["cls"] == "Unitary" else g.init_kwargs["unitary"]
            if not np.array_equal(as_complex(kept).reshape(s["A"].shape), s["A"]):
                P.append(("init_args", f"{where}: constructor argument kept by {s['cls']} (init_args / init_kwargs) holds {as_complex(kept).tolist()}, "
                                       f"current value is {s['A'].tolist()}"))
            if "phi" in s and complex(g.parameters[1]) != complex(s["phi"]):
                P.append(("readback_gate", f"{where}: GeneralizedfSim phi reads {g.parameters[1]}, was set to {s['phi']}"))
        elif "theta" in s and complex(g.parameters[0]) != complex(s["theta"]):
            P.append(("readback_gate", f"{where}: {s['cls']} theta reads {g.parameters[0]}, expected {s['theta']}"))
    tr = [s for s in (specs if param_specs is None else param_specs) if s.get("trainable")]
    try:
        lst = U.get_parameters("list")
        dct = U.get_parameters("dict")
        ok = len(lst) == len(tr) and list(dct.keys()) == list(U.trainable_gates)
        for p, pd, s in zip(lst, dct.values(), tr):
            for q in (p, pd):
                if "A" in s:
                    ok = ok and np.array_equal(as_complex(q[0]), s["A"])
                else:
                    ok = ok and complex(q[0]) == complex(s["theta"])
        if not ok:
            P.append(("readback_list", f"{where}: get_parameters('list'/'dict') does not return what was set"))
        if flat_ok:
            fl = [complex(z) for z in U.get_parameters("flatlist")]
            want = expected_flat(tr)
            if fl != want:
                P.append(("readback_flat", f"{where}: get_parameters('flatlist') = {fl}, the values that were set (row-major) are {want}"))
            if layout_exprs is not None:
                for g, s in zip(gs, specs):
                    if s["cls"] == "Unitary" and s.get("trainable") and vclass_of_arr(s["A"]):
                        st = np.asarray(g.parameters[0])
                        e = layout_expr(st)
                        if e is not None:
                            layout_exprs.append((e, [int(round(2 * z.real)) for z in s["A"].reshape(-1)], where))
    except Exception as ex:  # noqa: BLE001
        P.append(("raises", f"{where}: get_parameters raises {type(ex).__name__}: {ex}"))
    try:
        F = fresh_circuit(specs, nq)
        Uf = np.asarray(F.unitary())
        d = float(np.abs(np.asarray(U.unitary()) - Uf).max())
        if d > TOL * umax(Uf):
            P.append(("operator", f"{where}: unitary() differs from a freshly built circuit with the values that were set (max diff {d:.3g})"))
        Ui = np.conj(Uf.T)                      # definition of the inverse, independent of the real dagger
        for name, thunk in (("invert", lambda: U.invert().unitary()), ("copy_deep", lambda: U.copy(deep=True).invert().unitary()),
                            ("fuse", lambda: U.fuse(max_qubits=2).invert().unitary())):
            if name != "invert" and any(type(g).__name__ == "FusedGate" for g in U.queue):
                continue
            d = float(np.abs(np.asarray(thunk()) - Ui).max())
            if d > TOL * umax(Ui):
                P.append(("view_" + name, f"{where}: {name} requested after the update differs from the freshly built circuit (max diff {d:.3g})"))
    except Exception as ex:  # noqa: BLE001
        P.append(("raises", f"{where}: views raise {type(ex).__name__}: {ex}"))


def vclass_of_arr(A):
    return bool(np.all(A.imag == 0))


def layout_expr(st):
    """Coq term for a stored real-valued 2-D array: buffer in MEMORY order (units of 1/2), shape, order"""
    if st.ndim != 2 or np.iscomplexobj(st):
        st = np.asarray(st)
        if st.ndim != 2 or np.any(np.asarray(st).imag != 0):
            return None
    if st.flags.c_contiguous:
        order, mem = "C", np.asarray(st).reshape(-1, order="C")
    elif st.flags.f_contiguous:
        order, mem = "F", np.asarray(st).reshape(-1, order="F")
    else:
        return None
    buf = "; ".join(str(int(round(2 * float(np.real(z))))) for z in mem)
    return f"flat_read (mkarr [{buf}] {st.shape[0]}%nat {st.shape[1]}%nat {order})"


# ------------------------------------------------------------------ running one case
def run_case(case):
    """-> (problems [(kind, what)], layout expressions [(coq, expected ints, where)])"""
    import random
    from qibo import Circuit
    P, L = [], []
    nq = case["nq"]
    inputs = []
    try:
        c = Circuit(nq)
        for g in case["gates"]:
            c.add(user_gate(g, inputs))
    except Exception as ex:  # noqa: BLE001
        return [("raises_construct", f"building the circuit raises {type(ex).__name__}: {ex}")], L
    specs = [spec_of(g) for g in case["gates"]]
    cur_idx = list(range(len(specs)))          # current queue position -> index of the gate in case["gates"]
    has_gf = any(s["cls"] == "GeneralizedfSim" and s["trainable"] for s in specs)
    observe(c, specs, nq, P, "after construction", not has_gf, L)
    if P:
        return [("construct:" + k, w) for k, w in P], L
    for si, step in enumerate(case["steps"]):
        on, fmt = step["on"], step["format"]
        where = f"step {si + 1} ({on}/{fmt})"
        try:
            if on == "self":
                U, uspecs, own = c, specs, False
            elif on == "invert":
                U, uspecs, own = c.invert(), [dagger_spec(s) for s in specs][::-1], True
            elif on == "copy_deep":
                U, uspecs, own = c.copy(deep=True), [dict(s) for s in specs], True
            elif on == "copy":
                U, uspecs, own = c.copy(), specs, False
            else:
                U, uspecs, own = c.fuse(max_qubits=2), None, False
        except Exception as ex:  # noqa: BLE001
            P.append(("raises", f"{where}: deriving the circuit raises {type(ex).__name__}: {ex}"))
            break
        if uspecs is None:
            # fusion may reorder commuting gates: read the order off the fused queue by object identity (shared gate objects)
            pos = {id(g): k for k, g in enumerate(c.queue)}
            try:
                order = [pos[id(g)] for g in flat_gates(U)]
            except KeyError:
                P.append(("structure", f"{where}: fused circuit holds a gate object that is not in its source"))
                break
            uspecs = [specs[k] for k in order]
        uidx = cur_idx[::-1] if on == "invert" else ([cur_idx[k] for k in order] if on == "fuse" else cur_idx)
        # Circuit.fuse keeps the parameter lists of its source: parameters are exposed in the SOURCE order
        pspecs = specs if on == "fuse" else uspecs
        pidx = cur_idx if on == "fuse" else uidx
        if on != "self":
            observe(U, uspecs, nq, P, where + " before the update", not has_gf, L, param_specs=pspecs)
            if P:
                break
        # ---- the update
        tg = list(U.trainable_gates)
        tsp = [(s, step["new"][j]) for s, j in zip(pspecs, pidx) if s.get("trainable")]
        if len(tg) != len(tsp):
            P.append(("structure", f"{where}: {len(tg)} trainable gates, expected {len(tsp)}"))
            break
        vals, step_inputs = [], []
        for s, nw in tsp:
            if "theta" in s:
                vals.append(nw["theta"])
            else:
                A = materialise(nw["value"], nw["rep"])
                step_inputs.append((A, snapshot(A), f"update matrix {nw['rep']}"))
                vals.append((A, nw["phi"]) if "phi" in s else A)
        try:
            if fmt == "gate":
                for g, v in zip(tg, vals):
                    g.parameters = v
            elif fmt == "list":
                U.set_parameters(list(vals))
            elif fmt == "dict":
                pairs = list(zip(tg, vals))
                random.Random(step["dict_shuffle"]).shuffle(pairs)
                U.set_parameters(dict(pairs))
            else:
                flat = []
                for (s, nw), v in zip(tsp, vals):
                    if "theta" in s:
                        flat.append(v)
                    else:
                        dt = nw["rep"][0]
                        flat += [py_number(z, dt) for z in canon(nw["value"]).reshape(-1)]
                if fmt == "flat_array":
                    fd = step["flat_dtype"]
                    allint = all(float(np.real(x)) == int(np.real(x)) for x in flat)
                    # a float32 array would hand a float32 angle to the scalar gates (numpy then evaluates cos/sin in single
                    # precision): single precision only when every trainable parameter is matrix-valued
                    scalar = any("theta" in s for s, _ in tsp)
                    dt = {"i64": np.int64 if allint else np.float64, "f32": np.float64 if scalar else np.float32}.get(fd, np.float64)
                    arr = np.array([float(np.real(x)) for x in flat]).astype(dt)
                    step_inputs.append((arr, snapshot(arr), f"flat array {arr.dtype}"))
                    U.set_parameters(arr)
                else:
                    if step["flat_dtype"] == "np_scalars":
                        flat = [np.asarray(x)[()] for x in flat]
                    step_inputs.append((flat, snapshot(flat), "flat list"))
                    U.set_parameters(flat)
        except Exception as ex:  # noqa: BLE001
            P.append(("raises_set", f"{where}: the update raises {type(ex).__name__}: {str(ex)[:200]} "
                                    f"(values {[nw.get('rep') for _, nw in tsp if nw]})"))
            break
        # ---- new abstract state
        for s, nw in tsp:
            if "theta" in s:
                s["theta"] = float(nw["theta"])
            else:
                s["A"] = canon(nw["value"])
                if "phi" in s:
                    s["phi"] = float(nw["phi"])
        desc = ("built from " + ", ".join(str(g0["rep"]) for g0 in case["gates"] if g0.get("trainable") and "rep" in g0)
                + "; updated with " + ", ".join(str(nw["rep"]) for _, nw in tsp if nw and "rep" in nw))
        n0 = len(P)
        observe(U, uspecs, nq, P, where + " after the update [" + desc + "]", not has_gf, L, param_specs=pspecs)
        if own:
            observe(c, specs, nq, P, where + ": SOURCE of the derived circuit after updating the derived one", not has_gf)
        for obj, snap, what in inputs + step_inputs:
            if not same_snapshot(obj, snap):
                P.append(("mutated_input", f"{where}: the user's {what} was modified"))
                break
        if len(P) > n0:
            break
        # ---- flat round trip on the result and on its inverse
        if not has_gf and not any(type(g).__name__ == "FusedGate" for g in U.queue):
            try:
                fl = U.get_parameters("flatlist")
                U.set_parameters(fl)
                observe(U, uspecs, nq, P, where + " after set_parameters(get_parameters('flatlist'))", True)
                inv = U.invert()
                ispecs = [dagger_spec(s) for s in uspecs][::-1]
                fl = inv.get_parameters("flatlist")
                want = expected_flat(ispecs)
                if [complex(z) for z in fl] != want:
                    P.append(("readback_flat_inverse", f"{where}: get_parameters('flatlist') of the inverse = {[complex(z) for z in fl]}, its gates hold (row-major) {want}"))
                inv.set_parameters(fl)
                observe(inv, ispecs, nq, P, where + " inverse after set_parameters(get_parameters('flatlist'))", True, L)
            except Exception as ex:  # noqa: BLE001
                P.append(("raises_roundtrip", f"{where}: flat round trip raises {type(ex).__name__}: {str(ex)[:200]}"))
            if len(P) > n0:
                P[n0:] = [("roundtrip:" + k if not k.startswith(("readback_flat_inverse", "raises")) else k, w) for k, w in P[n0:]]
                break
        if own:
            c, specs, cur_idx = U, uspecs, uidx
    return P, L


def parse_zlist(s):
    s = s.replace("%Z", "").strip()
    if s in ("[]", "nil"):
        return []
    return [int(x) for x in s.strip("[]").split(";") if x.strip()]


# ------------------------------------------------------------------ the stream
def stream(run, rng, ncases):
    from lib import vcore
    for t in vcore.props_theorems("C06/PropsLayout.v"):
        run.oblige(t, True, "static-theorem")
    ok, pa = vcore.static_assumptions("C06/PropsLayout")
    run.notes["print_assumptions_layout"] = pa
    seen, nfound, hard = set(), 0, 0
    layouts = []

    def report(case, kind, what):
        nonlocal nfound
        key = f"repr:{case['steps'][0]['on']}/{case['steps'][0]['format']}:{kind}" if len(case["steps"]) == 1 else f"repr:history:{kind}"
        if key in seen or nfound >= 10:
            return
        seen.add(key)
        nfound += 1
        run.refuted.append("representation_" + key)
        run.find(key, what, {"repr": case})
    for i in range(ncases):
        case = fixed_case(rng, i) if i < 2 * len(FIXED) else make_case(rng, i)
        P, L = run_case(case)
        run.case(["repr", label(case), [(g["cls"], g.get("rep"), g.get("trainable")) for g in case["gates"]],
                  [[(nw or {}).get("rep") for nw in s["new"]] for s in case["steps"]], i])
        if i % 20 == 0:
            run.sample({"representation_history": label(case), "gates": [(g["cls"], g.get("rep")) for g in case["gates"]],
                        "updates": [[(nw or {}).get("rep") for nw in s["new"] if nw and "rep" in nw] for s in case["steps"]]})
        for kind, what in P:
            hard += 1
            report(case, kind, what)
        if len(layouts) < 400:
            layouts += [(e, w, wh, case) for e, w, wh in L[:4]]
    vals = run.coq_eval("C06_layout.v", HEADER, [e for e, _, _, _ in layouts], timeout=300)
    if vals is None:
        run.oblige("correspondence_matrix_parameter_representations", False, "correspondence")
        run.find("coq:C06_layout", "layout model evaluation does not compile", concrete=False)
        return
    for (e, want, wh, case), v in zip(layouts, vals):
        if parse_zlist(v) != want:
            hard += 1
            report(case, "layout_model", f"{wh}: C06/Layout.flat_read of the stored array gives {parse_zlist(v)}, the values that were set are {want}")
    run.oblige("correspondence_matrix_parameter_representations", hard == 0, "correspondence")
    run.notes["representation_cases"] = ncases
    run.notes["layout_model_evaluations"] = len(layouts)


def replay_case(run, case):
    P, L = run_case(case)
    return P
